#!/venv/bin/python
"""replay of C07 counter-models: compiled hybrid36 module (when it still
matches the .pyx text) and the extracted source text"""
import json
import sys
import traceback
sys.path.insert(0, "/verif")
from replayers.common import compiled_in_sync, engine_concrete

H36 = "structure/io/pdb/hybrid36.pyx"


def max36(L):
    return 10 ** L - 1 + 2 * (26 * 36 ** (L - 1))


def oracle(n, L, enc, dec):
    """returns failure text or None"""
    ok_range = 0 <= n <= max36(L)
    try:
        s = enc(n, L)
    except ValueError:
        return None if not ok_range else f"encode_hybrid36({n},{L}) raised ValueError inside the representable range"
    if not ok_range:
        return f"encode_hybrid36({n},{L}) returned {s!r} outside the representable range"
    if len(s) > L:
        return f"encode_hybrid36({n},{L}) = {s!r} exceeds the column width"
    try:
        back = dec(s)
    except Exception as e:
        return f"decode_hybrid36({s!r}) raised {type(e).__name__}"
    if back != n:
        return f"decode_hybrid36(encode_hybrid36({n},{L})) = {back}"
    return None


def main():
    rec = json.load(open(sys.argv[1]))
    m = rec.get("model", {})
    try:
        n, L = int(m.get("number", 0)), int(m.get("L", m.get("length", 4)))
        sync, checked, bad = compiled_in_sync(H36)
        details = []
        rep = False
        if sync:
            from biotite.structure.io.pdb.hybrid36 import encode_hybrid36, decode_hybrid36
            f = oracle(n, L, encode_hybrid36, decode_hybrid36)
            details.append(f"compiled module (in sync, {checked} lines): " + (f or "agrees with the contract"))
            rep = rep or bool(f)
        else:
            details.append(f"compiled module is stale w.r.t. the .pyx text (lines {bad[:6]}): replay on the extracted source")

        class VE(Exception):
            pass

        def enc(n_, L_):
            r = engine_concrete(H36 + "::encode_hybrid36", [{"cv": n_, "ctype": "int"}, {"cv": L_, "ctype": "unsigned int"}])
            if r.get("outcome") == "raise":
                raise ValueError()
            return r.get("value")

        def dec(s):
            r = engine_concrete(H36 + "::decode_hybrid36", [s])
            if r.get("outcome") == "raise":
                raise ValueError()
            return r.get("value")
        f2 = oracle(n, L, enc, dec)
        details.append("extracted source: " + (f2 or "agrees with the contract"))
        rep = rep or bool(f2)
        print(json.dumps({"reproduced": rep, "detail": "; ".join(details)}))
    except Exception:
        print(json.dumps({"reproduced": None, "detail": "replayer error: " + traceback.format_exc()[-500:]}))


if __name__ == "__main__":
    main()
