#!/venv/bin/python
"""replay of C20 counter-models on the real biotite application wrappers"""
import json
import os
import time
import sys
import traceback

# replay on the tree the VCs came from (a scratch copy under --src-root keeps the compiled modules)
if os.environ.get("VERIF_SRC"):
    sys.path.insert(0, os.path.dirname(os.environ["VERIF_SRC"].rstrip("/")))
from biotite.application.application import Application, AppState, AppStateError
from biotite.application.localapp import LocalApp

STATE = {1: AppState.CREATED, 2: AppState.RUNNING, 4: AppState.FINISHED,
         8: AppState.JOINED, 16: AppState.CANCELLED}


class RunError(Exception):
    pass


class EvalError(Exception):
    pass


class Probe(Application):
    def __init__(self, fail_run=False, eval_mode="ok", finished=True):
        super().__init__()
        self.cleanups = self.runs = self.evals = 0
        self.fail_run, self.eval_mode, self.finished = fail_run, eval_mode, finished

    def run(self):
        self.runs += 1
        if self.fail_run:
            raise RunError()

    def is_finished(self):
        return self.finished

    def wait_interval(self):
        return 0.0

    def evaluate(self):
        self.evals += 1
        self.state_at_evaluate = self._state
        if self.eval_mode == "error":
            raise EvalError()
        if self.eval_mode == "state":
            raise AppStateError()

    def clean_up(self):
        self.cleanups += 1


def replay_application(rec, m):
    ob = rec["obligation"]
    s0 = STATE.get(m.get("state0"), AppState.RUNNING)
    if "hook_requires[evaluate" in ob:
        app = Probe()
        app._state = AppState.RUNNING
        app._start_time = 0.0
        try:
            app.join()
            out = "returned"
        except Exception as e:
            out = type(e).__name__
        at = getattr(app, "state_at_evaluate", None)
        return at != AppState.FINISHED, f"join() of a running, then finished application: {out}; evaluate() ran in state {at}"
    if "Application.join" in ob:
        app = Probe(eval_mode="error" if "EvalError" in ob else "ok")
        app._state = s0
        app._start_time = 0.0
        try:
            app.join()
            out = "returned"
        except Exception as e:
            out = type(e).__name__
        bad = (app._state in (AppState.JOINED, AppState.CANCELLED)) and app.cleanups != 1
        return bad, f"join() from {s0}: {out}, state={app._state}, clean_up calls={app.cleanups}, evaluate calls={app.evals}"
    if "Application.start" in ob:
        app = Probe(fail_run="RunError" in ob)
        app._state = s0
        try:
            app.start()
            out = "returned"
        except Exception as e:
            out = type(e).__name__
        if "RunError" in ob:
            bad = app.cleanups != 1 or app._state != AppState.CANCELLED
        else:
            bad = False
        return bad, f"start() from {s0}: {out}, state={app._state}, clean_up calls={app.cleanups}"
    return None, "no replay for this obligation"


class LProbe(LocalApp):
    def __init__(self, bin_path):
        super().__init__(bin_path)
        self.cleanups = 0

    def clean_up(self):
        self.cleanups += 1
        super().clean_up()

    def evaluate(self):
        # like a concrete wrapper: reads the output of the finished program
        self.state_at_evaluate = self._state
        super().evaluate()
        self.seen_stdout = self.get_stdout()


def replay_localapp(rec, m):
    ob = rec["obligation"]
    here = os.path.dirname(os.path.abspath(__file__))
    fix = os.path.join(os.path.dirname(here), "fixtures", "bin")
    cwd0 = os.getcwd()
    try:
        if "LocalApp.run" in ob:
            app = LProbe(os.path.join(fix, "does-not-exist"))
            app.set_exec_dir("/tmp")
            try:
                app.run()
                out = "returned"
            except Exception as e:
                out = type(e).__name__
            now = os.getcwd()
            return now != cwd0, f"run() with a missing binary: {out}; cwd before={cwd0} after={now}"
        if "allowed_only_from_evaluate" in ob:
            class EarlyGetter(LProbe):
                def evaluate(self):
                    super().evaluate()
                    raise AppStateError("a JOINED-only getter was called too early")
            app = EarlyGetter("/bin/true")
            app.start()
            try:
                app.join()
                out = "returned"
            except AppStateError:
                out = "AppStateError"
            except Exception as e:
                out = type(e).__name__
            bad = out == "AppStateError" and (app._state != AppState.FINISHED or app.cleanups != 0)
            detail = f"join() with an evaluate() that raises AppStateError: {out}, state={app._state}, clean_up calls={app.cleanups} (the run has not ended: 0 expected)"
            try:
                app.cancel()
            except Exception:
                pass
            if not bad and app.cleanups != 1:
                bad, detail = True, detail + f"; after cancel(): clean_up calls={app.cleanups} (exactly once expected)"
            return bad, detail
        if "hook_requires[evaluate" in ob:
            app = LProbe("/bin/true")
            app.start()
            try:
                app.join()
                out = "returned"
            except Exception as e:
                out = type(e).__name__
            at = getattr(app, "state_at_evaluate", None)
            return at != AppState.FINISHED or out != "returned", (f"join() on /bin/true with an evaluate() that reads the output: {out}; "
                                                                   f"evaluate() ran in state {at}")
        if "call_was_allowed" in ob and m.get("state0") in STATE:
            # drive a real LocalApp into the state of the counter-model, then call join()
            s0 = STATE[m["state0"]]
            app = LProbe("/bin/true" if s0 != AppState.RUNNING else os.path.join(fix, "sleeper"))
            if s0 != AppState.CREATED:
                app.start()
            if s0 == AppState.FINISHED:
                app.get_process().wait(timeout=5)
                app.get_app_state()
            elif s0 == AppState.JOINED:
                app.join()
            elif s0 == AppState.CANCELLED:
                app.cancel()
            before = (app._state, app.cleanups)
            try:
                app.join(timeout=0.3) if s0 == AppState.RUNNING else app.join()
                out = "returned"
            except Exception as e:
                out = type(e).__name__
            allowed = s0 in (AppState.RUNNING, AppState.FINISHED)
            bad = (not allowed) and (out != "AppStateError" or (app._state, app.cleanups) != before)
            if s0 == AppState.RUNNING:
                try:
                    app.get_process().kill()
                except Exception:
                    pass
            return bad, (f"join() called in state {s0.name}: {out}; state {before[0].name} -> {app._state.name}, "
                         f"clean_up calls {before[1]} -> {app.cleanups} (AppStateError and no side effect expected: {not allowed})")
        if "time_limit_handed_to_the_wait" in ob:
            import subprocess as sp
            # a child that runs for 4 s: join(timeout=0.3) must give up after 0.3 s with TimeoutError
            app = LProbe("/bin/sleep")
            app.add_additional_options(["4"])
            app.start()
            proc = app.get_process()
            t0 = time.time()
            try:
                app.join(timeout=0.3)
                out = "returned"
            except Exception as e:
                out = type(e).__name__
            took = time.time() - t0
            try:
                proc.wait(timeout=6)
            except sp.TimeoutExpired:
                proc.kill()
            bad = out != "TimeoutError" or took > 2.5
            return bad, f"child that runs for 4 s: join(timeout=0.3) {out} after {took:.1f} s, state={app._state.name} (TimeoutError after 0.3 s expected)"
        if "output_captured_when_the_end_is_reported" in ob:
            # poll until FINISHED (no join), then read what the program wrote: allowed from FINISHED on
            app = LProbe("/bin/echo")
            app.add_additional_options(["hello"])
            app.start()
            t0 = time.time()
            while app.get_app_state() != AppState.FINISHED and time.time() - t0 < 10:
                time.sleep(0.05)
            try:
                out = repr(app.get_stdout())
                bad = "hello" not in out
            except Exception as e:
                out, bad = f"{type(e).__name__}: {e}", True
            return bad, f"/bin/echo hello polled to state {app.get_app_state().name} (no join): get_stdout() -> {out}"
        if "library_requires[Popen.wait" in ob:
            # a child that writes 256 KiB to each pipe and then ends at once: join() must return its output
            app = LProbe(os.path.join(fix, "noisy"))
            app.start()
            t0 = time.time()
            try:
                app.join(timeout=8)
                out = "returned"
            except Exception as e:
                out = type(e).__name__
            took = time.time() - t0
            bad = out != "returned" or app._state != AppState.JOINED or len(app.seen_stdout) != 262144
            return bad, (f"child that writes 256 KiB to STDOUT and STDERR and exits at once: join(timeout=8) {out} after {took:.1f} s, "
                         f"state={app._state.name} (the pipes are not drained while waiting)")
        if ("LocalApp.join" in ob and "TimeoutError" in ob) or "LocalApp.cancel" in ob or "Application.cancel" in ob \
                or "kill_iff_cancelled" in ob:
            import subprocess as sp
            # a child that ignores SIGTERM: only kill() ends it
            app = LProbe(os.path.join(fix, "stubborn"))
            app.start()
            time.sleep(0.3)          # let the shell install its trap
            proc = app.get_process()
            try:
                if "cancel" in ob:           # (also clean_up's kill_iff_cancelled: reached through cancel())
                    app.cancel()
                    out = "cancel() returned"
                else:
                    app.join(timeout=0.3)
                    out = "join(timeout=0.3) returned"
            except Exception as e:
                out = type(e).__name__
            try:
                proc.wait(timeout=3)
                alive = False
            except sp.TimeoutExpired:
                alive = True
                proc.kill()
            bad = alive or app.cleanups != 1 or app._state != AppState.CANCELLED
            return bad, f"never-ending child: {out}, state={app._state}, clean_up calls={app.cleanups}, child still running={alive}"
        if "LocalApp.join" in ob:
            app = LProbe("/bin/false" if "SubprocessError" in ob or "EvalError" in ob else "/bin/true")
            app.start()
            try:
                app.join()
                out = "returned"
            except Exception as e:
                out = type(e).__name__
            bad = app._state in (AppState.JOINED, AppState.CANCELLED) and app.cleanups != 1
            return bad, f"join() on /bin/false: {out}, state={app._state}, clean_up calls={app.cleanups}"
        if "LocalApp.clean_up" in ob or "Application.start" in ob:
            app = LProbe(os.path.join(fix, "does-not-exist"))
            try:
                app.start()
                out = "returned"
            except Exception as e:
                out = type(e).__name__
            # the launch failure itself must reach the caller (an OSError), after clean-up has run once
            bad = app.cleanups != 1 or out not in ("FileNotFoundError", "PermissionError", "OSError", "NotADirectoryError")
            return bad, f"start() with a missing binary: {out}, state={app._state}, clean_up calls={app.cleanups}"
    finally:
        os.chdir(cwd0)
    return None, "no replay for this obligation"


def main():
    rec = json.load(open(sys.argv[1]))
    m = rec.get("model", {})
    try:
        if "localapp.py" in rec["case"]:
            rep, detail = replay_localapp(rec, m)
        else:
            rep, detail = replay_application(rec, m)
    except Exception:
        rep, detail = None, "replayer error: " + traceback.format_exc()[-600:]
    print(json.dumps({"reproduced": rep, "detail": detail}))


if __name__ == "__main__":
    main()
