#!/venv/bin/python
"""guided concrete search for the C03 letter codec obligations"""
import json
import random
import sys
import traceback
sys.path.insert(0, "/verif")
from replayers.common import run_search, finish

CODEC = "sequence/codec.pyx"


def gen(rng, n, decode):
    letters = list(range(33, 127))
    for _ in range(n):
        k = rng.randint(1, 5)
        alph = rng.sample(letters, k)
        m = rng.randint(0, 5)
        if decode:
            data = [rng.randint(0, k + 1) for _ in range(m)]
        else:
            pool = alph + rng.sample(letters, 2)
            data = [rng.choice(pool) for _ in range(m)]
        yield (alph, data)


def oracle_encode(inp, out):
    alph, syms = inp
    bad = [s for s in syms if s not in alph]
    if bad:
        return None if (out["outcome"] == "raise" and out.get("exception") == "AlphabetError") else \
            f"symbol {chr(bad[0])!r} is not in the alphabet but the call {out['outcome']}s {out.get('value')}"
    if out["outcome"] != "return":
        return f"raised {out.get('exception')} for symbols inside the alphabet"
    exp = [alph.index(s) for s in syms]
    return None if list(out["value"]) == exp else f"codes {list(out['value'])}, expected {exp}"


def oracle_decode(inp, out):
    alph, codes = inp
    if any(c >= len(alph) for c in codes):
        return None if (out["outcome"] == "raise" and out.get("exception") == "AlphabetError") else \
            f"code outside the alphabet but the call {out['outcome']}s {out.get('value')}"
    if out["outcome"] != "return":
        return f"raised {out.get('exception')} for valid codes"
    exp = [alph[c] for c in codes]
    return None if list(out["value"]) == exp else f"symbols {list(out['value'])}, expected {exp}"


def main():
    rec = json.load(open(sys.argv[1]))
    if "KmerAlphabet._split" in rec.get("case", ""):
        from replayers.C10 import split_search
        from replayers.common import finish
        try:
            rep, detail = split_search(rec["case"])
        except Exception:
            rep, detail = None, "replayer error: " + traceback.format_exc()[-700:]
        finish(rep, detail)
        return
    try:
        import numpy as np
        rng = random.Random(0)
        decode = "decode_to_chars" in rec["case"]
        inputs = list(gen(rng, 60, decode))

        def comp(inp):
            from biotite.sequence import codec
            a = np.array(inp[0], dtype=np.uint8)
            d = np.array(inp[1], dtype=np.uint8)
            r = codec.decode_to_chars(a, d) if decode else codec.encode_chars(a, d)
            return {"value": r.tolist()}
        rep, detail = run_search(
            CODEC, CODEC + ("::decode_to_chars" if decode else "::encode_chars"), inputs,
            lambda inp: [{"array": inp[0], "ctype": "unsigned char"},
                         {"array": inp[1], "ctype": "uint8" if decode else "unsigned char"}],
            oracle_decode if decode else oracle_encode, comp)
    except Exception:
        rep, detail = None, "replayer error: " + traceback.format_exc()[-700:]
    finish(rep, detail)


if __name__ == "__main__":
    main()
