#!/venv/bin/python
"""replay of C12 counter-models on the real GenBank location writer / parser"""
import json
import re
import sys
import traceback
sys.path.insert(0, "/verif")
from replayers.common import finish
from biotite.sequence import Location
from biotite.sequence.io.genbank.annotation import _convert_to_loc_string, _parse_locs

BITS = [Location.Defect.MISS_LEFT, Location.Defect.MISS_RIGHT, Location.Defect.BEYOND_LEFT,
        Location.Defect.BEYOND_RIGHT, Location.Defect.UNK_LOC, Location.Defect.BETWEEN]


def defect_of(v):
    d = Location.Defect.NONE
    for b in BITS:
        if v & b.value:
            d |= b
    return d


def main():
    rec = json.load(open(sys.argv[1]))
    m = rec.get("model", {})
    try:
        idx = sorted({int(k[3]) for k in m if re.match(r"loc\d_first", k)})
        locs = []
        for i in idx:
            locs.append(Location(int(m[f"loc{i}_first"]), int(m[f"loc{i}_last"]),
                                 Location.Strand.REVERSE if m.get(f"loc{i}_strand") == Location.Strand.REVERSE.value
                                 else Location.Strand.FORWARD, defect_of(int(m.get(f"loc{i}_defect", 0)))))
        text = _convert_to_loc_string(locs)
        try:
            back = _parse_locs(text)
        except Exception as e:
            finish(True, f"{locs} written as {text!r}; parsing raised {type(e).__name__}: {e}")
            return
        if list(back) != list(locs):
            finish(True, f"{locs} written as {text!r}, parsed back as {back}")
        else:
            finish(False, f"{locs} written as {text!r} and recovered unchanged")
    except Exception:
        finish(None, "replayer error: " + traceback.format_exc()[-600:])


if __name__ == "__main__":
    main()
