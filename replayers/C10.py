#!/venv/bin/python
"""guided concrete search for the C10 arg-cummin obligations: extracted source
text against the chunk-prefix / chunk-suffix leftmost arg-minimum, compiled
module end-to-end through MinimizerSelector against a brute-force window minimum"""
import json
import random
import sys
import traceback
sys.path.insert(0, "/verif")
from replayers.common import compiled_in_sync, engine_batch, finish

SEL = "sequence/align/selector.pyx"


def ref_fwd(v, w):
    out = []
    for s in range(len(v)):
        lo = (s // w) * w
        seg = v[lo:s + 1]
        out.append(lo + seg.index(min(seg)))
    return out


def ref_rev(v, w):
    out = []
    for s in range(len(v)):
        hi = min(len(v) - 1, (s // w) * w + w - 1)
        seg = v[s:hi + 1]
        out.append(s + seg.index(min(seg)))
    return out


def spaced_search():
    """guided search for the _create_spaced_kmers contract"""
    from replayers.common import run_search
    KA = "sequence/align/kmeralphabet.pyx"
    rng = random.Random(0)
    inputs = []
    for _ in range(70):
        k = rng.randint(2, 3)
        span = rng.randint(k, k + 3)
        sp = sorted(rng.sample(range(span - 1), k - 1)) + [span - 1] if span > 1 else [0]
        sp = sorted(set(sp))
        while len(sp) < k:
            sp.append(sp[-1] + 1)
        n = rng.randint(max(0, sp[-1] - 1), sp[-1] + 5)
        code = [rng.randrange(4) if rng.random() < 0.93 else rng.randrange(4, 7) for _ in range(n)]
        inputs.append({"k": k, "spacing": sp, "code": code})

    def expected(inp):
        k, sp, code = inp["k"], inp["spacing"], inp["code"]
        span = sp[-1] + 1
        if len(code) < span:
            return "ValueError"
        out = []
        for i in range(len(code) - span + 1):
            v = 0
            for j in range(k):
                c = code[i + sp[j]]
                if c >= 4:
                    return "AlphabetError"
                v += 4 ** (k - 1 - j) * c
            out.append(v)
        return out

    def compiled(inp):
        import numpy as np
        import biotite.sequence as seq
        import biotite.sequence.align as align
        ka = align.KmerAlphabet(seq.NucleotideSequence.alphabet_unamb, inp["k"], spacing=inp["spacing"])
        return {"value": ka.create_kmers(np.array(inp["code"], dtype=np.uint8)).tolist()}

    def oracle(inp, out):
        exp = expected(inp)
        if out.get("outcome") == "raise":
            return None if out.get("exception") == exp else f"raised {out.get('exception')}, expected {exp}"
        if out.get("outcome") != "return":
            return f"outcome {out.get('outcome')}"
        return None if out["value"] == exp else f"k-mer codes {out['value']}, the definition gives {exp}"

    def to_args(inp):
        k = inp["k"]
        return [{"obj": "KmerAlphabet", "attrs": {"_k": k, "_spacing": {"array": inp["spacing"], "ctype": "int64", "memview": False},
                                                  "_radix_multiplier": {"array": [4 ** (k - 1 - j) for j in range(k)], "ctype": "int64", "memview": False},
                                                  "_base_alph": {"array": [0, 1, 2, 3], "ctype": None, "memview": False}}},
                {"array": inp["code"], "ctype": "uint8"}]
    return run_search(KA, KA + "::KmerAlphabet._create_spaced_kmers", inputs, to_args, oracle, compiled_call=compiled,
                      label="KmerAlphabet._create_spaced_kmers")


def main():
    rec = json.load(open(sys.argv[1]))
    if "_create_spaced_kmers" in rec.get("case", ""):
        try:
            rep, detail = spaced_search()
        except Exception:
            rep, detail = None, "replayer error: " + traceback.format_exc()[-700:]
        finish(rep, detail)
        return
    try:
        rng = random.Random(0)
        inputs = []
        for _ in range(80):
            n = rng.randint(0, 9)
            inputs.append(([rng.randint(-3, 3) for _ in range(n)], rng.randint(1, 4)))
        details = []
        sync, checked, bad = compiled_in_sync(SEL)
        if sync:
            import numpy as np
            import biotite.sequence as seq
            import biotite.sequence.align as align
            alph = align.KmerAlphabet(seq.NucleotideSequence.alphabet_unamb, 3)
            for v, w in inputs:
                kmers = np.array([x + 3 for x in v], dtype=np.int64)
                if len(kmers) < w or w < 2:
                    continue
                pos, mins = align.MinimizerSelector(alph, w).select_from_kmers(kmers)
                exp = []
                for x in range(len(kmers) - w + 1):
                    win = kmers[x:x + w].tolist()
                    p = x + win.index(min(win))
                    if not exp or exp[-1] != p:
                        exp.append(p)
                if pos.tolist() != exp:
                    finish(True, f"compiled MinimizerSelector(window={w}).select_from_kmers({kmers.tolist()}) = {pos.tolist()}, leftmost window minima are {exp}")
                    return
            details.append("compiled MinimizerSelector (in sync): window minima agree with brute force")
        else:
            details.append(f"compiled module stale (lines {bad[:5]})")
        rev = "reverse" in rec["case"]
        target = SEL + ("::_chunk_wise_reverse_argcummin" if rev else "::_chunk_wise_forward_argcummin")
        outs = engine_batch(target, [{"args": [{"array": v, "ctype": "int64"}, {"cv": w, "ctype": "uint32"}]} for v, w in inputs])
        for (v, w), o in zip(inputs, outs):
            if o.get("outcome") in ("unsupported", "engine-error"):
                details.append(f"extracted text not executable: {o.get('error')}")
                break
            exp = ref_rev(v, w) if rev else ref_fwd(v, w)
            if o.get("outcome") != "return" or o.get("value") != exp or o.get("failed_safety_obligations"):
                finish(True, f"extracted {target.split('::')[1]}(values={v}, chunk_size={w}) -> {o.get('outcome')} {o.get('value')} {o.get('failed_safety_obligations')}, specification gives {exp}")
                return
        else:
            details.append(f"extracted text: {len(inputs)} inputs agree with the specification")
        finish(False, "; ".join(details))
    except Exception:
        finish(None, "replayer error: " + traceback.format_exc()[-700:])


if __name__ == "__main__":
    main()
