#!/venv/bin/python
"""guided concrete search for the C10 arg-cummin obligations: extracted source
text against the chunk-prefix / chunk-suffix leftmost arg-minimum, compiled
module end-to-end through MinimizerSelector against a brute-force window minimum"""
import json
import random
import sys
import traceback
sys.path.insert(0, "/verif")
from replayers.common import compiled_in_sync, engine_batch, finish

SEL = "sequence/align/selector.pyx"


def ref_fwd(v, w):
    out = []
    for s in range(len(v)):
        lo = (s // w) * w
        seg = v[lo:s + 1]
        out.append(lo + seg.index(min(seg)))
    return out


def ref_rev(v, w):
    out = []
    for s in range(len(v)):
        hi = min(len(v) - 1, (s // w) * w + w - 1)
        seg = v[s:hi + 1]
        out.append(s + seg.index(min(seg)))
    return out


def spaced_search():
    """guided search for the _create_spaced_kmers contract"""
    from replayers.common import run_search
    KA = "sequence/align/kmeralphabet.pyx"
    rng = random.Random(0)
    inputs = []
    for _ in range(70):
        k = rng.randint(2, 3)
        span = rng.randint(k, k + 3)
        sp = sorted(rng.sample(range(span - 1), k - 1)) + [span - 1] if span > 1 else [0]
        sp = sorted(set(sp))
        while len(sp) < k:
            sp.append(sp[-1] + 1)
        n = rng.randint(max(0, sp[-1] - 1), sp[-1] + 5)
        code = [rng.randrange(4) if rng.random() < 0.93 else rng.randrange(4, 7) for _ in range(n)]
        inputs.append({"k": k, "spacing": sp, "code": code})

    def expected(inp):
        k, sp, code = inp["k"], inp["spacing"], inp["code"]
        span = sp[-1] + 1
        if len(code) < span:
            return "ValueError"
        out = []
        for i in range(len(code) - span + 1):
            v = 0
            for j in range(k):
                c = code[i + sp[j]]
                if c >= 4:
                    return "AlphabetError"
                v += 4 ** (k - 1 - j) * c
            out.append(v)
        return out

    def compiled(inp):
        import numpy as np
        import biotite.sequence as seq
        import biotite.sequence.align as align
        ka = align.KmerAlphabet(seq.NucleotideSequence.alphabet_unamb, inp["k"], spacing=inp["spacing"])
        return {"value": ka.create_kmers(np.array(inp["code"], dtype=np.uint8)).tolist()}

    def oracle(inp, out):
        exp = expected(inp)
        if out.get("outcome") == "raise":
            return None if out.get("exception") == exp else f"raised {out.get('exception')}, expected {exp}"
        if out.get("outcome") != "return":
            return f"outcome {out.get('outcome')}"
        return None if out["value"] == exp else f"k-mer codes {out['value']}, the definition gives {exp}"

    def to_args(inp):
        k = inp["k"]
        return [{"obj": "KmerAlphabet", "attrs": {"_k": k, "_spacing": {"array": inp["spacing"], "ctype": "int64", "memview": False},
                                                  "_radix_multiplier": {"array": [4 ** (k - 1 - j) for j in range(k)], "ctype": "int64", "memview": False},
                                                  "_base_alph": {"array": [0, 1, 2, 3], "ctype": None, "memview": False}}},
                {"array": inp["code"], "ctype": "uint8"}]
    return run_search(KA, KA + "::KmerAlphabet._create_spaced_kmers", inputs, to_args, oracle, compiled_call=compiled,
                      label="KmerAlphabet._create_spaced_kmers")


def continuous_search(case):
    """guided search for the _create_continuous_kmers contract (k and alphabet size of the case)"""
    import re
    from replayers.common import run_search
    KA = "sequence/align/kmeralphabet.pyx"
    m = re.search(r"k=(\d+), alphabet of (\d+)", case)
    k, A = int(m.group(1)), int(m.group(2))
    ct = "uint32" if "uint32" in case else "uint8"
    top = min(A + 3, 255) if ct == "uint8" else A + 3
    rng = random.Random(0)
    inputs = [[], [0] * k, [A - 1] * (k + 2), list(range(min(A, k + 3)))]
    for _ in range(70):
        n = rng.randint(max(0, k - 1), k + 6)
        inputs.append([rng.randrange(A) if rng.random() < 0.95 else rng.randrange(A, top + 1) for _ in range(n)])

    def expected(code):
        if len(code) < k:
            return "ValueError"
        if any(c >= A for c in code):
            return "AlphabetError"
        return [sum(A ** (k - 1 - t) * code[q + t] for t in range(k)) for q in range(len(code) - k + 1)]

    def compiled(code):
        import numpy as np
        import biotite.sequence as seq
        import biotite.sequence.align as align
        base = seq.Alphabet(list(range(A)))
        return {"value": align.KmerAlphabet(base, k).create_kmers(np.array(code, dtype=ct)).tolist()}

    def oracle(code, out):
        exp = expected(code)
        if out.get("outcome") == "raise":
            return None if out.get("exception") == exp else f"raised {out.get('exception')}, expected {exp}"
        if out.get("outcome") != "return":
            return f"outcome {out.get('outcome')}"
        return None if out["value"] == exp else f"k-mer codes {out['value']}, the definition gives {exp}"

    def to_args(code):
        return [{"obj": "KmerAlphabet", "attrs": {"_k": k, "_spacing": None,
                                                  "_radix_multiplier": {"array": [A ** (k - 1 - j) for j in range(k)], "ctype": "int64", "memview": False},
                                                  "_base_alph": {"array": [], "shape": [A], "ctype": None, "memview": False}}},      # only its length is used
                {"array": code, "ctype": ct}]
    return run_search(KA, KA + "::KmerAlphabet._create_continuous_kmers", inputs, to_args, oracle, compiled_call=compiled,
                      label=f"KmerAlphabet(k={k}, {A} symbols)._create_continuous_kmers")


def split_search(case):
    """guided search for the _split contract (k and alphabet size of the case): every valid k-mer code near the
    digit boundaries, through the compiled method (if in sync) and the extracted text"""
    import re
    from replayers.common import run_search
    KA = "sequence/align/kmeralphabet.pyx"
    m = re.search(r"k=(\d+), alphabet of (\d+)", case)
    k, A = int(m.group(1)), int(m.group(2))
    top = A ** k
    pool = sorted({v for t in range(k + 1) for v in (A ** t - 1, A ** t, A ** t + 1, 2 * A ** t + 1) if 0 <= v < top} | {0, top - 1, top // 2, top // 3})
    inputs = [[], pool[:1]] + [pool[i:i + 4] for i in range(0, len(pool), 3)]

    def digits(v):
        return [(v // A ** (k - 1 - t)) % A for t in range(k)]

    def compiled(codes):
        import numpy as np
        import biotite.sequence as seq
        import biotite.sequence.align as align
        ka = align.KmerAlphabet(seq.Alphabet(list(range(A))), k)
        return {"value": ka._split(np.array(codes, dtype=np.int64)).tolist()}

    def oracle(codes, out):
        if out.get("outcome") != "return":
            return f"outcome {out.get('outcome')} {out.get('exception', '')}"
        exp = [digits(v) for v in codes]
        return None if [list(map(int, r)) for r in out["value"]] == exp else f"split into {out['value']}, the positional digits are {exp}"

    def to_args(codes):
        return [{"obj": "KmerAlphabet", "attrs": {"_k": k, "_spacing": None,
                                                  "_radix_multiplier": {"array": [A ** (k - 1 - j) for j in range(k)], "ctype": "int64", "memview": False}}},
                {"array": codes, "ctype": "int64"}]
    return run_search(KA, KA + "::KmerAlphabet._split", inputs, to_args, oracle, compiled_call=compiled,
                      label=f"KmerAlphabet(k={k}, {A} symbols)._split")


def main():
    rec = json.load(open(sys.argv[1]))
    if "KmerAlphabet._split" in rec.get("case", ""):
        try:
            rep, detail = split_search(rec["case"])
        except Exception:
            rep, detail = None, "replayer error: " + traceback.format_exc()[-700:]
        finish(rep, detail)
        return
    if "_create_continuous_kmers" in rec.get("case", ""):
        try:
            rep, detail = continuous_search(rec["case"])
        except Exception:
            rep, detail = None, "replayer error: " + traceback.format_exc()[-700:]
        finish(rep, detail)
        return
    if "_create_spaced_kmers" in rec.get("case", ""):
        try:
            rep, detail = spaced_search()
        except Exception:
            rep, detail = None, "replayer error: " + traceback.format_exc()[-700:]
        finish(rep, detail)
        return
    try:
        rng = random.Random(0)
        inputs = []
        for _ in range(80):
            n = rng.randint(0, 9)
            inputs.append(([rng.randint(-3, 3) for _ in range(n)], rng.randint(1, 4)))
        details = []
        sync, checked, bad = compiled_in_sync(SEL)
        if sync:
            import numpy as np
            import biotite.sequence as seq
            import biotite.sequence.align as align
            alph = align.KmerAlphabet(seq.NucleotideSequence.alphabet_unamb, 3)
            for v, w in inputs:
                kmers = np.array([x + 3 for x in v], dtype=np.int64)
                if len(kmers) < w or w < 2:
                    continue
                pos, mins = align.MinimizerSelector(alph, w).select_from_kmers(kmers)
                exp = []
                for x in range(len(kmers) - w + 1):
                    win = kmers[x:x + w].tolist()
                    p = x + win.index(min(win))
                    if not exp or exp[-1] != p:
                        exp.append(p)
                if pos.tolist() != exp:
                    finish(True, f"compiled MinimizerSelector(window={w}).select_from_kmers({kmers.tolist()}) = {pos.tolist()}, leftmost window minima are {exp}")
                    return
            details.append("compiled MinimizerSelector (in sync): window minima agree with brute force")
        else:
            details.append(f"compiled module stale (lines {bad[:5]})")
        rev = "reverse" in rec["case"]
        target = SEL + ("::_chunk_wise_reverse_argcummin" if rev else "::_chunk_wise_forward_argcummin")
        outs = engine_batch(target, [{"args": [{"array": v, "ctype": "int64"}, {"cv": w, "ctype": "uint32"}]} for v, w in inputs])
        for (v, w), o in zip(inputs, outs):
            if o.get("outcome") in ("unsupported", "engine-error"):
                details.append(f"extracted text not executable: {o.get('error')}")
                break
            exp = ref_rev(v, w) if rev else ref_fwd(v, w)
            if o.get("outcome") != "return" or o.get("value") != exp or o.get("failed_safety_obligations"):
                finish(True, f"extracted {target.split('::')[1]}(values={v}, chunk_size={w}) -> {o.get('outcome')} {o.get('value')} {o.get('failed_safety_obligations')}, specification gives {exp}")
                return
        else:
            details.append(f"extracted text: {len(inputs)} inputs agree with the specification")
        finish(False, "; ".join(details))
    except Exception:
        finish(None, "replayer error: " + traceback.format_exc()[-700:])


if __name__ == "__main__":
    main()
