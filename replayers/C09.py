#!/venv/bin/python
"""guided concrete search for C09 seed-extension obligations: the solver's
model of a failed loop obligation is an intermediate state, so small inputs
are searched for one that contradicts the X-drop specification"""
import json
import random
import sys
import traceback
sys.path.insert(0, "/verif")
from replayers.common import compiled_in_sync, engine_batch, finish

LU = "sequence/align/localungapped.pyx"


def reference(c1, c2, M, thr):
    """specification: last maximal prefix before the first X-drop"""
    n = min(len(c1), len(c2))
    P = [0]
    for k in range(n):
        P.append(P[-1] + M[c1[k]][c2[k]])
    best, length = 0, 0
    for k in range(1, n + 1):
        if P[k] >= best:
            best, length = P[k], k
        elif best - P[k] > thr:
            break
    return best, length


def gen(rng, n):
    for _ in range(n):
        asz = rng.randint(1, 3)
        n1, n2 = rng.randint(0, 5), rng.randint(0, 5)
        yield ([rng.randrange(asz) for _ in range(n1)], [rng.randrange(asz) for _ in range(n2)],
               [[rng.randint(-3, 3) for _ in range(asz)] for _ in range(asz)], rng.randint(0, 3))


def search(case, seed=0, budget=80):
    rng = random.Random(seed)
    inputs = list(gen(rng, budget))
    uint8 = "_seed_extend_uint8" in case
    details = []
    sync, checked, bad = compiled_in_sync(LU)
    if sync:
        import numpy as np
        from biotite.sequence.align import localungapped
        for c1, c2, M, thr in inputs:
            got = localungapped._seed_extend_generic(np.array(c1, dtype=np.uint8), np.array(c2, dtype=np.uint8),
                                                     np.array(M, dtype=np.int32), thr)
            exp = reference(c1, c2, M, thr)
            if tuple(int(x) for x in got) != exp:
                return True, f"compiled _seed_extend_generic(code1={c1}, code2={c2}, matrix={M}, threshold={thr}) = {tuple(got)}, specification gives {exp}"
        details.append(f"compiled _seed_extend_generic (in sync): {len(inputs)} inputs agree (the cdef uint8 variant is not callable)")
    else:
        details.append(f"compiled module stale (lines {bad[:5]})")
    target = LU + ("::_seed_extend_uint8" if uint8 else "::_seed_extend_generic")
    batch = []
    for c1, c2, M, thr in inputs:
        a = [{"array": c1, "ctype": "uint8"}, {"array": c2, "ctype": "uint8"},
             {"array": M, "ctype": "int32", "ndim": 2}, {"cv": thr, "ctype": "int32"}]
        if uint8:
            a.append({"cell": 0, "ctype": "int32"})
        batch.append({"args": a})
    outs = engine_batch(target, batch)
    for (c1, c2, M, thr), o in zip(inputs, outs):
        if o.get("outcome") in ("unsupported", "engine-error"):
            details.append(f"extracted text not executable: {o.get('error')}")
            return False, "; ".join(details)
        exp = reference(c1, c2, M, thr)
        if uint8:
            got = (o.get("args_after", [None] * 5)[4], o.get("value"))
        else:
            v = o.get("value") or [None, None]
            got = (v[0], v[1])
        if o.get("outcome") != "return" or got != exp or o.get("failed_safety_obligations"):
            return True, f"extracted {target.split('::')[1]}(code1={c1}, code2={c2}, matrix={M}, threshold={thr}) -> {o.get('outcome')} {got} {o.get('failed_safety_obligations')}, specification gives {exp}"
    details.append(f"extracted text: {len(inputs)} inputs agree with the specification")
    return False, "; ".join(details)


def main():
    rec = json.load(open(sys.argv[1]))
    try:
        rep, detail = search(rec["case"])
    except Exception:
        rep, detail = None, "replayer error: " + traceback.format_exc()[-700:]
    finish(rep, detail)


if __name__ == "__main__":
    main()
