#!/venv/bin/python
"""guided concrete search for C09 seed-extension obligations: the solver's
model of a failed loop obligation is an intermediate state, so small inputs
are searched for one that contradicts the X-drop specification"""
import json
import random
import sys
import traceback
sys.path.insert(0, "/verif")
from replayers.common import compiled_in_sync, engine_batch, finish

LU = "sequence/align/localungapped.pyx"


def reference(c1, c2, M, thr):
    """specification: last maximal prefix before the first X-drop"""
    n = min(len(c1), len(c2))
    P = [0]
    for k in range(n):
        P.append(P[-1] + M[c1[k]][c2[k]])
    best, length = 0, 0
    for k in range(1, n + 1):
        if P[k] >= best:
            best, length = P[k], k
        elif best - P[k] > thr:
            break
    return best, length


def gen(rng, n):
    for _ in range(n):
        asz = rng.randint(1, 3)
        n1, n2 = rng.randint(0, 5), rng.randint(0, 5)
        yield ([rng.randrange(asz) for _ in range(n1)], [rng.randrange(asz) for _ in range(n2)],
               [[rng.randint(-3, 3) for _ in range(asz)] for _ in range(asz)], rng.randint(0, 3))


def search(case, seed=0, budget=80):
    rng = random.Random(seed)
    inputs = list(gen(rng, budget))
    uint8 = "_seed_extend_uint8" in case
    details = []
    sync, checked, bad = compiled_in_sync(LU)
    if sync:
        import numpy as np
        from biotite.sequence.align import localungapped
        for c1, c2, M, thr in inputs:
            got = localungapped._seed_extend_generic(np.array(c1, dtype=np.uint8), np.array(c2, dtype=np.uint8),
                                                     np.array(M, dtype=np.int32), thr)
            exp = reference(c1, c2, M, thr)
            if tuple(int(x) for x in got) != exp:
                return True, f"compiled _seed_extend_generic(code1={c1}, code2={c2}, matrix={M}, threshold={thr}) = {tuple(got)}, specification gives {exp}"
        details.append(f"compiled _seed_extend_generic (in sync): {len(inputs)} inputs agree (the cdef uint8 variant is not callable)")
    else:
        details.append(f"compiled module stale (lines {bad[:5]})")
    target = LU + ("::_seed_extend_uint8" if uint8 else "::_seed_extend_generic")
    batch = []
    for c1, c2, M, thr in inputs:
        a = [{"array": c1, "ctype": "uint8"}, {"array": c2, "ctype": "uint8"},
             {"array": M, "ctype": "int32", "ndim": 2}, {"cv": thr, "ctype": "int32"}]
        if uint8:
            a.append({"cell": 0, "ctype": "int32"})
        batch.append({"args": a})
    outs = engine_batch(target, batch)
    for (c1, c2, M, thr), o in zip(inputs, outs):
        if o.get("outcome") in ("unsupported", "engine-error"):
            details.append(f"extracted text not executable: {o.get('error')}")
            return False, "; ".join(details)
        exp = reference(c1, c2, M, thr)
        if uint8:
            got = (o.get("args_after", [None] * 5)[4], o.get("value"))
        else:
            v = o.get("value") or [None, None]
            got = (v[0], v[1])
        if o.get("outcome") != "return" or got != exp or o.get("failed_safety_obligations"):
            return True, f"extracted {target.split('::')[1]}(code1={c1}, code2={c2}, matrix={M}, threshold={thr}) -> {o.get('outcome')} {got} {o.get('failed_safety_obligations')}, specification gives {exp}"
    details.append(f"extracted text: {len(inputs)} inputs agree with the specification")
    return False, "; ".join(details)


BD = "sequence/align/banded.pyx"
NEG = -(2 ** 30)


def band_oracle(c1, c2, M, lo, up, gap, local, S0, T0, S, T):
    """Bellman postcondition of the straightened band table"""
    n1, n2, w = len(c1), len(c2), up - lo + 1
    for r in range(n1 + 1):
        for c in range(w + 2):
            sj = c - 1 + (r - 1) + lo
            inside = r >= 1 and 1 <= c <= w and 0 <= sj < n2
            if not inside:
                if S[r][c] != S0[r][c] or T[r][c] != T0[r][c]:
                    return f"cell ({r},{c}) outside the band modified"
                continue
            d = S[r - 1][c] + M[c1[r - 1]][c2[sj]]
            left, top = S[r][c - 1] + gap, S[r - 1][c + 1] + gap
            m = max(d, left, top)
            if local and m <= 0:
                exp = (0, T0[r][c])
            else:
                exp = (m, (1 if d == m else 0) + (2 if left == m else 0) + (4 if top == m else 0))
            if (S[r][c], T[r][c]) != exp:
                return f"cell ({r},{c}) [seq positions {r - 1},{sj}]: (score, trace) = {(S[r][c], T[r][c])}, the band recurrence gives {exp}"
    return None


def search_band(seed=0, budget=80):
    rng = random.Random(seed)
    inputs = []
    for _ in range(budget):
        n1 = rng.randint(1, 3)
        n2 = rng.randint(n1, 4)
        asz = rng.randint(1, 3)
        c1 = [rng.randrange(asz) for _ in range(n1)]
        c2 = [rng.randrange(asz) for _ in range(n2)]
        M = [[rng.randint(-3, 3) for _ in range(asz)] for _ in range(asz)]
        lo = rng.randint(-n1 + 1, n2 - 1)
        up = rng.randint(lo, n2 - 1)
        gap = rng.randint(-3, 0)
        local = rng.random() < 0.4
        w = up - lo + 1
        S0 = [[NEG] + [0] * w + [NEG] for _ in range(n1 + 1)]
        T0 = [[0] * (w + 2) for _ in range(n1 + 1)]
        inputs.append((c1, c2, M, lo, up, gap, local, S0, T0))
    details = []
    sync, checked, bad = compiled_in_sync(BD)
    if sync:
        import numpy as np
        from biotite.sequence.align import banded
        for c1, c2, M, lo, up, gap, local, S0, T0 in inputs:
            S = np.array(S0, dtype=np.int32)
            T = np.array(T0, dtype=np.uint8)
            banded._fill_align_table(np.array(c1, dtype=np.uint8), np.array(c2, dtype=np.uint8), np.array(M, dtype=np.int32), T, S, lo, up, gap, local)
            f = band_oracle(c1, c2, M, lo, up, gap, local, S0, T0, S.tolist(), T.tolist())
            if f:
                return True, f"compiled banded._fill_align_table on code1={c1} code2={c2} matrix={M} band=({lo},{up}) gap={gap} local={local}: {f}"
        details.append(f"compiled module (in sync): {len(inputs)} small inputs agree with the band recurrence")
    else:
        details.append(f"compiled module is stale w.r.t. banded.pyx (lines {bad[:5]})")
    batch = [{"args": [{"array": c1, "ctype": "uint8"}, {"array": c2, "ctype": "uint8"}, {"array": M, "ctype": "int32", "ndim": 2},
                       {"array": T0, "ctype": "uint8", "ndim": 2}, {"array": S0, "ctype": "int32", "ndim": 2},
                       {"cv": lo, "ctype": "int"}, {"cv": up, "ctype": "int"}, {"cv": gap, "ctype": "int"}, {"cv": int(local), "ctype": "bint"}]}
             for c1, c2, M, lo, up, gap, local, S0, T0 in inputs]
    outs = engine_batch(BD + "::_fill_align_table", batch)
    for (c1, c2, M, lo, up, gap, local, S0, T0), o in zip(inputs, outs):
        if o.get("outcome") in ("unsupported", "engine-error"):
            details.append(f"extracted text not executable: {o.get('error')}")
            break
        if o.get("failed_safety_obligations") or o.get("outcome") == "undefined-behaviour":
            return True, f"extracted banded._fill_align_table on code1={c1} code2={c2} band=({lo},{up}): out-of-bounds access {o.get('failed_safety_obligations', [])[:2]}"
        after = o.get("args_after") or []
        if o.get("outcome") != "return" or len(after) < 5:
            return True, f"extracted banded._fill_align_table on code1={c1} code2={c2} band=({lo},{up}): outcome {o.get('outcome')} {o.get('exception', '')}"
        f = band_oracle(c1, c2, M, lo, up, gap, local, S0, T0, after[4], after[3])
        if f:
            return True, f"extracted banded._fill_align_table on code1={c1} code2={c2} matrix={M} band=({lo},{up}) gap={gap} local={local}: {f}"
    else:
        details.append(f"extracted text: {len(inputs)} small inputs agree with the band recurrence")
    return False, "; ".join(details)


def main():
    rec = json.load(open(sys.argv[1]))
    try:
        if "banded.pyx" in rec["case"]:
            rep, detail = search_band()
        else:
            rep, detail = search(rec["case"])
    except Exception:
        rep, detail = None, "replayer error: " + traceback.format_exc()[-700:]
    finish(rep, detail)


if __name__ == "__main__":
    main()
