#!/venv/bin/python
"""guided concrete search for the C05 integer-packing obligations: small and
boundary-valued arrays through the compiled encoder/decoder (if in sync with
the .pyx) and through the extracted source text; oracle: chunk specification
and decode(encode(x)) == x"""
import json
import random
import sys
import traceback
sys.path.insert(0, "/verif")
from replayers.common import compiled_in_sync, engine_batch, finish

ENC = "structure/io/pdbx/encoding.pyx"
LIMITS = {"int8": (-128, 127), "uint8": (0, 255), "int16": (-32768, 32767), "uint16": (0, 65535)}


def ref_pack(data, mn, mx):
    out = []
    for x in data:
        if x < 0:
            if mn == 0:
                return None
            while x <= mn:
                x -= mn
                out.append(mn)
        elif x > 0:
            while x >= mx:
                x -= mx
                out.append(mx)
        out.append(x)
    return out


def ref_unpack(packed, mn, mx):
    mn = mn if mn != 0 else -1
    out, acc = [], 0
    for p in packed:
        acc += p
        if p != mx and p != mn:
            out.append(acc)
            acc = 0
    return out


def gen(rng, packed, n):
    mn, mx = LIMITS[packed]
    pool = [0, 1, -1, mx - 1, mx, mx + 1, 2 * mx, 2 * mx + 1, 3 * mx - 1, mn + 1, mn, mn - 1, 2 * mn, 2 * mn - 1, 5, -7]
    if mn == 0:
        pool = [p for p in pool if p >= 0]
    for _ in range(n):
        yield [rng.choice(pool) for _ in range(rng.randint(0, 5))]


def rle_ref(d):
    out = []
    for x in d:
        if out and out[-2] == x:
            out[-1] += 1
        else:
            out += [x, 1]
    return out


def rle_search(case):
    """guided search for the RunLengthEncoding contracts: compiled encode/decode and the extracted text"""
    from replayers.common import run_search
    rng = random.Random(0)
    datas = []
    for _ in range(60):
        n = rng.randint(1, 8)
        pool = [rng.randint(-3, 3) for _ in range(rng.randint(1, 3))]
        datas.append([rng.choice(pool) for _ in range(n)])
    datas += [[5], [5, 5, 5, 5], [1, 2, 3, 4], [0, 0, 1, 1, 0, 0], [2 ** 31 - 1, -2 ** 31, -2 ** 31]]
    if "_encode" in case:
        unsigned = "uint8" in case
        ins = [[abs(x) % 256 for x in d] for d in datas] if unsigned else datas
        ct = "uint8" if unsigned else "int32"

        def compiled(d):
            import numpy as np
            from biotite.structure.io.pdbx.encoding import RunLengthEncoding
            return {"value": RunLengthEncoding().encode(np.array(d, dtype=ct)).tolist()}

        def oracle(d, out):
            if out.get("outcome") != "return":
                return f"raised {out.get('exception')}"
            return None if out["value"] == rle_ref(d) else f"encoded as {out['value']}, the run-length pairs are {rle_ref(d)}"
        return run_search(ENC, ENC + "::RunLengthEncoding._encode", ins,
                          lambda d: [{"obj": "RunLengthEncoding", "attrs": {}}, {"array": d, "ctype": ct}], oracle,
                          compiled_call=compiled, label="RunLengthEncoding._encode")
    with_size = "src_size given" in case
    ins = [rle_ref(d) for d in datas]

    def compiled(p):
        import numpy as np
        from biotite.structure.io.pdbx.encoding import RunLengthEncoding
        e = RunLengthEncoding(src_size=sum(p[1::2]) if with_size else None, src_type=np.int32)
        return {"value": e.decode(np.array(p, dtype=np.int32)).tolist()}

    def oracle(p, out):
        if out.get("outcome") != "return":
            return f"raised {out.get('exception')}"
        exp = [v for v, r in zip(p[0::2], p[1::2]) for _ in range(r)]
        return None if out["value"] == exp else f"decoded as {out['value']}, the expanded runs are {exp}"
    return run_search(ENC, ENC + "::RunLengthEncoding._decode", ins,
                      lambda p: [{"obj": "RunLengthEncoding", "attrs": {"src_size": sum(p[1::2]) if with_size else None}},
                                 {"array": p, "ctype": "int32"}, {"array": [], "ctype": "int32"}], oracle,
                      compiled_call=compiled, label="RunLengthEncoding._decode")


def smallest_search(case):
    """guided search for _to_smallest_integer_type (plain Python): arrays of length 1..3 over the boundary
    values of every integer width, in the input dtype of the case, through the real function"""
    import itertools
    import os
    import numpy as np
    from replayers.common import REPO_SRC
    # the function as it stands in the tree the VCs came from (executed on the real NumPy; it uses nothing else)
    import ast
    path = os.path.join(REPO_SRC, "structure/io/pdbx/compress.py")
    fn = [x for x in ast.parse(open(path).read()).body if isinstance(x, ast.FunctionDef) and x.name == "_to_smallest_integer_type"]
    ns = {"np": np}
    exec(compile(ast.Module(fn, []), path, "exec"), ns)
    _to_smallest_integer_type = ns["_to_smallest_integer_type"]
    src = case.split("input=")[1].rstrip("]")
    info = np.iinfo(src)
    pool = sorted({v for b in (7, 8, 15, 16, 31, 32, 63, 64) for v in (2 ** b - 1, 2 ** b, 2 ** b + 1, -2 ** b - 1, -2 ** b, -2 ** b + 1)} | {0, 1, -1})
    pool = [v for v in pool if info.min <= v <= info.max]
    tried = 0
    for n in (1, 2, 3):
        for combo in itertools.product(pool, repeat=n):
            if n == 3 and (combo[0] > combo[1] or tried > 60000):
                continue
            tried += 1
            arr = np.array(combo, dtype=src)
            try:
                out = _to_smallest_integer_type(arr.copy())
            except Exception as e:
                return True, f"_to_smallest_integer_type(np.array({list(combo)}, dtype={src})) raised {type(e).__name__}: {e}"
            if not np.issubdtype(out.dtype, np.integer) or out.shape != arr.shape or [int(x) for x in out] != [int(x) for x in arr]:
                return True, (f"_to_smallest_integer_type(np.array({list(combo)}, dtype={src})) = {out.tolist()} ({out.dtype}): "
                              f"the values are not kept")
    return False, f"{tried} boundary-valued arrays of dtype {src} all kept their values"


def safe_cast_search(case):
    """guided search for _safe_cast: boundary-valued arrays of the case's source dtype cast to its target dtype,
    through the compiled function (if in sync with the .pyx) and through the extracted text"""
    import itertools
    import numpy as np
    from replayers.common import run_search
    src, dst = case.split("[")[1].rstrip("]").split("->")
    si, di = np.iinfo(src), np.iinfo(dst)
    pool = sorted({v for b in (7, 8, 15, 16, 31, 32, 63, 64) for v in (2 ** b - 1, 2 ** b, -2 ** b - 1, -2 ** b)} | {0, 1, -1})
    pool = [v for v in pool if si.min <= v <= si.max]
    ins = [[]] + [list(c) for n in (1, 2) for c in itertools.product(pool, repeat=n)]

    def compiled(d):
        from biotite.structure.io.pdbx.encoding import _safe_cast
        try:
            out = _safe_cast(np.array(d, dtype=src), np.dtype(dst))
        except ValueError:
            return {"outcome": "raise", "exception": "ValueError"}
        return {"outcome": "return", "value": [int(x) for x in out], "dtype": str(out.dtype)}

    def oracle(d, out):
        fits = all(di.min <= x <= di.max for x in d)
        if out.get("outcome") == "raise":
            return None if not fits and out.get("exception") == "ValueError" else f"raised {out.get('exception')} although every value fits {dst}"
        if out.get("outcome") != "return":
            return None          # engine could not run it: no verdict
        if not fits:
            return f"returned {out['value']} although a value does not fit {dst} (ValueError expected)"
        return None if out["value"] == d else f"cast to {out['value']}"
    return run_search(ENC, ENC + "::_safe_cast", ins, lambda d: [{"array": d, "ctype": src, "memview": False}, {"dtype": dst}], oracle,
                      compiled_call=compiled, label="_safe_cast")


def main():
    rec = json.load(open(sys.argv[1]))
    try:
        case = rec["case"]
        if "_safe_cast" in case:
            rep, detail = safe_cast_search(case)
            finish(rep, detail)
            return
        if "_to_smallest_integer_type" in case:
            rep, detail = smallest_search(case)
            finish(rep, detail)
            return
        if "RunLengthEncoding" in case:
            rep, detail = rle_search(case)
            finish(rep, detail)
            return
        packed = case.split("packed=")[1].rstrip("]")
        mn, mx = LIMITS[packed]
        rng = random.Random(0)
        datas = list(gen(rng, packed, 60))
        decode = ".decode" in case
        details = []
        sync, checked, bad = compiled_in_sync(ENC)
        if sync:
            import numpy as np
            from biotite.structure.io.pdbx.encoding import IntegerPackingEncoding
            for d in datas:
                e = IntegerPackingEncoding(byte_count=1 if packed.endswith("8") else 2, is_unsigned=packed.startswith("u"))
                arr = np.array(d, dtype=np.int32)
                if len(d) == 0:
                    continue
                enc = e.encode(arr)
                exp = ref_pack(d, mn, mx)
                if enc.tolist() != exp:
                    finish(True, f"compiled IntegerPackingEncoding({packed}).encode({d}) = {enc.tolist()}, specification gives {exp}")
                    return
                back = e.decode(enc)
                if back.tolist() != d:
                    finish(True, f"compiled IntegerPackingEncoding({packed}): decode(encode({d})) = {back.tolist()}")
                    return
            details.append(f"compiled module (in sync): {len(datas)} boundary-valued arrays round-trip")
        else:
            details.append(f"compiled module stale (lines {bad[:5]})")
        if decode:
            batch, exps = [], []
            for d in datas:
                p = ref_pack(d, mn, mx)
                batch.append({"args": [{"obj": "IntegerPackingEncoding", "attrs": {"src_size": len(d)}},
                                       {"array": p, "ctype": packed}]})
                exps.append(d)
            target = ENC + "::IntegerPackingEncoding.decode"
        else:
            batch = [{"args": [{"obj": "IntegerPackingEncoding", "attrs": {}}, {"array": d, "ctype": "int32"},
                               {"array": [], "ctype": packed}]} for d in datas]
            exps = [ref_pack(d, mn, mx) for d in datas]
            target = ENC + "::IntegerPackingEncoding._encode"
        outs = engine_batch(target, batch)
        for d, exp, o in zip(datas, exps, outs):
            if o.get("outcome") in ("unsupported", "engine-error"):
                details.append(f"extracted text not executable: {o.get('error')}")
                finish(False, "; ".join(details))
                return
            if o.get("outcome") != "return" or o.get("value") != exp:
                finish(True, f"extracted {target.split('::')[1]} on {d}: {o.get('outcome')} {o.get('value')} {o.get('exception', '')}, specification gives {exp}")
                return
        details.append(f"extracted text: {len(datas)} arrays agree with the specification")
        finish(False, "; ".join(details))
    except Exception:
        finish(None, "replayer error: " + traceback.format_exc()[-700:])


if __name__ == "__main__":
    main()
