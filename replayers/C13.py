#!/venv/bin/python
"""replay of C13 counter-models on the real biotite code (run by
/venv/bin/python).  Prints one JSON line {"reproduced": bool, "detail": str}."""
import json
import sys
import traceback

import numpy as np
from biotite.sequence import (Annotation, AnnotatedSequence, Feature, Location,
                              NucleotideSequence)

DEFECT_BITS = [Location.Defect.MISS_LEFT, Location.Defect.MISS_RIGHT,
               Location.Defect.BEYOND_LEFT, Location.Defect.BEYOND_RIGHT,
               Location.Defect.UNK_LOC, Location.Defect.BETWEEN]


def defect_of(v):
    d = Location.Defect.NONE
    for b in DEFECT_BITS:
        if v & b.value:
            d |= b
    return d


def strand_of(v):
    return Location.Strand.REVERSE if v == Location.Strand.REVERSE.value else Location.Strand.FORWARD


def locs_from_model(m):
    """every group of symbols *_first/_last/_strand/_defect is one location"""
    groups = {}
    for k, v in m.items():
        if k.startswith(("g!", "sk!")):
            continue
        for suf in ("_first", "_last", "_strand", "_defect"):
            if k.endswith(suf) and isinstance(v, int):
                groups.setdefault(k[: -len(suf)], {})[suf] = v
    locs = []
    for g, d in sorted(groups.items()):
        if "_first" in d and "_last" in d and d["_first"] <= d["_last"]:
            locs.append(Location(d["_first"], d["_last"], strand_of(d.get("_strand", 1)),
                                 defect_of(d.get("_defect", 0))))
    return locs


def cover(locs):
    s = set()
    for l in locs:
        s.update(range(l.first, l.last + 1))
    return s


def model_slice(locs, start, stop):
    """per-base reference model: list of (first, last, strand, defect) or None"""
    out = []
    for l in locs:
        lo = l.first if start is None else max(l.first, start)
        hi = l.last if stop is None else min(l.last, stop - 1)
        if lo > hi:
            continue
        d = l.defect
        if lo > l.first:
            d |= Location.Defect.MISS_LEFT
        if hi < l.last:
            d |= Location.Defect.MISS_RIGHT
        out.append(Location(lo, hi, l.strand, d))
    return out


def replay_annot_getitem(m):
    locs = locs_from_model(m)
    if not locs:
        locs = [Location(1, 10)]
    start, stop = m.get("start"), m.get("stop")
    feat = Feature("gene", locs, {"note": "x"})
    annot = Annotation([feat])
    try:
        sub = annot[slice(start, stop)]
    except Exception as e:
        return True, f"annotation[{start}:{stop}] with locations {locs} raised {type(e).__name__}: {e}"
    expected = model_slice(locs, start, stop)
    got = [l for f in sub for l in f.locs]
    if set(expected) != set(got):
        return True, f"annotation[{start}:{stop}] with {locs}: expected {expected}, got {got}"
    if (len(expected) == 0) != (len(sub) == 0):
        return True, "feature presence differs from the per-base model"
    return False, f"annotation[{start}:{stop}] with {locs} agrees with the per-base model"


def seq_from_model(m, n_default=12):
    n = m.get("seq_len", n_default)
    if not isinstance(n, int) or n < 0 or n > 200:
        n = n_default
    rng = np.random.default_rng(0)
    return NucleotideSequence("".join(rng.choice(list("ACGT"), n)))


def main():
    rec = json.load(open(sys.argv[1]))
    m = rec.get("model", {})
    case = rec["case"]
    try:
        if "Annotation.__getitem__" in case:
            rep, detail = replay_annot_getitem(m)
        else:
            from replayers import C13_more
            rep, detail = C13_more.replay(case, rec, m)
    except Exception as e:
        rep, detail = None, "replayer error: " + traceback.format_exc()[-600:]
    print(json.dumps({"reproduced": rep, "detail": detail}))


if __name__ == "__main__":
    sys.path.insert(0, "/verif")
    main()
