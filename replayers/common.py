"""helpers shared by the replayers (run under /venv/bin/python)"""
import json
import os
import re
import subprocess
import sys

REPO_SRC = os.environ.get("VERIF_SRC") or "/repo/src/biotite"


def compiled_in_sync(rel_pyx):
    """compare the .pyx lines embedded as comments in the shipped Cython .c file
    with the current .pyx text.  Returns (in_sync, checked, mismatching_lines)."""
    pyx = os.path.join(REPO_SRC, rel_pyx)
    # the compiled module always is /repo's; the text may come from a scratch copy
    cfile = os.path.join("/repo/src/biotite", rel_pyx)[:-4] + ".c"
    if not os.path.exists(cfile):
        cfile = cfile[:-2] + ".cpp"
    if not os.path.exists(cfile):
        return None, 0, []
    src = open(pyx, encoding="utf-8").read().split("\n")
    txt = open(cfile, encoding="utf-8", errors="replace").read()
    base = os.path.basename(pyx)
    bad, checked = set(), 0
    for m in re.finditer(r'/\* "[^"]*' + re.escape(base) + r'":(\d+)\n((?: \*.*\n)+?)\s*\*/', txt):
        n = int(m.group(1))
        for line in m.group(2).split("\n"):
            if "# <<<<<<<<<<<<<<" in line:
                emb = line[3:].split("# <<<<<<<<<<<<<<")[0].rstrip()
                cur = src[n - 1].rstrip() if n - 1 < len(src) else None
                checked += 1
                if cur is None or cur.split("#")[0].rstrip() != emb.split("#")[0].rstrip():
                    bad.add(n)
    return (len(bad) == 0), checked, sorted(bad)


def engine_concrete(target, args, kwargs=None):
    """run pyvc's interpreter in concrete mode on the function extracted from the
    current source (used when the compiled module is stale)"""
    payload = json.dumps({"target": target, "args": args, "kwargs": kwargs or {}})
    p = subprocess.run(["python3-vt", "-m", "pyvc.concrete"], input=payload, capture_output=True,
                       text=True, cwd="/verif", timeout=120)
    lines = [l for l in p.stdout.strip().split("\n") if l.startswith("{")]
    if not lines:
        return {"error": (p.stdout + p.stderr)[-400:]}
    return json.loads(lines[-1])


def in_subprocess(code, timeout=120):
    """run python code in a child /venv/bin/python; exit status is part of the oracle"""
    p = subprocess.run([sys.executable, "-c", code], capture_output=True, text=True, timeout=timeout)
    return p.returncode, p.stdout, p.stderr


def engine_batch(target, batch, timeout=600):
    """run many concrete calls of one extracted function in a single engine process"""
    payload = json.dumps({"target": target, "batch": batch})
    p = subprocess.run(["python3-vt", "-m", "pyvc.concrete"], input=payload, capture_output=True,
                       text=True, cwd="/verif", timeout=timeout)
    lines = [l for l in p.stdout.strip().split("\n") if l.startswith("{")]
    if not lines:
        return [{"outcome": "engine-error", "error": (p.stdout + p.stderr)[-400:]}] * len(batch)
    return json.loads(lines[-1])["batch"]


def finish(rep, detail):
    print(json.dumps({"reproduced": rep, "detail": detail}))


def run_search(rel_pyx, target, inputs, to_engine_args, oracle, compiled_call=None, label=None):
    """guided concrete search: run `inputs` through the compiled function (if the
    module still matches the .pyx text and `compiled_call` is given) and through
    the text extracted from the current source; `oracle(input, outcome)` returns a
    failure description or None.  outcome = {"outcome": "return"|"raise", "value",
    "exception", "args_after", "failed_safety_obligations"}"""
    label = label or target.split("::")[1]
    details = []
    if compiled_call is not None:
        sync, checked, bad = compiled_in_sync(rel_pyx)
        if sync:
            for inp in inputs:
                try:
                    out = {"outcome": "return", **compiled_call(inp)}
                except Exception as e:
                    out = {"outcome": "raise", "exception": type(e).__name__}
                f = oracle(inp, out)
                if f:
                    return True, f"compiled {label} on {inp}: {f}"
            details.append(f"compiled {label} (in sync with the .pyx): {len(inputs)} inputs agree with the contract")
        else:
            details.append(f"compiled module is stale w.r.t. {rel_pyx} (lines {bad[:5]}): verdict concerns the source text")
    outs = engine_batch(target, [{"args": to_engine_args(inp)} for inp in inputs])
    for inp, o in zip(inputs, outs):
        if o.get("outcome") in ("unsupported", "engine-error"):
            details.append(f"extracted text not executable concretely: {o.get('error')}")
            return False, "; ".join(details)
        if o.get("failed_safety_obligations") or o.get("outcome") == "undefined-behaviour":
            return True, f"extracted {label} on {inp}: undefined behaviour {o.get('failed_safety_obligations')}"
        f = oracle(inp, o)
        if f:
            return True, f"extracted {label} on {inp}: {f}"
    details.append(f"extracted {label}: {len(inputs)} inputs agree with the contract")
    return False, "; ".join(details)
