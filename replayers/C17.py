#!/venv/bin/python
"""replay for C17: recursion depth of _find_connected on a path graph (child
process: exit status is part of the oracle); DFS obligations by guided search"""
import json
import random
import sys
import traceback
sys.path.insert(0, "/verif")
from replayers.common import compiled_in_sync, in_subprocess, run_search, finish

BONDS = "structure/bonds.pyx"


def replay_depth():
    sync, checked, bad = compiled_in_sync(BONDS)
    if not sync:
        return None, f"compiled bonds module is stale (lines {bad[:5]}); the depth obligation concerns the source text"
    last_ok = None
    for n in (20000, 100000, 400000):
        code = (
            "import numpy as np\n"
            "import biotite.structure as struc\n"
            f"n = {n}\n"
            "bonds = struc.BondList(n, np.stack([np.arange(n-1), np.arange(1, n)], axis=-1))\n"
            "mols = struc.get_molecule_indices(bonds)\n"
            "assert len(mols) == 1 and len(mols[0]) == n\n"
            "print('ok')\n")
        rc, so, se = in_subprocess(code, timeout=600)
        if rc != 0:
            return True, (f"get_molecule_indices on a bonded chain of {n} atoms ended the interpreter with status {rc} "
                          f"(largest size that still worked: {last_ok}); recursion depth grows with the component size")
        last_ok = n
    return False, f"chains up to {last_ok} atoms were processed"


def gen_graph(rng, n_cases):
    for _ in range(n_cases):
        n = rng.randint(1, 6)
        w = rng.randint(0, 3)
        nb = [[-1] * w for _ in range(n)]
        for a in range(n):
            for j in range(w):
                if rng.random() < 0.5:
                    nb[a][j] = rng.randrange(n)
        mask = [1 if rng.random() < 0.2 else 0 for _ in range(n)]
        root = rng.randrange(n)
        yield (nb, mask, root)


def oracle_dfs(inp, out):
    nb, mask0, root = inp
    if out["outcome"] != "return":
        return f"raised {out.get('exception')}"
    mask1 = (out.get("args_after") or [None] * 4)[2]
    if mask1 is None:
        return "no mask returned"
    n = len(nb)
    for a in range(n):
        if mask0[a] and not mask1[a]:
            return f"atom {a} was visited before and is unvisited afterwards"
    if not mask1[root]:
        return "root not visited"
    for a in range(n):
        if mask1[a] and not mask0[a]:
            for x in nb[a]:
                if x != -1 and not mask1[x]:
                    return f"atom {a} was newly visited but its neighbour {x} was not"
    return None


def segments_search(case):
    """guided search for get_segment_starts_for / get_segment_positions (plain Python over NumPy): every strictly
    ascending `starts` over arrays of 0..4 atoms and every index array of length 0..2 with values in [-2, n + 2],
    through the function text of the tree the VCs came from, against the per-atom recomputation"""
    import ast
    import itertools
    import os
    import numpy as np
    from replayers.common import REPO_SRC
    name = "get_segment_masks" if "get_segment_masks" in case else "get_segment_starts_for" if "starts_for" in case else "get_segment_positions"
    path = os.path.join(REPO_SRC, "structure/segments.py")
    fn = [x for x in ast.parse(open(path).read()).body if isinstance(x, ast.FunctionDef) and x.name == name]
    ns = {"np": np}
    exec(compile(ast.Module(fn, []), path, "exec"), ns)
    f = ns[name]
    tried = 0
    all_starts = [(0, [0])] + [(n, [0] + list(inner) + [n]) for n in range(1, 5) for r in range(0, n) for inner in itertools.combinations(range(1, n), r)]
    for n, starts in all_starts:
        for m in (0, 1, 2):
            for idx in itertools.product(range(-2, n + 3), repeat=m):
                tried += 1
                bad = any(i < 0 or i >= n for i in idx)
                call = f"{name}(np.array({starts}), np.array({list(idx)}, dtype=int))"
                try:
                    got = np.asarray(f(np.array(starts, dtype=np.int64), np.array(idx, dtype=np.int64))).tolist()
                except ValueError as e:
                    if bad:
                        continue
                    return True, f"{call} raised ValueError: {e} although every index names an atom"
                except Exception as e:
                    return True, f"{call} raised {type(e).__name__}: {e}"
                if bad:
                    return True, f"{call} = {got} although an index names no atom of the {n}-atom array (ValueError expected)"
                pos = [max(p for p in range(len(starts) - 1) if starts[p] <= i) for i in idx]
                want = pos if name == "get_segment_positions" else [starts[p] for p in pos]
                if name == "get_segment_masks":
                    want = [[starts[p] <= c < starts[p + 1] for c in range(n)] for p in pos]
                if got != want:
                    return True, f"{call} = {got}, per-atom recomputation gives {want}"
    return False, f"{tried} (starts, indices) pairs over arrays of 0..4 atoms all agree with the per-atom recomputation"


def starts_search(case):
    """guided search for get_residue_starts / get_chain_starts: every array of 0..4 atoms over a pool of annotation
    rows, through the function text of the tree the VCs came from (on a real AtomArray), against the per-atom rule"""
    import ast
    import itertools
    import os
    import numpy as np
    import biotite.structure as struc
    from replayers.common import REPO_SRC
    residue = "get_residue_starts" in case
    name = "get_residue_starts" if residue else "get_chain_starts"
    stop = "add_exclusive_stop=True" in case
    path = os.path.join(REPO_SRC, "structure/residues.py" if residue else "structure/chains.py")
    fn = [x for x in ast.parse(open(path).read()).body if isinstance(x, ast.FunctionDef) and x.name == name]
    ns = {"np": np}
    exec(compile(ast.Module(fn, []), path, "exec"), ns)
    f = ns[name]
    pool = [("A", 1, "", "GLY"), ("A", 2, "", "GLY"), ("B", 1, "", "GLY"), ("A", 1, "A", "GLY"), ("A", 1, "", "ALA"), ("A", 0, "", "GLY")]
    tried = 0
    for n in range(0, 5):
        for rows in itertools.product(pool, repeat=n):
            tried += 1
            a = struc.AtomArray(n)
            for i, (c, r, ic, rn) in enumerate(rows):
                a.chain_id[i], a.res_id[i], a.ins_code[i], a.res_name[i] = c, r, ic, rn
            if residue:
                want = [0] + [i for i in range(1, n) if rows[i] != rows[i - 1]]
            else:
                want = [0] + [i for i in range(1, n) if rows[i][0] != rows[i - 1][0] or rows[i][1] < rows[i - 1][1]]
            want = [] if n == 0 else want + ([n] if stop else [])
            call = f"{name}(array with (chain, res_id, ins_code, res_name) rows {list(rows)}, add_exclusive_stop={stop})"
            try:
                raw = np.asarray(f(a, add_exclusive_stop=stop))
                got = raw.tolist()
            except Exception as e:
                return True, f"{call} raised {type(e).__name__}: {e}"
            if not np.issubdtype(raw.dtype, np.integer):
                return True, f"{call} is an array of dtype {raw.dtype}: the starts are indices (integers)"
            if got != want:
                return True, f"{call} = {got}, per-atom rule gives {want}"
    return False, f"{tried} arrays of 0..4 atoms all agree with the per-atom rule"


def main():
    rec = json.load(open(sys.argv[1]))
    try:
        if "get_residue_starts" in rec.get("case", "") or "get_chain_starts[" in rec.get("case", ""):
            rep, detail = starts_search(rec["case"])
        elif "segments.py" in rec.get("case", ""):
            rep, detail = segments_search(rec["case"])
        elif "recursion_depth" in rec["obligation"]:
            rep, detail = replay_depth()
        else:
            rng = random.Random(0)
            inputs = list(gen_graph(rng, 60))
            rep, detail = run_search(
                BONDS, BONDS + "::_find_connected", inputs,
                lambda inp: [None, {"cv": inp[2], "ctype": "int32"}, {"array": inp[1], "ctype": "uint8"},
                             {"array": inp[0], "ctype": "int32", "ndim": 2, "shape": [len(inp[0]), len(inp[0][0]) if inp[0] else 0]}],
                oracle_dfs, None)
    except Exception:
        rep, detail = None, "replayer error: " + traceback.format_exc()[-700:]
    finish(rep, detail)


if __name__ == "__main__":
    main()
