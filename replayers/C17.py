#!/venv/bin/python
"""replay for C17: recursion depth of _find_connected on a path graph (child
process: exit status is part of the oracle); DFS obligations by guided search"""
import json
import random
import sys
import traceback
sys.path.insert(0, "/verif")
from replayers.common import compiled_in_sync, in_subprocess, run_search, finish

BONDS = "structure/bonds.pyx"


def replay_depth():
    sync, checked, bad = compiled_in_sync(BONDS)
    if not sync:
        return None, f"compiled bonds module is stale (lines {bad[:5]}); the depth obligation concerns the source text"
    last_ok = None
    for n in (20000, 100000, 400000):
        code = (
            "import numpy as np\n"
            "import biotite.structure as struc\n"
            f"n = {n}\n"
            "bonds = struc.BondList(n, np.stack([np.arange(n-1), np.arange(1, n)], axis=-1))\n"
            "mols = struc.get_molecule_indices(bonds)\n"
            "assert len(mols) == 1 and len(mols[0]) == n\n"
            "print('ok')\n")
        rc, so, se = in_subprocess(code, timeout=600)
        if rc != 0:
            return True, (f"get_molecule_indices on a bonded chain of {n} atoms ended the interpreter with status {rc} "
                          f"(largest size that still worked: {last_ok}); recursion depth grows with the component size")
        last_ok = n
    return False, f"chains up to {last_ok} atoms were processed"


def gen_graph(rng, n_cases):
    for _ in range(n_cases):
        n = rng.randint(1, 6)
        w = rng.randint(0, 3)
        nb = [[-1] * w for _ in range(n)]
        for a in range(n):
            for j in range(w):
                if rng.random() < 0.5:
                    nb[a][j] = rng.randrange(n)
        mask = [1 if rng.random() < 0.2 else 0 for _ in range(n)]
        root = rng.randrange(n)
        yield (nb, mask, root)


def oracle_dfs(inp, out):
    nb, mask0, root = inp
    if out["outcome"] != "return":
        return f"raised {out.get('exception')}"
    mask1 = (out.get("args_after") or [None] * 4)[2]
    if mask1 is None:
        return "no mask returned"
    n = len(nb)
    for a in range(n):
        if mask0[a] and not mask1[a]:
            return f"atom {a} was visited before and is unvisited afterwards"
    if not mask1[root]:
        return "root not visited"
    for a in range(n):
        if mask1[a] and not mask0[a]:
            for x in nb[a]:
                if x != -1 and not mask1[x]:
                    return f"atom {a} was newly visited but its neighbour {x} was not"
    return None


def main():
    rec = json.load(open(sys.argv[1]))
    try:
        if "recursion_depth" in rec["obligation"]:
            rep, detail = replay_depth()
        else:
            rng = random.Random(0)
            inputs = list(gen_graph(rng, 60))
            rep, detail = run_search(
                BONDS, BONDS + "::_find_connected", inputs,
                lambda inp: [None, {"cv": inp[2], "ctype": "int32"}, {"array": inp[1], "ctype": "uint8"},
                             {"array": inp[0], "ctype": "int32", "ndim": 2, "shape": [len(inp[0]), len(inp[0][0]) if inp[0] else 0]}],
                oracle_dfs, None)
    except Exception:
        rep, detail = None, "replayer error: " + traceback.format_exc()[-700:]
    finish(rep, detail)


if __name__ == "__main__":
    main()
