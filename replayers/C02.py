#!/venv/bin/python
"""replay of C02 counter-models on the compiled BondList (in a child process:
exit status is part of the oracle) and on the extracted source text"""
import json
import sys
import traceback
sys.path.insert(0, "/verif")
from replayers.common import compiled_in_sync, engine_concrete, in_subprocess

BONDS = "structure/bonds.pyx"


def replay_index(m):
    n, idx = int(m.get("n", m.get("array_length", 0))), int(m.get("idx", m.get("index", 0)))
    expect_error = not (-n <= idx < n)
    sync, checked, bad = compiled_in_sync(BONDS)
    details, rep = [], False
    if sync:
        code = (
            "import numpy as np, json\n"
            "from biotite.structure import BondList\n"
            f"n, idx = {n}, {idx}\n"
            "b = BondList(n, np.array([(i, i+1, 1) for i in range(max(0, min(n, 50)-1))], dtype=np.int64).reshape(-1,3)) if n > 1 else BondList(n)\n"
            "before = b.as_array().copy()\n"
            "try:\n"
            "    r = b.get_bonds(idx)\n"
            "    out = 'returned ' + str([x.tolist() for x in r])\n"
            "except IndexError:\n"
            "    out = 'IndexError'\n"
            "print(json.dumps({'out': out}))\n")
        rc, so, se = in_subprocess(code)
        if rc != 0:
            details.append(f"compiled: BondList({n}).get_bonds({idx}) terminated the interpreter with status {rc}")
            rep = True
        else:
            out = json.loads(so.strip().split("\n")[-1])["out"]
            wrong = (out != "IndexError") if expect_error else (out == "IndexError")
            details.append(f"compiled: BondList({n}).get_bonds({idx}) -> {out}; IndexError expected: {expect_error}")
            rep = rep or wrong
    else:
        details.append(f"compiled module stale (lines {bad[:5]})")
    r = engine_concrete(BONDS + "::_to_positive_index", [{"cv": idx, "ctype": "int32"}, {"cv": n, "ctype": "uint32"}])
    if r.get("outcome") == "raise":
        wrong = not expect_error
        details.append(f"extracted source: _to_positive_index({idx},{n}) raised {r.get('exception')}")
    else:
        v = r.get("value")
        wrong = expect_error or not (isinstance(v, int) and 0 <= v < n)
        details.append(f"extracted source: _to_positive_index({idx},{n}) returned {v}")
    rep = rep or wrong
    return rep, "; ".join(details)


# ---- BondList methods: guided concrete search against the reference mapping ------------------

import random


def _lists(rng, count):
    """small well-formed lists: (atom count, canonical rows)"""
    out = []
    for _ in range(count):
        n = rng.randint(1, 6)
        d = {}
        for _ in range(rng.randint(0, 7)):
            i, j = rng.randrange(n), rng.randrange(n)
            d.setdefault((min(i, j), max(i, j)), rng.randrange(10))
        rows = [(i, j, t) for (i, j), t in d.items()]
        rng.shuffle(rows)
        out.append((n, rows))
    return out


def _occ_max(n, rows):
    c = [0] * max(n, 1)
    for i, j, _ in rows:
        c[i] += 1
        c[j] += 1
    return max(c) if rows else 0


def _obj(n, rows, slack=0):
    return {"obj": "BondList", "attrs": {"_atom_count": {"cv": n, "ctype": "uint32"},
                                         "_bonds": {"array": [list(r) for r in rows], "ctype": "uint32", "memview": False,
                                                    "shape": [len(rows), 3], "ndim": 2},
                                         "_max_bonds_per_atom": {"cv": _occ_max(n, rows) + slack, "ctype": "uint32"}}}


def _mapping(rows):
    return {(r[0], r[1]): r[2] for r in rows}


def _state(out, k=0):
    """(atom count, rows, cached maximum) of the list after the call: engine dump or compiled object"""
    a = out["args_after"][k]["attrs"] if "args_after" in out else out["state"]
    return a["_atom_count"], [tuple(r) for r in a["_bonds"]], a["_max_bonds_per_atom"]


def _compiled_state(b):
    return {"_atom_count": b.get_atom_count(), "_bonds": b.as_array().tolist(),
            "_max_bonds_per_atom": int(b._max_bonds_per_atom)}


def replay_method(case, rec):
    import numpy as np
    from biotite.structure import BondList
    meth = case.split("::")[1].split("[")[0].split(".")[1]
    rng = random.Random(7)
    lists = _lists(rng, 60)
    inputs = []
    for n, rows in lists:
        a1, a2, t = rng.randrange(-n, n), rng.randrange(-n, n), rng.randrange(10)
        if rows and rng.random() < 0.5:
            a1, a2 = rows[0][1], rows[0][0] - n
        other = _lists(rng, 1)[0]
        inputs.append({"n": n, "rows": rows, "a1": a1, "a2": a2, "t": t, "other": (n, [r for r in other[1] if r[1] < n] + rows[:1])})

    def mk(inp):
        return BondList(inp["n"], np.array(inp["rows"], dtype=np.int64).reshape(-1, 3)) if inp["rows"] else BondList(inp["n"])

    def norm(i, n):
        return i + n if i < 0 else i

    if meth == "get_bonds":
        to_args = lambda inp: [_obj(inp["n"], inp["rows"]), {"cv": inp["a1"], "ctype": "int32"}]
        call = lambda inp: {"value": [x.tolist() for x in mk(inp).get_bonds(inp["a1"])]}

        def oracle(inp, out):
            if out.get("outcome") != "return":
                return f"raised {out.get('exception')}"
            a = norm(inp["a1"], inp["n"])
            exp = [((j if i == a else i), t) for i, j, t in inp["rows"] if a in (i, j)]
            got = list(zip(out["value"][0], out["value"][1]))
            return None if got == exp else f"get_bonds({inp['a1']}) = {got}, rows incident to the atom give {exp}"
    elif meth == "get_all_bonds":
        to_args = lambda inp: [_obj(inp["n"], inp["rows"])]
        call = lambda inp: {"value": [x.tolist() for x in mk(inp).get_all_bonds()]}

        def oracle(inp, out):
            if out.get("outcome") != "return":
                return f"raised {out.get('exception')}"
            for a in range(inp["n"]):
                exp = sorted(((j if i == a else i), t) for i, j, t in inp["rows"] if a in (i, j))
                got = sorted((x, t) for x, t in zip(out["value"][0][a], out["value"][1][a]) if x != -1)
                if got != exp:
                    return f"get_all_bonds row {a} = {got}, expected {exp}"
            return None
    elif meth == "_get_max_bonds_per_atom":
        to_args = lambda inp: [_obj(inp["n"], inp["rows"])]
        call = lambda inp: {"value": int(mk(inp)._get_max_bonds_per_atom())}

        def oracle(inp, out):
            if out.get("outcome") != "return":
                return f"raised {out.get('exception')}"
            return None if out["value"] == _occ_max(inp["n"], inp["rows"]) else f"_get_max_bonds_per_atom = {out['value']}, occurrences give {_occ_max(inp['n'], inp['rows'])}"
    elif meth == "__contains__":
        to_args = lambda inp: [_obj(inp["n"], inp["rows"]), {"tuple": [norm(inp["a1"], inp["n"]), norm(inp["a2"], inp["n"])]}]
        call = lambda inp: {"value": (norm(inp["a1"], inp["n"]), norm(inp["a2"], inp["n"])) in mk(inp)}

        def oracle(inp, out):
            if out.get("outcome") != "return":
                return f"raised {out.get('exception')}"
            a, b = sorted((norm(inp["a1"], inp["n"]), norm(inp["a2"], inp["n"])))
            exp = (a, b) in _mapping(inp["rows"])
            return None if bool(out["value"]) == exp else f"({a},{b}) in list = {out['value']}, mapping says {exp}"
    elif meth in ("add_bond", "remove_bond", "remove_bonds_to", "remove_bonds"):
        def to_args(inp):
            o = _obj(inp["n"], inp["rows"])
            if meth == "add_bond":
                return [o, {"cv": inp["a1"], "ctype": "int32"}, {"cv": inp["a2"], "ctype": "int32"}, inp["t"]]
            if meth == "remove_bond":
                return [o, {"cv": inp["a1"], "ctype": "int32"}, {"cv": inp["a2"], "ctype": "int32"}]
            if meth == "remove_bonds_to":
                return [o, {"cv": inp["a1"], "ctype": "int32"}]
            return [o, _obj(*inp["other"])]

        def call(inp):
            b = mk(inp)
            if meth == "add_bond":
                b.add_bond(inp["a1"], inp["a2"], inp["t"])
            elif meth == "remove_bond":
                b.remove_bond(inp["a1"], inp["a2"])
            elif meth == "remove_bonds_to":
                b.remove_bonds_to(inp["a1"])
            else:
                o = BondList(inp["other"][0], np.array(inp["other"][1], dtype=np.int64).reshape(-1, 3)) if inp["other"][1] else BondList(inp["other"][0])
                b.remove_bonds(o)
            return {"state": _compiled_state(b)}

        def oracle(inp, out):
            if out.get("outcome") != "return":
                return f"raised {out.get('exception')}"
            n = inp["n"]
            m = _mapping(inp["rows"])
            a, b = sorted((norm(inp["a1"], n), norm(inp["a2"], n)))
            if meth == "add_bond":
                m[(a, b)] = inp["t"]
            elif meth == "remove_bond":
                m.pop((a, b), None)
            elif meth == "remove_bonds_to":
                x = norm(inp["a1"], n)
                m = {k: t for k, t in m.items() if x not in k}
            else:
                rm = {(r[0], r[1]) for r in inp["other"][1]}
                m = {k: t for k, t in m.items() if k not in rm}
            cnt, rows, mx = _state(out)
            got = {(r[0], r[1]): r[2] for r in rows}
            if cnt != n or got != m or len(rows) != len(m):
                return f"{meth} on {inp['rows']} with ({inp['a1']},{inp['a2']},{inp['t']}): list holds {sorted(got.items())}, mapping is {sorted(m.items())}"
            if mx < _occ_max(n, rows):
                return f"{meth}: cached maximum {mx} below the occurrences {_occ_max(n, rows)} of the new list"
            return None
    else:
        return None, "no replay for this obligation"
    from replayers.common import run_search
    return run_search(BONDS, case.split("[")[0], inputs, to_args, oracle, compiled_call=call, label="BondList." + meth)


def main():
    rec = json.load(open(sys.argv[1]))
    m = rec.get("model", {})
    try:
        if "_to_positive_index" in rec["case"]:
            rep, detail = replay_index(m)
        elif "BondList." in rec["case"]:
            rep, detail = replay_method(rec["case"], rec)
        else:
            rep, detail = None, "no replay for this obligation"
    except Exception:
        rep, detail = None, "replayer error: " + traceback.format_exc()[-600:]
    print(json.dumps({"reproduced": rep, "detail": detail}))


if __name__ == "__main__":
    main()
