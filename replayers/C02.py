#!/venv/bin/python
"""replay of C02 counter-models on the compiled BondList (in a child process:
exit status is part of the oracle) and on the extracted source text"""
import json
import sys
import traceback
sys.path.insert(0, "/verif")
from replayers.common import compiled_in_sync, engine_concrete, in_subprocess

BONDS = "structure/bonds.pyx"


def replay_index(m):
    n, idx = int(m.get("n", m.get("array_length", 0))), int(m.get("idx", m.get("index", 0)))
    expect_error = not (-n <= idx < n)
    sync, checked, bad = compiled_in_sync(BONDS)
    details, rep = [], False
    if sync:
        code = (
            "import numpy as np, json\n"
            "from biotite.structure import BondList\n"
            f"n, idx = {n}, {idx}\n"
            "b = BondList(n, np.array([(i, i+1, 1) for i in range(max(0, min(n, 50)-1))], dtype=np.int64).reshape(-1,3)) if n > 1 else BondList(n)\n"
            "before = b.as_array().copy()\n"
            "try:\n"
            "    r = b.get_bonds(idx)\n"
            "    out = 'returned ' + str([x.tolist() for x in r])\n"
            "except IndexError:\n"
            "    out = 'IndexError'\n"
            "print(json.dumps({'out': out}))\n")
        rc, so, se = in_subprocess(code)
        if rc != 0:
            details.append(f"compiled: BondList({n}).get_bonds({idx}) terminated the interpreter with status {rc}")
            rep = True
        else:
            out = json.loads(so.strip().split("\n")[-1])["out"]
            wrong = (out != "IndexError") if expect_error else (out == "IndexError")
            details.append(f"compiled: BondList({n}).get_bonds({idx}) -> {out}; IndexError expected: {expect_error}")
            rep = rep or wrong
    else:
        details.append(f"compiled module stale (lines {bad[:5]})")
    r = engine_concrete(BONDS + "::_to_positive_index", [{"cv": idx, "ctype": "int32"}, {"cv": n, "ctype": "uint32"}])
    if r.get("outcome") == "raise":
        wrong = not expect_error
        details.append(f"extracted source: _to_positive_index({idx},{n}) raised {r.get('exception')}")
    else:
        v = r.get("value")
        wrong = expect_error or not (isinstance(v, int) and 0 <= v < n)
        details.append(f"extracted source: _to_positive_index({idx},{n}) returned {v}")
    rep = rep or wrong
    return rep, "; ".join(details)


def main():
    rec = json.load(open(sys.argv[1]))
    m = rec.get("model", {})
    try:
        if "_to_positive_index" in rec["case"]:
            rep, detail = replay_index(m)
        else:
            rep, detail = None, "no replay for this obligation"
    except Exception:
        rep, detail = None, "replayer error: " + traceback.format_exc()[-600:]
    print(json.dumps({"reproduced": rep, "detail": detail}))


if __name__ == "__main__":
    main()
