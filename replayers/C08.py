#!/venv/bin/python
"""replay / guided concrete search for C08 obligations.

Kernel functions (cdef, not callable from Python): the counter-model is run on
the text extracted from the current .pyx.  _fill_align_table: a failed or
undecided loop obligation has no input as counter-model (the solver's model is
an intermediate loop state), so small inputs are searched for one that breaks
the Bellman postcondition -- on the compiled function when it still matches
the .pyx, on the extracted text otherwise."""
import itertools
import json
import random
import sys
import traceback
sys.path.insert(0, "/verif")
from replayers.common import compiled_in_sync, engine_concrete, engine_batch, finish

TT = "sequence/align/tracetable.pyx"
PW = "sequence/align/pairwise.pyx"


def bits(pairs):
    return sum(v for c, v in pairs if c)


def replay_linear(m):
    a, b, c = (int(m.get(k, 0)) for k in ("match_score", "gap_left_score", "gap_top_score"))
    r = engine_concrete(TT + "::get_trace_linear", [{"cv": a, "ctype": "int32"}, {"cv": b, "ctype": "int32"},
                                                    {"cv": c, "ctype": "int32"}, {"cell": 0, "ctype": "int32"}])
    mx = max(a, b, c)
    exp = bits([(a == mx, 1), (b == mx, 2), (c == mx, 4)])
    got, gmx = r.get("value"), (r.get("args_after") or [None] * 4)[3]
    bad = got != exp or gmx != mx
    return bad, f"extracted get_trace_linear({a},{b},{c}) -> trace {got}, max {gmx}; expected trace {exp}, max {mx} (cdef function: not callable on the compiled module)"


AFF = ["match_to_match_score", "gap_left_to_match_score", "gap_top_to_match_score",
       "match_to_gap_left_score", "gap_left_to_gap_left_score", "match_to_gap_top_score", "gap_top_to_gap_top_score"]


def replay_affine(m):
    v = [int(m.get(k, 0)) for k in AFF]
    args = [{"cv": x, "ctype": "int32"} for x in v] + [{"cell": 0, "ctype": "int32"}] * 3
    r = engine_concrete(TT + "::get_trace_affine", args)
    m1, m2, m3 = max(v[0:3]), max(v[3:5]), max(v[5:7])
    exp = bits([(v[0] == m1, 1), (v[1] == m1, 2), (v[2] == m1, 4), (v[3] == m2, 8), (v[4] == m2, 16),
                (v[5] == m3, 32), (v[6] == m3, 64)])
    after = r.get("args_after") or [None] * 10
    got = r.get("value")
    bad = got != exp or after[7:10] != [m1, m2, m3]
    return bad, f"extracted get_trace_affine{tuple(v)} -> trace {got}, maxima {after[7:10]}; expected {exp}, {[m1, m2, m3]}"


def fill_oracle(code1, code2, M, gap, tp, local, S0, T0, S, T):
    """Bellman postcondition of _fill_align_table; returns failure text or None"""
    n1, n2 = len(code1), len(code2)
    tpe = tp or local
    for r in range(0, n1 + 1):
        for c in range(0, n2 + 1):
            if r == 0 or c == 0:
                if S[r][c] != S0[r][c] or T[r][c] != T0[r][c]:
                    return f"boundary cell ({r},{c}) modified"
                continue
            d = S[r - 1][c - 1] + M[code1[r - 1]][code2[c - 1]]
            left = S[r][c - 1] + (0 if (not tpe and r == n1) else gap)
            top = S[r - 1][c] + (0 if (not tpe and c == n2) else gap)
            mx = max(d, left, top)
            if local and mx <= 0:
                if S[r][c] != S0[r][c] or T[r][c] != T0[r][c]:
                    return f"cell ({r},{c}): local alignment with max {mx} <= 0 must leave the cell untouched"
                continue
            exp_t = bits([(d == mx, 1), (left == mx, 2), (top == mx, 4)])
            if S[r][c] != mx or T[r][c] != exp_t:
                return f"cell ({r},{c}): score {S[r][c]} trace {T[r][c]}, Bellman equation gives {mx} / {exp_t}"
    return None


def gen_fill_inputs(rng, n):
    for _ in range(n):
        n1, n2 = rng.randint(0, 3), rng.randint(0, 3)
        asz = rng.randint(1, 3)
        code1 = [rng.randrange(asz) for _ in range(n1)]
        code2 = [rng.randrange(asz) for _ in range(n2)]
        M = [[rng.randint(-3, 3) for _ in range(asz)] for _ in range(asz)]
        gap = rng.randint(-3, 0)
        tp, local = rng.random() < 0.5, rng.random() < 0.4
        S0 = [[0] * (n2 + 1) for _ in range(n1 + 1)]
        T0 = [[0] * (n2 + 1) for _ in range(n1 + 1)]
        if not local:
            for i in range(1, n1 + 1):
                S0[i][0] = gap * i if tp else 0
                T0[i][0] = 4
            for j in range(1, n2 + 1):
                S0[0][j] = gap * j if tp else 0
                T0[0][j] = 2
        yield code1, code2, M, gap, tp, local, S0, T0


def search_fill(seed=0, budget=60):
    rng = random.Random(seed)
    inputs = list(gen_fill_inputs(rng, budget))
    sync, checked, bad = compiled_in_sync(PW)
    details = []
    if sync:
        import numpy as np
        from biotite.sequence.align import pairwise
        for inp in inputs:
            code1, code2, M, gap, tp, local, S0, T0 = inp
            S = np.array(S0, dtype=np.int32).reshape(len(code1) + 1, len(code2) + 1)
            T = np.array(T0, dtype=np.uint8).reshape(len(code1) + 1, len(code2) + 1)
            pairwise._fill_align_table(np.array(code1, dtype=np.uint8), np.array(code2, dtype=np.uint8),
                                       np.array(M, dtype=np.int32), T, S, gap, tp, local)
            f = fill_oracle(code1, code2, M, gap, tp, local, S0, T0, S.tolist(), T.tolist())
            if f:
                return True, f"compiled _fill_align_table on code1={code1} code2={code2} matrix={M} gap={gap} term_penalty={tp} local={local}: {f}"
        details.append(f"compiled module (in sync): {len(inputs)} small inputs agree with the Bellman postcondition")
    else:
        details.append(f"compiled module is stale w.r.t. pairwise.pyx (lines {bad[:5]})")
    batch = []
    for code1, code2, M, gap, tp, local, S0, T0 in inputs:
        batch.append({"args": [{"array": code1, "ctype": "uint8"}, {"array": code2, "ctype": "uint8"},
                               {"array": M, "ctype": "int32", "ndim": 2},
                               {"array": T0, "ctype": "uint8", "ndim": 2}, {"array": S0, "ctype": "int32", "ndim": 2},
                               {"cv": gap, "ctype": "int"}, {"cv": int(tp), "ctype": "bint"}, {"cv": int(local), "ctype": "bint"}]})
    outs = engine_batch(PW + "::_fill_align_table", batch)
    for inp, o in zip(inputs, outs):
        code1, code2, M, gap, tp, local, S0, T0 = inp
        if o.get("outcome") in ("unsupported", "engine-error"):
            details.append(f"extracted text not executable: {o.get('error')}")
            break
        if o.get("failed_safety_obligations"):
            return True, f"extracted _fill_align_table on code1={code1} code2={code2}: {o['failed_safety_obligations'][:2]}"
        after = o.get("args_after") or []
        if o.get("outcome") != "return" or len(after) < 5:
            return True, f"extracted _fill_align_table on code1={code1} code2={code2} matrix={M} gap={gap}: outcome {o.get('outcome')} {o.get('exception', '')}"
        f = fill_oracle(code1, code2, M, gap, tp, local, S0, T0, after[4], after[3])
        if f:
            return True, f"extracted _fill_align_table on code1={code1} code2={code2} matrix={M} gap={gap} term_penalty={tp} local={local}: {f}"
    else:
        details.append(f"extracted text: {len(inputs)} small inputs agree with the Bellman postcondition")
    return False, "; ".join(details)


NEG = -(2 ** 30)


def afill_oracle(code1, code2, M, go, ge, tp, local, init, out):
    """Gotoh recurrences of _fill_align_table_affine; init/out = (T, Mt, A, B) as nested lists"""
    n1, n2 = len(code1), len(code2)
    T0, M0, A0, B0 = init
    T, Mt, A, B = out
    tpe = tp or local
    for r in range(n1 + 1):
        for c in range(n2 + 1):
            if r == 0 or c == 0:
                if (T[r][c], Mt[r][c], A[r][c], B[r][c]) != (T0[r][c], M0[r][c], A0[r][c], B0[r][c]):
                    return f"boundary cell ({r},{c}) modified"
                continue
            sim = M[code1[r - 1]][code2[c - 1]]
            mm, am, bm = Mt[r - 1][c - 1] + sim, A[r - 1][c - 1] + sim, B[r - 1][c - 1] + sim
            f1 = (not tpe) and r == n1
            f2 = (not tpe) and c == n2
            ma, aa = Mt[r][c - 1] + (0 if f1 else go), A[r][c - 1] + (0 if f1 else ge)
            mb, bb = Mt[r - 1][c] + (0 if f2 else go), B[r - 1][c] + (0 if f2 else ge)
            m1, m2, m3 = max(mm, am, bm), max(ma, aa), max(mb, bb)
            k1, k2, k3 = (not local) or m1 > 0, (not local) or m2 > 0, (not local) or m3 > 0
            exp = (bits([(k1 and mm == m1, 1), (k1 and am == m1, 2), (k1 and bm == m1, 4), (k2 and ma == m2, 8), (k2 and aa == m2, 16),
                         (k3 and mb == m3, 32), (k3 and bb == m3, 64)]),
                   m1 if k1 else M0[r][c], m2 if k2 else A0[r][c], m3 if k3 else B0[r][c])
            got = (T[r][c], Mt[r][c], A[r][c], B[r][c])
            if got != exp:
                return f"cell ({r},{c}): (trace, m, g1, g2) = {got}, the affine recurrences give {exp}"
    return None


def search_fill_affine(seed=0, budget=60):
    rng = random.Random(seed)
    inputs = []
    for _ in range(budget):
        n1, n2 = rng.randint(0, 3), rng.randint(0, 3)
        asz = rng.randint(1, 3)
        code1 = [rng.randrange(asz) for _ in range(n1)]
        code2 = [rng.randrange(asz) for _ in range(n2)]
        M = [[rng.randint(-3, 3) for _ in range(asz)] for _ in range(asz)]
        go = rng.randint(-5, -1)
        ge = rng.randint(go, 0)
        tp, local = rng.random() < 0.5, rng.random() < 0.4
        T0 = [[0] * (n2 + 1) for _ in range(n1 + 1)]
        M0 = [[0] * (n2 + 1) for _ in range(n1 + 1)]
        A0 = [[NEG] * (n2 + 1) for _ in range(n1 + 1)]
        B0 = [[NEG] * (n2 + 1) for _ in range(n1 + 1)]
        if not local:
            for i in range(1, n1 + 1):
                M0[i][0] = NEG
                B0[i][0] = (go + ge * (i - 1)) if tp else 0
            for j in range(1, n2 + 1):
                M0[0][j] = NEG
                A0[0][j] = (go + ge * (j - 1)) if tp else 0
        inputs.append((code1, code2, M, go, ge, tp, local, (T0, M0, A0, B0)))
    details = []
    sync, checked, bad = compiled_in_sync(PW)
    if sync:
        import numpy as np
        from biotite.sequence.align import pairwise
        for code1, code2, M, go, ge, tp, local, init in inputs:
            shape = (len(code1) + 1, len(code2) + 1)
            T = np.array(init[0], dtype=np.uint8).reshape(shape)
            tabs = [np.array(x, dtype=np.int32).reshape(shape) for x in init[1:]]
            pairwise._fill_align_table_affine(np.array(code1, dtype=np.uint8), np.array(code2, dtype=np.uint8), np.array(M, dtype=np.int32),
                                              T, tabs[0], tabs[1], tabs[2], go, ge, tp, local)
            f = afill_oracle(code1, code2, M, go, ge, tp, local, init, (T.tolist(),) + tuple(t.tolist() for t in tabs))
            if f:
                return True, f"compiled _fill_align_table_affine on code1={code1} code2={code2} matrix={M} gap=({go},{ge}) term_penalty={tp} local={local}: {f}"
        details.append(f"compiled module (in sync): {len(inputs)} small inputs agree with the affine recurrences")
    else:
        details.append(f"compiled module is stale w.r.t. pairwise.pyx (lines {bad[:5]})")
    batch = []
    for code1, code2, M, go, ge, tp, local, init in inputs:
        batch.append({"args": [{"array": code1, "ctype": "uint8"}, {"array": code2, "ctype": "uint8"}, {"array": M, "ctype": "int32", "ndim": 2},
                               {"array": init[0], "ctype": "uint8", "ndim": 2}] +
                              [{"array": x, "ctype": "int32", "ndim": 2} for x in init[1:]] +
                              [{"cv": go, "ctype": "int"}, {"cv": ge, "ctype": "int"}, {"cv": int(tp), "ctype": "bint"}, {"cv": int(local), "ctype": "bint"}]})
    outs = engine_batch(PW + "::_fill_align_table_affine", batch)
    for (code1, code2, M, go, ge, tp, local, init), o in zip(inputs, outs):
        if o.get("outcome") in ("unsupported", "engine-error"):
            details.append(f"extracted text not executable: {o.get('error')}")
            break
        if o.get("failed_safety_obligations"):
            return True, f"extracted _fill_align_table_affine on code1={code1} code2={code2}: {o['failed_safety_obligations'][:2]}"
        after = o.get("args_after") or []
        if o.get("outcome") != "return" or len(after) < 7:
            return True, f"extracted _fill_align_table_affine on code1={code1} code2={code2}: outcome {o.get('outcome')} {o.get('exception', '')}"
        f = afill_oracle(code1, code2, M, go, ge, tp, local, init, (after[3], after[4], after[5], after[6]))
        if f:
            return True, f"extracted _fill_align_table_affine on code1={code1} code2={code2} matrix={M} gap=({go},{ge}) term_penalty={tp} local={local}: {f}"
    else:
        details.append(f"extracted text: {len(inputs)} small inputs agree with the affine recurrences")
    return False, "; ".join(details)


def main():
    rec = json.load(open(sys.argv[1]))
    m = rec.get("model", {})
    try:
        if "get_trace_linear" in rec["case"]:
            rep, detail = replay_linear(m)
        elif "get_trace_affine" in rec["case"]:
            rep, detail = replay_affine(m)
        elif "_fill_align_table_affine" in rec["case"]:
            rep, detail = search_fill_affine()
        elif "_fill_align_table" in rec["case"]:
            rep, detail = search_fill()
        else:
            rep, detail = None, "no replay for this obligation"
    except Exception:
        rep, detail = None, "replayer error: " + traceback.format_exc()[-700:]
    finish(rep, detail)


if __name__ == "__main__":
    main()
