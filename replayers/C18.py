#!/venv/bin/python
"""replay of C18 counter-models: the version predicate of ctab.py, taken from the source text of the tree the
VCs came from (it uses nothing but its arguments), with the counts of the counter-model and the column edges"""
import ast
import json
import os
import sys
import traceback
sys.path.insert(0, "/verif")
from replayers.common import REPO_SRC, finish


def main():
    rec = json.load(open(sys.argv[1]))
    m = rec.get("model", {})
    try:
        path = os.path.join(REPO_SRC, "structure/io/mol/ctab.py")
        fn = [x for x in ast.parse(open(path).read()).body if isinstance(x, ast.FunctionDef) and x.name == "_is_v2000_compatible"]
        ns = {}
        exec(compile(ast.Module(fn, []), path, "exec"), ns)
        f = ns["_is_v2000_compatible"]
        cand = [(m.get("n_atoms", 0), m.get("n_bonds", 0))] + [(a, b) for a in (0, 1, 998, 999, 1000, 1001) for b in (0, 998, 999, 1000, 1001)]
        for na, nb in cand:
            if not isinstance(na, int) or not isinstance(nb, int):
                continue
            got, exp = bool(f(na, nb)), (na <= 999 and nb <= 999)
            if got != exp:
                finish(True, f"_is_v2000_compatible({na}, {nb}) = {got}: the counts {'fit' if exp else 'do not fit'} the three-digit columns of a V2000 counts line")
                return
        finish(False, "version predicate agrees with the column width on the counter-model and all column edges")
    except Exception:
        finish(None, "replayer error: " + traceback.format_exc()[-600:])


if __name__ == "__main__":
    main()
