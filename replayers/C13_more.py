"""replay of AnnotatedSequence counter-models (imported by replayers/C13.py)"""
import numpy as np
from biotite.sequence import (Annotation, AnnotatedSequence, Feature, Location,
                              NucleotideSequence)
from replayers.C13 import locs_from_model, model_slice


def build(m):
    ss = int(m.get("seqstart", m.get("ss", 1)))
    codes = m.get("codes")
    n = None
    for k in ("len", "n"):
        if isinstance(m.get(k), int):
            n = m[k]
    locs = locs_from_model(m)
    hi = max([l.last for l in locs], default=ss + 5)
    if n is None or n < hi - ss + 1 or n > 300:
        n = max(hi - ss + 1, 1)
    rng = np.random.default_rng(1)
    seq = NucleotideSequence("".join(rng.choice(list("ACGT"), n)))
    locs = [l for l in locs if ss <= l.first and l.last <= ss + n - 1] or [Location(ss, ss + n - 1)]
    feat = Feature("gene", locs, {"note": "x"})
    return AnnotatedSequence(Annotation([feat]), seq, ss), locs, ss, n


def replay(case, rec, m):
    aseq, locs, ss, n = build(m)
    if "Copyable.copy" in case:
        c = aseq.copy()
        problems = []
        if not isinstance(c.sequence, type(aseq.sequence)):
            problems.append(f"copy.sequence is {type(c.sequence).__name__}, not a sequence")
        else:
            if str(c.sequence) != str(aseq.sequence):
                problems.append("sequence differs")
            if c.sequence is aseq.sequence:
                problems.append("sequence object shared")
        try:
            if not (c == aseq):
                problems.append("copy != original")
        except Exception as e:
            problems.append(f"comparison raised {type(e).__name__}")
        if c.annotation is aseq.annotation:
            problems.append("annotation object shared")
        return bool(problems), "AnnotatedSequence.copy(): " + ("; ".join(problems) or "equal and independent")
    if "AnnotatedSequence.__getitem__" in case and "slice" in case:
        start, stop = m.get("start"), m.get("stop")
        lo = start if start is not None else ss
        hi = stop if stop is not None else ss + n
        if not (ss <= lo <= hi <= ss + n):
            lo, hi = ss, ss + n
            start, stop = None, None
        try:
            sub = aseq[slice(start, stop)]
        except Exception as e:
            return True, f"annot_seq[{start}:{stop}] (sequence_start {ss}, length {n}) raised {type(e).__name__}: {e}"
        exp_locs = model_slice(locs, lo, hi)
        got = [l for f in sub.annotation for l in f.locs]
        problems = []
        if set(got) != set(exp_locs):
            problems.append(f"locations {sorted(got, key=lambda l: l.first)} expected {sorted(exp_locs, key=lambda l: l.first)}")
        if str(sub.sequence) != str(aseq.sequence)[lo - ss:hi - ss]:
            problems.append("subsequence differs")
        if sub.sequence_start != lo:
            problems.append(f"sequence_start {sub.sequence_start} expected {lo}")
        return bool(problems), (f"annot_seq[{start}:{stop}] with sequence_start {ss}, length {n}, locations {locs}: "
                                + ("; ".join(problems) or "agrees with the per-base model"))
    if "reverse_complement" in case:
        rs = int(m.get("rev_start", m.get("rs", 1)))
        r1 = aseq.reverse_complement(rs)
        r2 = r1.reverse_complement(ss)
        problems = []
        if str(r2.sequence) != str(aseq.sequence):
            problems.append("sequence not restored")
        l2 = {l for f in r2.annotation for l in f.locs}
        if l2 != set(locs):
            problems.append(f"locations after two reverse complements {l2} != {set(locs)}")
        exp1 = set()
        for l in locs:
            d = Location.Defect.NONE
            for a, b in ((Location.Defect.MISS_LEFT, Location.Defect.MISS_RIGHT), (Location.Defect.MISS_RIGHT, Location.Defect.MISS_LEFT),
                         (Location.Defect.BEYOND_LEFT, Location.Defect.BEYOND_RIGHT), (Location.Defect.BEYOND_RIGHT, Location.Defect.BEYOND_LEFT),
                         (Location.Defect.UNK_LOC, Location.Defect.UNK_LOC), (Location.Defect.BETWEEN, Location.Defect.BETWEEN)):
                if l.defect & a:
                    d |= b
            st = Location.Strand.REVERSE if l.strand == Location.Strand.FORWARD else Location.Strand.FORWARD
            exp1.add(Location(ss + n - 1 - l.last + rs, ss + n - 1 - l.first + rs, st, d))
        l1 = {l for f in r1.annotation for l in f.locs}
        if l1 != exp1:
            problems.append(f"reverse complement locations {l1} expected {exp1}")
        return bool(problems), "reverse_complement: " + ("; ".join(problems) or "agrees with the position/strand/defect mapping")
    if "feature with" in case:
        # guided search: features with 1..3 locations on either strand (and mixed), several sequence starts
        import itertools
        FW, RV = Location.Strand.FORWARD, Location.Strand.REVERSE
        comp = {"A": "T", "C": "G", "G": "C", "T": "A"}
        text = "ATGGCGTACGATTAGAAACCC"
        for ss2 in (1, 7):
            a2 = lambda: AnnotatedSequence(Annotation([]), NucleotideSequence(text), ss2)
            spans = [(ss2 + 1, ss2 + 4), (ss2 + 7, ss2 + 9), (ss2 + 12, ss2 + 18)]
            for k in (1, 2, 3):
                for strands in itertools.product((FW, RV), repeat=k):
                    locs2 = [Location(a, b, st) for (a, b), st in zip(spans[:k], strands)]
                    feat = Feature("gene", locs2, {})
                    order = sorted(locs2, key=lambda l: l.first)
                    if all(l.strand == RV for l in locs2):
                        order = order[::-1]
                    exp = ""
                    for l in order:
                        piece = text[l.first - ss2:l.last - ss2 + 1]
                        exp += "".join(comp[c] for c in reversed(piece)) if l.strand == RV else piece
                    if len(set(strands)) > 1:
                        continue            # mixed strands: order not specified by the property
                    aseq2 = a2()
                    if "__setitem__" in case:
                        new = ("ACGT" * 6)[:len(exp)]
                        aseq2[feat] = NucleotideSequence(new)
                        got = str(aseq2[feat])
                        outside = [i for i in range(len(text)) if not any(l.first - ss2 <= i <= l.last - ss2 for l in locs2)]
                        if got != new:
                            return True, f"after annot_seq[feature {locs2}] = {new!r} (sequence_start {ss2}) the feature reads {got!r}"
                        if any(str(aseq2.sequence)[i] != text[i] for i in outside):
                            return True, f"annot_seq[feature {locs2}] = ... changed bases outside the feature"
                    else:
                        got = str(aseq2[feat])
                        if got != exp:
                            return True, (f"annot_seq[feature {locs2}] (sequence_start {ss2}) = {got!r}, the bases of its locations in biological "
                                          f"order are {exp!r}")
        return False, "features with 1..3 locations on either strand read / assign in biological order"
    if "__getitem__" in case and "int" in case:
        idx = int(m.get("idx", m.get("index", ss)))
        idx = min(max(idx, ss), ss + n - 1)
        got = aseq[idx]
        exp = str(aseq.sequence)[idx - ss]
        return got != exp, f"annot_seq[{idx}] = {got!r}, expected {exp!r}"
    return None, "no replay for this case"
