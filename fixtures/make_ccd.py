#!/venv/bin/python
"""write a small synthetic Chemical Component Dictionary (BinaryCIF) for the
bounded stand-ins: three amino-acid like components with a few atoms each.
Used through the public biotite.structure.info.set_ccd_path()."""
import sys
import numpy as np
import biotite.structure.io.pdbx as pdbx

COMPS = {
    "GLY": (["N", "CA", "C", "O"], ["N", "C", "C", "O"], [("N", "CA", "SING"), ("CA", "C", "SING"), ("C", "O", "DOUB")]),
    "ALA": (["N", "CA", "C", "O", "CB"], ["N", "C", "C", "O", "C"],
            [("N", "CA", "SING"), ("CA", "C", "SING"), ("C", "O", "DOUB"), ("CA", "CB", "SING")]),
    "SER": (["N", "CA", "C", "O", "CB", "OG"], ["N", "C", "C", "O", "C", "O"],
            [("N", "CA", "SING"), ("CA", "C", "SING"), ("C", "O", "DOUB"), ("CA", "CB", "SING"), ("CB", "OG", "SING")]),
    "HOH": (["O"], ["O"], []),
}


def main(path):
    ids = list(COMPS)
    chem_comp = pdbx.BinaryCIFCategory({
        "id": np.array(ids), "name": np.array([i.lower() for i in ids]),
        "type": np.array(["L-PEPTIDE LINKING"] * 3 + ["NON-POLYMER"]),
        "one_letter_code": np.array(["G", "A", "S", "?"]), "formula_weight": np.array([75.0, 89.0, 105.0, 18.0]),
        "three_letter_code": np.array(ids), "pdbx_type": np.array(["ATOMP"] * 3 + ["HETAS"]),
        "mon_nstd_parent_comp_id": np.array(["?"] * 4), "pdbx_synonyms": np.array(["?"] * 4),
    })
    ca = {k: [] for k in ("comp_id", "atom_id", "alt_atom_id", "type_symbol", "charge", "pdbx_model_Cartn_x_ideal",
                          "pdbx_model_Cartn_y_ideal", "pdbx_model_Cartn_z_ideal", "model_Cartn_x", "model_Cartn_y", "model_Cartn_z",
                          "pdbx_leaving_atom_flag", "pdbx_aromatic_flag", "pdbx_stereo_config", "pdbx_backbone_atom_flag",
                          "pdbx_n_terminal_atom_flag", "pdbx_c_terminal_atom_flag", "pdbx_component_atom_id", "pdbx_component_comp_id",
                          "pdbx_ordinal")}
    cb = {k: [] for k in ("comp_id", "atom_id_1", "atom_id_2", "value_order", "pdbx_aromatic_flag", "pdbx_stereo_config", "pdbx_ordinal")}
    n = 0
    for cid, (atoms, elems, bonds) in COMPS.items():
        for i, (a, e) in enumerate(zip(atoms, elems)):
            n += 1
            for k, v in (("comp_id", cid), ("atom_id", a), ("alt_atom_id", a), ("type_symbol", e), ("charge", 0),
                         ("pdbx_model_Cartn_x_ideal", float(i)), ("pdbx_model_Cartn_y_ideal", 0.0), ("pdbx_model_Cartn_z_ideal", 0.0),
                         ("model_Cartn_x", float(i)), ("model_Cartn_y", 0.0), ("model_Cartn_z", 0.0), ("pdbx_leaving_atom_flag", "N"),
                         ("pdbx_aromatic_flag", "N"), ("pdbx_stereo_config", "N"), ("pdbx_backbone_atom_flag", "N"),
                         ("pdbx_n_terminal_atom_flag", "N"), ("pdbx_c_terminal_atom_flag", "N"), ("pdbx_component_atom_id", a),
                         ("pdbx_component_comp_id", cid), ("pdbx_ordinal", n)):
                ca[k].append(v)
        for j, (x, y, o) in enumerate(bonds):
            for k, v in (("comp_id", cid), ("atom_id_1", x), ("atom_id_2", y), ("value_order", o), ("pdbx_aromatic_flag", "N"),
                         ("pdbx_stereo_config", "N"), ("pdbx_ordinal", j + 1)):
                cb[k].append(v)
    block = pdbx.BinaryCIFBlock()
    block["chem_comp"] = chem_comp
    block["chem_comp_atom"] = pdbx.BinaryCIFCategory({k: np.array(v) for k, v in ca.items()})
    block["chem_comp_bond"] = pdbx.BinaryCIFCategory({k: np.array(v) for k, v in cb.items()})
    f = pdbx.BinaryCIFFile()
    f["components"] = block
    f.write(path)


if __name__ == "__main__":
    main(sys.argv[1])
