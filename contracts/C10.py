"""C10 -- selectors obey their definitions (k-mer table clause not applicable).

Under contract in this build: the chunk-wise running arg-minimum kernels of
sequence/align/selector.pyx behind the minimizer / syncmer selectors
(_chunk_wise_forward_argcummin / _chunk_wise_reverse_argcummin, van Herk's
two-pass window minimum), for every array length and every chunk size.

   cs(s): start of the chunk containing s   cs(0) = 0, cs(s+1) = s+1 if (s+1) % w == 0 else cs(s)
   ce(s): end of the chunk containing s     ce(s) = s if (s % w == w-1 or s == n-1) else ce(s+1)
"""
import z3
from pyvc.api import Case, sym_int, sym_c, implies, iff
from pyvc.core import CV, zint, zbool, simp, c_mod
from pyvc.heap import SymArr
from pyvc import natives

PROPERTY = "C10"
SEL = "sequence/align/selector.pyx"
MAX64 = 2 ** 63 - 1

ASSUMPTIONS = [
    "ordering values are < INT64_MAX (the kernels use INT64_MAX as 'no minimum yet'); see the known finding for the excluded value",
    "cs / ce are the chunk-start / chunk-end functions defined by the recursion equations in the module docstring",
    "array lengths < 2^32 (uint32 positions)",
]
UNVERIFIED = [
    "_minimize (combination of the two passes: needs the chunk/division lemmas), MinimizerSelector / SyncmerSelector / MincodeSelector drivers",
    "kmeralphabet.pyx _create_continuous_kmers (rolling update: needs the telescoping lemma of the radix weights), fuse / split, permutation.pyx, kmersimilarity.pyx",
]
OUT_OF_REACH = ["kmertable.pyx (KmerTable / BucketKmerTable): positions live in malloc'ed C arrays addressed through a uint64 array -- "
                "outside the extraction subset, and no contract over Python-visible state can say what a bucket contains"]

cs = z3.Function("cs", z3.IntSort(), z3.IntSort())
ce = z3.Function("ce", z3.IntSort(), z3.IntSort())


def umod(x, w):
    return c_mod(x, w)


def setup_argcummin(reverse):
    def setup(I):
        n = sym_int(I, "n", 0, 2 ** 32 - 2)
        w = sym_c(I, "uint32", "chunk_size")
        I.ctx.assume(w.term >= 1)
        values = SymArr("values", "int64", [n], readonly=True).view(memview=True)
        V = values.arr
        k = z3.Int("k!v")
        I.ctx.assume(z3.ForAll([k], z3.Implies(z3.And(k >= 0, k < n), z3.Select(V, k) < MAX64)))
        s = z3.Int("s!c")
        if not reverse:
            I.ctx.assume(cs(0) == 0)
            I.ctx.assume(z3.ForAll([s], z3.Implies(s >= 0, cs(s + 1) == z3.If(umod(s + 1, w.term) == 0, s + 1, cs(s)))))
            I.ctx.assume(z3.ForAll([s], z3.Implies(s >= 0, z3.And(cs(s) >= 0, cs(s) <= s))))
        else:
            I.ctx.assume(z3.ForAll([s], z3.Implies(z3.And(s >= 0, s < n),
                                                   ce(s) == z3.If(z3.Or(umod(s, w.term) == w.term - 1, s == n - 1), s, ce(s + 1)))))
            I.ctx.assume(z3.ForAll([s], z3.Implies(z3.And(s >= 0, s < n), z3.And(ce(s) >= s, ce(s) < n))))
        g = {"n": n, "w": w.term, "V": V}
        I.ghost["acm"] = g
        return {"args": [values, w], "ghost": g}
    return setup


def fwd_ok(g, R, t):
    """R[t] is the leftmost arg-minimum of values[cs(t) .. t]"""
    V = g["V"]
    u = z3.Int("u!f")
    r = z3.Select(R, t)
    return z3.And(r >= cs(t), r <= t,
                  z3.ForAll([u], z3.Implies(z3.And(u >= cs(t), u <= t), z3.Select(V, r) <= z3.Select(V, u))),
                  z3.ForAll([u], z3.Implies(z3.And(u >= cs(t), u < r), z3.Select(V, u) > z3.Select(V, r))))


def inv_fwd(I, env):
    g = I.ghost["acm"]
    s = zint(I.unC(env.lookup("seq_i")))
    R = env.lookup("min_pos").arr
    ci = zint(I.unC(env.lookup("current_min_i")))
    cm = zint(I.unC(env.lookup("current_min")))
    t = z3.Int("t!f")
    return z3.And(s >= 0, s <= g["n"],
                  z3.ForAll([t], z3.Implies(z3.And(t >= 0, t < s), fwd_ok(g, R, t))),
                  z3.If(s == 0, cm == MAX64,
                        z3.And(ci == z3.Select(R, s - 1), cm == z3.Select(g["V"], ci))))


def ens_fwd(I, env):
    g = I.ghost["acm"]
    res = env.vars["result"]
    t = I.ctx.fresh_int("t")
    return [("length", natives.eq(I, I.unC(res.shape[0]), g["n"])),
            ("leftmost_argmin_of_chunk_prefix", implies(z3.And(t >= 0, t < g["n"]), fwd_ok(g, res.arr, t)))]


def rev_ok(g, R, t):
    """R[t] is the leftmost arg-minimum of values[t .. ce(t)]"""
    V = g["V"]
    u = z3.Int("u!r")
    r = z3.Select(R, t)
    return z3.And(r >= t, r <= ce(t),
                  z3.ForAll([u], z3.Implies(z3.And(u >= t, u <= ce(t)), z3.Select(V, r) <= z3.Select(V, u))),
                  z3.ForAll([u], z3.Implies(z3.And(u >= t, u < r), z3.Select(V, u) > z3.Select(V, r))))


def inv_rev(I, env):
    g = I.ghost["acm"]
    s = zint(I.unC(env.lookup("seq_i")))
    R = env.lookup("min_pos").arr
    ci = zint(I.unC(env.lookup("current_min_i")))
    cm = zint(I.unC(env.lookup("current_min")))
    t = z3.Int("t!r")
    return z3.And(s >= -1, s <= g["n"] - 1,
                  z3.ForAll([t], z3.Implies(z3.And(t > s, t < g["n"]), rev_ok(g, R, t))),
                  z3.If(s == g["n"] - 1, cm == MAX64,
                        z3.And(ci == z3.Select(R, s + 1), cm == z3.Select(g["V"], ci))))


def ens_rev(I, env):
    g = I.ghost["acm"]
    res = env.vars["result"]
    t = I.ctx.fresh_int("t")
    return [("length", natives.eq(I, I.unC(res.shape[0]), g["n"])),
            ("leftmost_argmin_of_chunk_suffix", implies(z3.And(t >= 0, t < g["n"]), rev_ok(g, res.arr, t)))]


CASES = [
    Case(SEL + "::_chunk_wise_reverse_argcummin", setup=setup_argcummin(True), overflow=False,
         loops={0: {"invariant": [inv_rev]}}, ensures=[("argcummin", ens_rev)], timeout=20),
    Case(SEL + "::_chunk_wise_forward_argcummin", setup=setup_argcummin(False), overflow=False,
         loops={0: {"invariant": [inv_fwd]}}, ensures=[("argcummin", ens_fwd)], timeout=20),
]
MIN_OBLIGATIONS = 10

from pyvc.api import bounded_via_script
bounded = bounded_via_script("C10")
ASSUMPTIONS.append("bounded stand-in (labelled, not a proof) for everything outside the two proved kernels (k-mer decomposition, direct and bucketed tables incl. "
                   "all constructors, pickling, matching with masks and similarity rules, minimizer / syncmer / mincode selectors): the compiled code vs naive "
                   "definitions on all DNA sequences of length <= 4 (5 thorough) and seeded random reference sets (bounded/C10.py)")


# ==========================================================================
# kmeralphabet.pyx::KmerAlphabet._create_spaced_kmers  (boundscheck(False), wraparound(False))
#
#   SK(i, j) = sum over t < j of radix_multiplier[t] * code[i + spacing[t]]
#   contract: kmers[i] == SK(i, k) for every window i; AlphabetError iff a visited code is outside
#   the base alphabet; ValueError iff the sequence is shorter than the k-mer span; every
#   memoryview access is in bounds for any strictly increasing non-negative spacing model

KA = "sequence/align/kmeralphabet.pyx"
SK = z3.Function("SK", z3.IntSort(), z3.IntSort(), z3.IntSort())


def setup_spaced(code_t):
    def setup(I):
        from pyvc.api import get_class
        from pyvc.heap import Obj
        cls = get_class(I, KA, "KmerAlphabet")
        k = sym_int(I, "k", 2, 64)
        n = sym_int(I, "n", 0, 2 ** 31 - 2)
        asz = sym_int(I, "alphabet_length", 1, 2 ** 16)
        spacing = SymArr("_spacing", "int64", [k], readonly=True)
        rm = SymArr("_radix_multiplier", "int64", [k], readonly=True)
        code = SymArr("seq_code", code_t, [n], readonly=True).view(memview=True)
        S, RM, C = spacing.arr, rm.arr, code.arr
        t, t2, i = z3.Ints("t!s t2!s i!s")
        A = I.ctx.assume
        # representation invariant of a KmerAlphabet with a spacing model (what __init__ establishes)
        A(z3.Select(S, 0) >= 0)
        A(z3.ForAll([t, t2], z3.Implies(z3.And(t >= 0, t < t2, t2 < k), z3.Select(S, t) < z3.Select(S, t2))))
        A(z3.Select(S, k - 1) <= 2 ** 20)
        A(z3.ForAll([i], SK(i, 0) == 0))
        A(z3.ForAll([i, t], z3.Implies(t >= 0, SK(i, t + 1) == SK(i, t) + z3.Select(RM, t) * z3.Select(C, i + z3.Select(S, t)))))
        base = SymArr("_base_alph", None, [asz])             # only its length is used
        obj = Obj(cls, {"_k": k, "_spacing": spacing, "_radix_multiplier": rm, "_base_alph": base})
        span = z3.Select(S, k - 1) + 1
        g = {"k": k, "n": n, "asz": asz, "S": S, "RM": RM, "C": C, "span": span, "nk": n - span + 1}
        I.ghost["sp"] = g
        return {"args": [obj, code], "ghost": g}
    return setup


def inv_spaced_outer(I, env):
    g = I.ghost["sp"]
    i = zint(I.unC(env.lookup("i")))
    K = env.lookup("kmers").arr
    q, t = z3.Ints("q!o t!o")
    return z3.And(i >= 0, i <= g["nk"], z3.ForAll([q], z3.Implies(z3.And(q >= 0, q < i), z3.Select(K, q) == SK(q, g["k"]))),
                  z3.ForAll([q, t], z3.Implies(z3.And(q >= 0, q < i, t >= 0, t < g["k"]),
                                               z3.Select(g["C"], q + z3.Select(g["S"], t)) < g["asz"])))


def inv_spaced_inner(I, env):
    g = I.ghost["sp"]
    i = zint(I.unC(env.lookup("i")))
    j = zint(I.unC(env.lookup("j")))
    K = env.lookup("kmers").arr
    q, t = z3.Ints("q!i t!i")
    return z3.And(i >= 0, i < g["nk"], j >= 0, j <= g["k"], zint(I.unC(env.lookup("kmer"))) == SK(i, j),
                  z3.ForAll([q], z3.Implies(z3.And(q >= 0, q < i), z3.Select(K, q) == SK(q, g["k"]))),
                  z3.ForAll([q, t], z3.Implies(z3.And(q >= 0, q < i, t >= 0, t < g["k"]),
                                               z3.Select(g["C"], q + z3.Select(g["S"], t)) < g["asz"])),
                  z3.ForAll([t], z3.Implies(z3.And(t >= 0, t < j), z3.Select(g["C"], i + z3.Select(g["S"], t)) < g["asz"])))


def ens_spaced(I, env):
    g = I.ghost["sp"]
    res = env.vars["result"]
    q = I.ctx.fresh_int("q")
    return [("length", natives.eq(I, res.shape[0], g["nk"])),
            ("codes", implies(z3.And(q >= 0, q < g["nk"]), z3.Select(res.arr, q) == SK(q, g["k"])))]


def bad_code(I, env):
    g = I.ghost["sp"]
    i, t = z3.Ints("i!b t!b")
    # (if the sequence is shorter than the span there is no window: the range of i is empty)
    return z3.Exists([i, t], z3.And(i >= 0, i < g["nk"], t >= 0, t < g["k"],
                                    z3.Select(g["C"], i + z3.Select(g["S"], t)) >= g["asz"]))


for _t in ("uint8", "uint32"):
    CASES.append(Case(KA + "::KmerAlphabet._create_spaced_kmers", f"CodeType={_t}", setup=setup_spaced(_t), overflow=False,
                      raises={"ValueError": lambda I, env: I.ghost["sp"]["n"] < I.ghost["sp"]["span"], "AlphabetError": bad_code},
                      loops={0: {"invariant": [inv_spaced_outer]}, 1: {"invariant": [inv_spaced_inner]}},
                      ensures=[("spaced_kmers", ens_spaced)], timeout=20))
ASSUMPTIONS.append("_create_spaced_kmers: int64 arithmetic on k-mer codes does not overflow (alphabet_length ** k < 2**63 is what makes a KmerAlphabet usable); "
                   "SK is the partial-sum ghost defined by its two recursion equations; the spacing model is strictly increasing and non-negative (checked by __init__)")


# ==========================================================================
# kmeralphabet.pyx::KmerAlphabet._create_continuous_kmers  (rolling computation; boundscheck(False))
#
#   W(q) = sum over t < k of A**(k-1-t) * code[q + t]          (A = size of the base alphabet)
#   contract: kmers[q] == W(q) for every window q although only kmers[0] is computed as that sum and every
#   later one from its predecessor; AlphabetError iff some code is outside the base alphabet; ValueError iff the
#   sequence is shorter than k.  k and A are concrete per case (the rolling identity is polynomial in A: with
#   both symbolic the solvers time out on the non-linear step), the sequence and its length are symbolic.

def _window(g, q):
    k, A_, C = g["k"], g["asz"], g["C"]
    total = z3.IntVal(0)
    for t in range(k):
        total = total + (A_ ** (k - 1 - t)) * z3.Select(C, q + t)
    return total


def setup_continuous(code_t, k, asz):
    def setup(I):
        from pyvc.api import get_class
        from pyvc.heap import Obj
        cls = get_class(I, KA, "KmerAlphabet")
        n = sym_int(I, "n", 0, 2 ** 31 - 2)
        rm = SymArr("_radix_multiplier", "int64", [k], readonly=True)
        code = SymArr("seq_code", code_t, [n], readonly=True).view(memview=True)
        A = I.ctx.assume
        # representation invariant established by __init__: _radix_multiplier[t] == A**(k-1-t)
        for t in range(k):
            A(z3.Select(rm.arr, t) == asz ** (k - 1 - t))
        # the elements of the (immutable) input are values of its C type
        from pyvc.core import int_range
        lo, hi = int_range(code_t)
        p = z3.Int("p!r")
        A(z3.ForAll([p], z3.And(z3.Select(code.arr, p) >= lo, z3.Select(code.arr, p) <= hi)))
        base = SymArr("_base_alph", None, [asz])
        obj = Obj(cls, {"_k": CV("int", k), "_spacing": None, "_radix_multiplier": rm, "_base_alph": base})
        g = {"k": k, "n": n, "asz": asz, "C": code.arr, "nk": n - k + 1}
        I.ghost["ck"] = g
        return {"args": [obj, code], "ghost": {"n": n}}
    return setup


def inv_continuous(I, env):
    g = I.ghost["ck"]
    i = zint(I.unC(env.lookup("i")))
    K = env.lookup("kmers").arr
    q, p = z3.Ints("q!c p!c")
    return z3.And(i >= 1, i <= z3.If(g["nk"] >= 1, g["nk"], 1),
                  zint(I.unC(env.lookup("prev_kmer"))) == _window(g, i - 1),
                  z3.ForAll([q], z3.Implies(z3.And(q >= 0, q < i), z3.Select(K, q) == _window(g, q))),
                  z3.ForAll([p], z3.Implies(z3.And(p >= 0, p < i + g["k"] - 1), z3.Select(g["C"], p) < g["asz"])))


def ens_continuous(I, env):
    g = I.ghost["ck"]
    res = env.vars["result"]
    q = I.ctx.fresh_int("q")
    return [("length", natives.eq(I, res.shape[0], g["nk"])),
            ("codes", implies(z3.And(q >= 0, q < g["nk"]), z3.Select(res.arr, q) == _window(g, q)))]


def bad_code_continuous(I, env):
    g = I.ghost["ck"]
    p = z3.Int("p!b")
    return z3.And(g["n"] >= g["k"], z3.Exists([p], z3.And(p >= 0, p < g["n"], z3.Select(g["C"], p) >= g["asz"])))


for _t, _k, _a in (("uint8", 1, 4), ("uint8", 2, 4), ("uint8", 3, 4), ("uint8", 8, 4), ("uint8", 3, 24), ("uint8", 5, 24), ("uint32", 2, 1000), ("uint8", 12, 4)):
    CASES.append(Case(KA + "::KmerAlphabet._create_continuous_kmers", f"CodeType={_t}, k={_k}, alphabet of {_a}", setup=setup_continuous(_t, _k, _a), overflow=False,
                      raises={"ValueError": lambda I, env: I.ghost["ck"]["n"] < I.ghost["ck"]["k"], "AlphabetError": bad_code_continuous},
                      loops={0: {"unroll": _k}, 1: {"invariant": [inv_continuous]}},
                      ensures=[("continuous_kmers", ens_continuous)], timeout=30))
ASSUMPTIONS.append("_create_continuous_kmers: proved for the concrete (k, alphabet size) pairs of its cases - nucleotide k = 1, 2, 3, 8, 12, protein (24) k = 3, 5, "
                   "1000 symbols k = 2 - and all sequences; _radix_multiplier[t] == alphabet_length ** (k-1-t) is the representation invariant set by __init__")


# ==========================================================================
# kmeralphabet.pyx::KmerAlphabet._split  (cdivision(True), boundscheck(False)): positional digits of a k-mer code
#   contract: for 0 <= code < A**k the k digits d[0..k-1] satisfy 0 <= d[n] < A and sum(d[n] * A**(k-1-n)) == code,
#   i.e. split is the inverse of the positional sum that create_kmers / fuse compute (k-mer <-> symbols bijection)

def setup_split(k, asz):
    def setup(I):
        from pyvc.api import get_class
        from pyvc.heap import Obj
        cls = get_class(I, KA, "KmerAlphabet")
        n = sym_int(I, "n", 0, 2 ** 31 - 2)
        rm = SymArr("_radix_multiplier", "int64", [k], readonly=True)
        codes = SymArr("codes", "int64", [n], readonly=True).view(memview=True)
        A = I.ctx.assume
        for t in range(k):
            A(z3.Select(rm.arr, t) == asz ** (k - 1 - t))
        p = z3.Int("p!r")
        # precondition (checked by the caller split()): valid k-mer codes
        A(z3.ForAll([p], z3.Implies(z3.And(p >= 0, p < n), z3.And(z3.Select(codes.arr, p) >= 0, z3.Select(codes.arr, p) < asz ** k))))
        obj = Obj(cls, {"_k": CV("int", k), "_spacing": None, "_radix_multiplier": rm})
        g = {"k": k, "n": n, "asz": asz, "C": codes.arr}
        I.ghost["split"] = g
        return {"args": [obj, codes], "ghost": {"n": n}}
    return setup


def _digits_ok(g, T, q):
    row = z3.Select(T, q)
    total = z3.IntVal(0)
    conj = []
    for t in range(g["k"]):
        d = z3.Select(row, t)
        conj.append(z3.And(d >= 0, d < g["asz"]))
        total = total + d * (g["asz"] ** (g["k"] - 1 - t))
    return z3.And(total == z3.Select(g["C"], q), *conj)


def inv_split(I, env):
    g = I.ghost["split"]
    i = zint(I.unC(env.lookup("i")))
    T = env.lookup("split_codes").arr
    q = z3.Int("q!s")
    return z3.And(i >= 0, i <= g["n"], z3.ForAll([q], z3.Implies(z3.And(q >= 0, q < i), _digits_ok(g, T, q))))


def ens_split(I, env):
    g = I.ghost["split"]
    res = env.vars["result"]
    q = I.ctx.fresh_int("q")
    return [("shape", natives.conj([natives.eq(I, res.shape[0], g["n"]), natives.eq(I, res.shape[1], g["k"])])),
            ("digits", implies(z3.And(q >= 0, q < g["n"]), _digits_ok(g, res.arr, q)))]


for _k, _a in ((1, 4), (2, 4), (3, 4), (8, 4), (3, 24), (2, 1000)):
    CASES.append(Case(KA + "::KmerAlphabet._split", f"k={_k}, alphabet of {_a}", setup=setup_split(_k, _a), overflow=False,
                      loops={0: {"invariant": [inv_split]}, 1: {"unroll": _k}},
                      ensures=[("split", ens_split)], timeout=30))
ASSUMPTIONS.append("_split: the same concrete (k, alphabet size) pairs; valid k-mer codes (0 <= code < A**k) are the precondition that split() checks before the call")
