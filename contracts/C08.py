"""C08 -- optimal pairwise alignment returns the true optimum.

Under contract: the cell-update kernels of sequence/align/tracetable.pyx
(get_trace_linear / get_trace_affine: loop-free, complete over all int32
inputs) re-extracted from the Cython text (+ .pxd enums) on every run."""
import z3
from pyvc.api import Case, sym_int, sym_c, choice, implies, iff
from pyvc.core import CV, zint, zbool, simp
from pyvc.heap import Cell
from pyvc.interp import Env
from pyvc import natives

PROPERTY = "C08"
TT = "sequence/align/tracetable.pyx"

ASSUMPTIONS = [
    "int32 scores (bit-precise); the Bellman recurrences equal the maximum over all alignments (textbook lemma L-NW, not mechanised)",
]
UNVERIFIED = [
    "align_optimal driver (NumPy table initialisation, de-duplication of traces)",
]


def has_bit(t, bit):
    if isinstance(t, CV):
        t = t.term
    if isinstance(t, int):
        return (t & bit) != 0
    return (zint(t) / bit) % 2 == 1


def bits_sum(pairs):
    return z3.Sum([z3.If(c, z3.IntVal(v), z3.IntVal(0)) for c, v in pairs])


def zmax(*xs):
    m = xs[0]
    for x in xs[1:]:
        m = z3.If(x > m, x, m)
    return m


def out_cells(I, names):
    env = Env()
    for n in names:
        env.vars[n] = I.ctx.fresh_cv("int32", n + "_in")
        env.ctypes[n] = "int32"
    return env, [Cell(env, n) for n in names]


def setup_linear(I):
    a, b, c = (sym_c(I, "int32", n) for n in ("match_score", "gap_left_score", "gap_top_score"))
    env, cells = out_cells(I, ["max_score"])
    return {"args": [a, b, c] + cells, "ghost": {"cells": env, "a": a.term, "b": b.term, "c": c.term}}


def ens_linear(I, env):
    v = env.vars
    a, b, c = v["a"], v["b"], v["c"]
    mx = v["cells"].vars["max_score"].term
    r = v["result"]
    m = zmax(a, b, c)
    return [("max", mx == m),
            ("match_bit", iff(has_bit(r, 1), a == m)),
            ("gap_left_bit", iff(has_bit(r, 2), b == m)),
            ("gap_top_bit", iff(has_bit(r, 4), c == m)),
            ("no_other_bits", natives.compare(I, "<", I.unC(r), 8)),
            ("some_direction", natives.compare(I, ">", I.unC(r), 0)),
            ("bits_as_sum", natives.eq(I, I.unC(r), bits_sum([(a == m, 1), (b == m, 2), (c == m, 4)])))]


AFF = ["match_to_match_score", "gap_left_to_match_score", "gap_top_to_match_score",
       "match_to_gap_left_score", "gap_left_to_gap_left_score",
       "match_to_gap_top_score", "gap_top_to_gap_top_score"]


def setup_affine(I):
    ins = [sym_c(I, "int32", n) for n in AFF]
    env, cells = out_cells(I, ["max_match_score", "max_gap_left_score", "max_gap_top_score"])
    return {"args": ins + cells, "ghost": {"cells": env, "ins": [x.term for x in ins]}}


def ens_affine(I, env):
    v = env.vars
    mm, lm, tm, ml, ll, mt, tt = v["ins"]
    c = v["cells"].vars
    r = v["result"]
    m1, m2, m3 = zmax(mm, lm, tm), zmax(ml, ll), zmax(mt, tt)
    return [("max_match", c["max_match_score"].term == m1),
            ("max_gap_left", c["max_gap_left_score"].term == m2),
            ("max_gap_top", c["max_gap_top_score"].term == m3),
            ("bit_match_to_match", iff(has_bit(r, 1), mm == m1)),
            ("bit_gap_left_to_match", iff(has_bit(r, 2), lm == m1)),
            ("bit_gap_top_to_match", iff(has_bit(r, 4), tm == m1)),
            ("bit_match_to_gap_left", iff(has_bit(r, 8), ml == m2)),
            ("bit_gap_left_to_gap_left", iff(has_bit(r, 16), ll == m2)),
            ("bit_match_to_gap_top", iff(has_bit(r, 32), mt == m3)),
            ("bit_gap_top_to_gap_top", iff(has_bit(r, 64), tt == m3)),
            ("no_other_bits", natives.compare(I, "<", I.unC(r), 128)),
            ("bits_as_sum", natives.eq(I, I.unC(r), bits_sum([(mm == m1, 1), (lm == m1, 2), (tm == m1, 4), (ml == m2, 8), (ll == m2, 16),
                                                              (mt == m3, 32), (tt == m3, 64)])))]


CASES = [
    Case(TT + "::get_trace_linear", setup=setup_linear, ensures=[("cell", ens_linear)]),
    Case(TT + "::get_trace_affine", setup=setup_affine, ensures=[("cell", ens_affine)]),
]
MIN_OBLIGATIONS = 50


# ==========================================================================
# _fill_align_table: every filled cell satisfies the Bellman equation of the
# documented scoring model w.r.t. its three neighbours

PW = "sequence/align/pairwise.pyx"
from pyvc.heap import SymArr


def sel2(a, r, c):
    return z3.Select(z3.Select(a, r), c)


def setup_fill(code_t):
    def setup(I):
        n1 = sym_int(I, "len1", 0, 2 ** 30)
        n2 = sym_int(I, "len2", 0, 2 ** 30)
        asz = sym_int(I, "alph", 1, 2 ** 16)
        code1 = SymArr("code1", code_t, [n1]).view(memview=True)
        code2 = SymArr("code2", code_t, [n2]).view(memview=True)
        matrix = SymArr("matrix", "int32", [asz, asz], readonly=True).view(memview=True)
        trace_table = SymArr("trace_table", "uint8", [n1 + 1, n2 + 1]).view(memview=True)
        score_table = SymArr("score_table", "int32", [n1 + 1, n2 + 1]).view(memview=True)
        gap = sym_c(I, "int", "gap_penalty")
        tp = sym_c(I, "bint", "term_penalty")
        local = sym_c(I, "bint", "local")
        k = z3.Int("k!c")
        # codes index the substitution matrix (checked by align_optimal)
        I.ctx.assume(z3.ForAll([k], z3.Implies(z3.And(k >= 0, k < n1), z3.And(z3.Select(code1.arr, k) >= 0, z3.Select(code1.arr, k) < asz))))
        I.ctx.assume(z3.ForAll([k], z3.Implies(z3.And(k >= 0, k < n2), z3.And(z3.Select(code2.arr, k) >= 0, z3.Select(code2.arr, k) < asz))))
        g = {"S0": score_table.arr, "T0": trace_table.arr, "n1": n1, "n2": n2,
             "c1": code1.arr, "c2": code2.arr, "M": matrix.arr, "gap": gap.term,
             "tp0": tp.term, "loc": local.term}
        I.ghost["fill"] = g
        return {"args": [code1, code2, matrix, trace_table, score_table, gap, tp, local], "ghost": g}
    return setup


def cell_ok(g, S, T, r, c):
    """Bellman equation of cell (r, c), 1 <= r <= n1, 1 <= c <= n2"""
    tp = z3.Or(g["tp0"] != 0, g["loc"] != 0)
    d = sel2(S, r - 1, c - 1) + sel2(g["M"], z3.Select(g["c1"], r - 1), z3.Select(g["c2"], c - 1))
    left = sel2(S, r, c - 1) + z3.If(z3.And(z3.Not(tp), r == g["n1"]), 0, g["gap"])
    top = sel2(S, r - 1, c) + z3.If(z3.And(z3.Not(tp), c == g["n2"]), 0, g["gap"])
    m = zmax(d, left, top)
    t = sel2(T, r, c)
    filled = z3.And(sel2(S, r, c) == m,
                    t == bits_sum([(d == m, 1), (left == m, 2), (top == m, 4)]))
    untouched = z3.And(sel2(S, r, c) == sel2(g["S0"], r, c), t == sel2(g["T0"], r, c))
    return z3.If(z3.And(g["loc"] != 0, m <= 0), untouched, filled)


def inv_outer(I, env):
    g = I.ghost["fill"]
    S, T = env.lookup("score_table").arr, env.lookup("trace_table").arr
    i = zint(I.unC(env.lookup("i")))
    r, c = z3.Ints("r!o c!o")
    done = z3.ForAll([r, c], z3.Implies(z3.And(r >= 1, r < i, c >= 1, c <= g["n2"]), cell_ok(g, S, T, r, c)))
    frame = z3.ForAll([r, c], z3.Implies(z3.Or(r >= i, r <= 0, c <= 0, c > g["n2"]),
                                         z3.And(sel2(S, r, c) == sel2(g["S0"], r, c),
                                                sel2(T, r, c) == sel2(g["T0"], r, c))))
    return z3.And(done, frame)


def inv_inner(I, env):
    g = I.ghost["fill"]
    S, T = env.lookup("score_table").arr, env.lookup("trace_table").arr
    i = zint(I.unC(env.lookup("i")))
    j = zint(I.unC(env.lookup("j")))
    r, c = z3.Ints("r!i c!i")
    done_rows = z3.ForAll([r, c], z3.Implies(z3.And(r >= 1, r < i, c >= 1, c <= g["n2"]), cell_ok(g, S, T, r, c)))
    done_row = z3.ForAll([c], z3.Implies(z3.And(c >= 1, c < j), cell_ok(g, S, T, i, c)))
    frame = z3.ForAll([r, c], z3.Implies(z3.Or(r > i, z3.And(r == i, c >= j), r <= 0, c <= 0, c > g["n2"]),
                                         z3.And(sel2(S, r, c) == sel2(g["S0"], r, c),
                                                sel2(T, r, c) == sel2(g["T0"], r, c))))
    return z3.And(done_rows, done_row, frame, i >= 1, i <= g["n1"])


def ens_fill(I, env):
    g = I.ghost["fill"]
    S, T = env.vars["score_table"].arr, env.vars["trace_table"].arr
    r, c = I.ctx.fresh_int("r"), I.ctx.fresh_int("c")
    return [("bellman_every_cell", implies(z3.And(r >= 1, r <= g["n1"], c >= 1, c <= g["n2"]), cell_ok(g, S, T, r, c))),
            ("boundary_rows_untouched", implies(z3.Or(r == 0, c == 0),
                                                z3.And(sel2(S, r, c) == sel2(g["S0"], r, c),
                                                       sel2(T, r, c) == sel2(g["T0"], r, c))))]


def cc_get_trace_linear(I, f, args, kwargs):
    """call-site use of get_trace_linear's contract (proved above against its
    body): max through the out-parameter, direction bits as a sum"""
    a, b, c, cell = args
    at, bt, ct = (zint(I.unC(x)) for x in (a, b, c))
    m = zmax(at, bt, ct)
    mx = I.ctx.fresh_cv("int32", "max_score")
    I.ctx.assume(mx.term == m)
    natives.setitem(I, cell, 0, mx, None)
    tr = I.ctx.fresh_cv("uint8", "trace")
    I.ctx.assume(tr.term == bits_sum([(at == m, 1), (bt == m, 2), (ct == m, 4)]))
    return tr


for _t in ("uint8",):
    CASES.append(Case(PW + "::_fill_align_table", f"CodeType={_t}", setup=setup_fill(_t), overflow=False,
                      call_contracts={TT + "::get_trace_linear": cc_get_trace_linear},
                      loops={0: {"invariant": [inv_outer]}, 1: {"invariant": [inv_inner]}},
                      ensures=[("recurrence", ens_fill)], timeout=20))
ASSUMPTIONS.append("_fill_align_table: int32 score arithmetic is assumed not to overflow (no bound on scores is stated by the API); "
                   "sequence codes index the substitution matrix (checked by the caller align_optimal)")

from pyvc.api import bounded_via_script
bounded = bounded_via_script("C08")
ASSUMPTIONS.append("bounded stand-in (labelled, not a proof) for the parts of align_optimal outside the contracts above (Alignment construction, "
                   "table initialisation, Python driver): all pairs of sequences of length <= 3 over {A,C,G} x matrices x penalties x modes vs brute force (bounded/C08.py)")


# ==========================================================================
# _fill_align_table_affine: the three tables satisfy the affine (Gotoh) recurrences
# of the documented model: no transition between the two gap tables, free terminal
# gaps in the last row / column, local floor per table

def setup_fill_affine(code_t):
    def setup(I):
        n1 = sym_int(I, "len1", 0, 2 ** 30)
        n2 = sym_int(I, "len2", 0, 2 ** 30)
        asz = sym_int(I, "alph", 1, 2 ** 16)
        code1 = SymArr("code1", code_t, [n1]).view(memview=True)
        code2 = SymArr("code2", code_t, [n2]).view(memview=True)
        matrix = SymArr("matrix", "int32", [asz, asz], readonly=True).view(memview=True)
        trace_table = SymArr("trace_table", "uint8", [n1 + 1, n2 + 1]).view(memview=True)
        tabs = [SymArr(nm, "int32", [n1 + 1, n2 + 1]).view(memview=True) for nm in ("m_table", "g1_table", "g2_table")]
        go, ge = sym_c(I, "int", "gap_open"), sym_c(I, "int", "gap_ext")
        tp = sym_c(I, "bint", "term_penalty")
        local = sym_c(I, "bint", "local")
        k = z3.Int("k!c")
        I.ctx.assume(z3.ForAll([k], z3.Implies(z3.And(k >= 0, k < n1), z3.And(z3.Select(code1.arr, k) >= 0, z3.Select(code1.arr, k) < asz))))
        I.ctx.assume(z3.ForAll([k], z3.Implies(z3.And(k >= 0, k < n2), z3.And(z3.Select(code2.arr, k) >= 0, z3.Select(code2.arr, k) < asz))))
        g = {"T0": trace_table.arr, "M0": tabs[0].arr, "A0": tabs[1].arr, "B0": tabs[2].arr, "n1": n1, "n2": n2,
             "c1": code1.arr, "c2": code2.arr, "M": matrix.arr, "go": go.term, "ge": ge.term, "tp0": tp.term, "loc": local.term}
        I.ghost["afill"] = g
        return {"args": [code1, code2, matrix, trace_table] + tabs + [go, ge, tp, local], "ghost": g}
    return setup


def acell_ok(g, Mt, A, B, T, r, c):
    """recurrences of cell (r, c), 1 <= r <= n1, 1 <= c <= n2 (A: gap-left table g1, B: gap-top table g2)"""
    tp = z3.Or(g["tp0"] != 0, g["loc"] != 0)
    local = g["loc"] != 0
    sim = sel2(g["M"], z3.Select(g["c1"], r - 1), z3.Select(g["c2"], c - 1))
    mm, am, bm = sel2(Mt, r - 1, c - 1) + sim, sel2(A, r - 1, c - 1) + sim, sel2(B, r - 1, c - 1) + sim
    free1 = z3.And(z3.Not(tp), r == g["n1"])
    free2 = z3.And(z3.Not(tp), c == g["n2"])
    ma, aa = sel2(Mt, r, c - 1) + z3.If(free1, 0, g["go"]), sel2(A, r, c - 1) + z3.If(free1, 0, g["ge"])
    mb, bb = sel2(Mt, r - 1, c) + z3.If(free2, 0, g["go"]), sel2(B, r - 1, c) + z3.If(free2, 0, g["ge"])
    m1, m2, m3 = zmax(mm, am, bm), zmax(ma, aa), zmax(mb, bb)
    k1 = z3.Or(z3.Not(local), m1 > 0)
    k2 = z3.Or(z3.Not(local), m2 > 0)
    k3 = z3.Or(z3.Not(local), m3 > 0)
    bits = bits_sum([(z3.And(k1, mm == m1), 1), (z3.And(k1, am == m1), 2), (z3.And(k1, bm == m1), 4),
                     (z3.And(k2, ma == m2), 8), (z3.And(k2, aa == m2), 16),
                     (z3.And(k3, mb == m3), 32), (z3.And(k3, bb == m3), 64)])
    return z3.And(sel2(Mt, r, c) == z3.If(k1, m1, sel2(g["M0"], r, c)),
                  sel2(A, r, c) == z3.If(k2, m2, sel2(g["A0"], r, c)),
                  sel2(B, r, c) == z3.If(k3, m3, sel2(g["B0"], r, c)),
                  sel2(T, r, c) == bits)


def _atabs(env):
    return [env.lookup(n).arr for n in ("m_table", "g1_table", "g2_table", "trace_table")]


def _aframe(g, Mt, A, B, T, r, c):
    return z3.And(sel2(Mt, r, c) == sel2(g["M0"], r, c), sel2(A, r, c) == sel2(g["A0"], r, c),
                  sel2(B, r, c) == sel2(g["B0"], r, c), sel2(T, r, c) == sel2(g["T0"], r, c))


def ainv_outer(I, env):
    g = I.ghost["afill"]
    Mt, A, B, T = _atabs(env)
    i = zint(I.unC(env.lookup("i")))
    r, c = z3.Ints("r!o c!o")
    done = z3.ForAll([r, c], z3.Implies(z3.And(r >= 1, r < i, c >= 1, c <= g["n2"]), acell_ok(g, Mt, A, B, T, r, c)))
    frame = z3.ForAll([r, c], z3.Implies(z3.Or(r >= i, r <= 0, c <= 0, c > g["n2"]), _aframe(g, Mt, A, B, T, r, c)))
    return z3.And(done, frame)


def ainv_inner(I, env):
    g = I.ghost["afill"]
    Mt, A, B, T = _atabs(env)
    i = zint(I.unC(env.lookup("i")))
    j = zint(I.unC(env.lookup("j")))
    r, c = z3.Ints("r!i c!i")
    done_rows = z3.ForAll([r, c], z3.Implies(z3.And(r >= 1, r < i, c >= 1, c <= g["n2"]), acell_ok(g, Mt, A, B, T, r, c)))
    done_row = z3.ForAll([c], z3.Implies(z3.And(c >= 1, c < j), acell_ok(g, Mt, A, B, T, i, c)))
    frame = z3.ForAll([r, c], z3.Implies(z3.Or(r > i, z3.And(r == i, c >= j), r <= 0, c <= 0, c > g["n2"]), _aframe(g, Mt, A, B, T, r, c)))
    return z3.And(done_rows, done_row, frame, i >= 1, i <= g["n1"])


def ens_fill_affine(I, env):
    g = I.ghost["afill"]
    Mt, A, B, T = (env.vars[n].arr for n in ("m_table", "g1_table", "g2_table", "trace_table"))
    r, c = I.ctx.fresh_int("r"), I.ctx.fresh_int("c")
    return [("recurrences_every_cell", implies(z3.And(r >= 1, r <= g["n1"], c >= 1, c <= g["n2"]), acell_ok(g, Mt, A, B, T, r, c))),
            ("boundary_rows_untouched", implies(z3.Or(r == 0, c == 0), _aframe(g, Mt, A, B, T, r, c)))]


def cc_get_trace_affine(I, f, args, kwargs):
    """call-site use of get_trace_affine's contract (proved above against its body)"""
    ins = [zint(I.unC(x)) for x in args[:7]]
    cells = args[7:]
    mm, lm, tm, ml, ll, mt, tt = ins
    m1, m2, m3 = zmax(mm, lm, tm), zmax(ml, ll), zmax(mt, tt)
    for cell, m, nm in zip(cells, (m1, m2, m3), ("max_match", "max_gap_left", "max_gap_top")):
        v = I.ctx.fresh_cv("int32", nm)
        I.ctx.assume(v.term == m)
        natives.setitem(I, cell, 0, v, None)
    conds = [(mm == m1, 1), (lm == m1, 2), (tm == m1, 4), (ml == m2, 8), (ll == m2, 16), (mt == m3, 32), (tt == m3, 64)]
    # the returned flag byte as a bit-vector whose bits are the kernel's (proved) bit_* postconditions;
    # bit 7 is clear (no_other_bits)
    bv = z3.BitVec(I.ctx.fresh_name("trace_bits"), 8)
    for b, (cnd, v) in enumerate(conds):
        I.ctx.assume((z3.Extract(b, b, bv) == 1) == cnd)
    I.ctx.assume(z3.Extract(7, 7, bv) == 0)
    return CV("uint8", z3.BV2Int(bv, is_signed=False))


CASES.append(Case(PW + "::_fill_align_table_affine", "CodeType=uint8", setup=setup_fill_affine("uint8"), overflow=False,
                  call_contracts={TT + "::get_trace_affine": cc_get_trace_affine},
                  loops={0: {"invariant": [ainv_outer]}, 1: {"invariant": [ainv_inner]}},
                  ensures=[("recurrence", ens_fill_affine)], timeout=30))
