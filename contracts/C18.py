"""C18 -- small molecules survive MOL/SDF files and the RDKit bridge.

No function of ctab.py / sdf.py / the RDKit interface is proved in this build
(fixed-column string formatting of floats; RDKit C++ objects).  The contracts
are checked at run time in a labelled BOUNDED stand-in (bounded/C18.py)."""
from pyvc.api import bounded_via_script

PROPERTY = "C18"
CASES = []
MIN_OBLIGATIONS = 0
ASSUMPTIONS = ["bounded: molecules of 1..4 atoms over pools of elements, charges -4..4, every BondType, boundary coordinates; V2000 / V3000 / "
               "automatic version; 1000-atom chain; SDF records with six metadata key shapes; RDKit round trip for 1..3 models"]
UNVERIFIED = ["everything in io/mol and interface/rdkit is unproved"]
EXPLANATION = "bounded run-time check of the C18 contracts through the public API; not a proof"
bounded = bounded_via_script("C18")
