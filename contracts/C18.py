"""C18 -- small molecules survive MOL/SDF files and the RDKit bridge.

Only the version predicate of ctab.py is under contract (`_is_v2000_compatible`:
V2000 exactly when both counts fit the three-digit columns); the writers and
readers (fixed-column string formatting of floats) and the RDKit interface
(C++ objects) are not proved.  The property's contracts are checked at run time
in a labelled BOUNDED stand-in (bounded/C18.py)."""
import z3
from pyvc.api import bounded_via_script, Case, sym_int, iff
from pyvc.core import zbool

PROPERTY = "C18"
CTAB = "structure/io/mol/ctab.py"


def _setup_counts(I):
    na, nb = sym_int(I, "n_atoms", 0, 2 ** 40), sym_int(I, "n_bonds", 0, 2 ** 40)
    I.ghost["counts"] = (na, nb)
    return {"args": [na, nb], "ghost": {"n_atoms": na, "n_bonds": nb}}


def _ens_counts(I, env):
    na, nb = I.ghost["counts"]
    res = env.vars["result"]
    fits = z3.And(na <= 999, nb <= 999)          # what a 3-character count column can hold
    return [("v2000_iff_counts_fit_three_digits", iff(res if isinstance(res, bool) else zbool(res), fits))]


CASES = [Case(CTAB + "::_is_v2000_compatible", "", setup=_setup_counts, ensures=[("version", _ens_counts)], overflow=False)]
MIN_OBLIGATIONS = 1
# the property as a whole is decided by the bounded stand-in: the evidence is written at that level (the
# obligations of the one proved helper are listed in the coverage as well)
EVIDENCE_LEVEL = "exploration"
ASSUMPTIONS = ["bounded: molecules of 1..4 atoms over pools of elements, charges -4..4, every BondType, boundary coordinates; V2000 / V3000 / "
               "automatic version; 1000-atom chain; SDF records with six metadata key shapes; RDKit round trip for 1..3 models"]
UNVERIFIED = ["everything in io/mol and interface/rdkit except the version predicate _is_v2000_compatible is unproved"]
EXPLANATION = "bounded run-time check of the C18 contracts through the public API; not a proof"
bounded = bounded_via_script("C18")
