"""C02 -- a bond list is a set of undirected typed bonds with safe indices.

Functions of structure/bonds.pyx under contract (extracted mechanically from
the Cython text on every run, C integers bit-precise).  The class carries
@cython.boundscheck(False): every memoryview index inside a method is a
memory-safety obligation."""
import z3
from pyvc.api import Case, sym_int, sym_c, sym_array, choice, get_class, implies, iff
from pyvc.core import CV, zint, zbool, simp, Unsupported
from pyvc.heap import Obj, SymArr, Cell
from pyvc import natives

PROPERTY = "C02"
BONDS = "structure/bonds.pyx"

ASSUMPTIONS = [
    "C integer semantics: int32/uint32 two's complement, unsigned arithmetic modular, usual arithmetic conversions",
    "memoryview elements hold values of their declared dtype",
]
UNVERIFIED = [
    "BondList.__init__ (NumPy sort/astype), _remove_redundant_bonds (raw realloc'ed pointer table: outside the extraction subset)",
    "__getitem__, merge, concatenate, get_all_bonds, adjacency_matrix, bond_type_matrix, as_graph, as_set (NumPy vectorised bodies)",
]
OUT_OF_REACH = ["_remove_redundant_bonds / _in_array (raw pointers)"]


# ---- _to_positive_index ---------------------------------------------------

def setup_tpi(I):
    index = sym_c(I, "int32", "index")
    n = sym_c(I, "uint32", "array_length")
    return {"args": [index, n], "ghost": {"n": n.term, "idx": index.term}}


def ens_tpi(I, env):
    r = env.vars["result"].term
    n, idx = env.vars["n"], env.vars["idx"]
    return [("in_range", z3.And(r >= 0, r < n)),
            ("same_atom", r == z3.If(idx < 0, idx + n, idx))]


# ---- _sort ------------------------------------------------------------------

def setup_sort(I):
    from pyvc.interp import Env
    env = Env()
    a, b = sym_c(I, "uint32", "a"), sym_c(I, "uint32", "b")
    env.vars["x"], env.vars["y"] = a, b
    env.ctypes["x"] = env.ctypes["y"] = "uint32"
    return {"args": [Cell(env, "x"), Cell(env, "y")], "ghost": {"a": a.term, "b": b.term, "cells": env}}


def ens_sort(I, env):
    e = env.vars["cells"]
    x, y = e.vars["x"].term, e.vars["y"].term
    a, b = env.vars["a"], env.vars["b"]
    return [("sorted", x <= y), ("same_pair", z3.Or(z3.And(x == a, y == b), z3.And(x == b, y == a)))]


# ---- _invert_index ----------------------------------------------------------

def setup_invert(ctype):
    def setup(I):
        n = sym_int(I, "m", 0, 2 ** 31 - 2)
        arr = SymArr("index_v", ctype, [n]).view(memview=True)
        length = sym_c(I, "uint32", "length")
        return {"args": [arr, length], "ghost": {"m": n, "inp": arr.arr, "L": length.term}}
    return setup


def _eff(v, L):
    """position addressed by index value v (the function is compiled with wraparound(False) and bounds
    checks: a negative value is out of bounds, not counted from the end)"""
    return v


def inv_invert(I, env):
    """loop invariant: out[j] == k iff k < i is the (unique) position with in[k] -> j; else -1"""
    i = zint(I.unC(env.lookup("i")))
    out = env.lookup("inverse_index_v").arr
    inp = env.lookup("index_v").arr
    L = zint(I.unC(env.lookup("length")))
    j, k = z3.Ints("j!q k!q")
    return z3.And(
        z3.ForAll([k], z3.Implies(z3.And(k >= 0, k < i),
                                  z3.And(_eff(z3.Select(inp, k), L) >= 0, _eff(z3.Select(inp, k), L) < L,
                                         z3.Select(out, _eff(z3.Select(inp, k), L)) == k))),
        z3.ForAll([j], z3.Implies(z3.And(j >= 0, j < L),
                                  z3.Or(z3.Select(out, j) == -1,
                                        z3.And(z3.Select(out, j) >= 0, z3.Select(out, j) < i,
                                               _eff(z3.Select(inp, z3.Select(out, j)), L) == j)))))


def ens_invert(I, env):
    res = env.vars["result"]
    out = res.arr
    inp, m, L = env.vars["inp"], env.vars["m"], env.vars["L"]
    k = I.ctx.fresh_int("k")
    j = I.ctx.fresh_int("j")
    return [("inverse_of_input", implies(z3.And(k >= 0, k < m), z3.Select(out, _eff(z3.Select(inp, k), L)) == k)),
            ("others_minus_one", implies(z3.And(j >= 0, j < L, z3.Select(out, j) != -1),
                                         z3.And(z3.Select(out, j) >= 0, z3.Select(out, j) < m,
                                                _eff(z3.Select(inp, z3.Select(out, j)), L) == j))),
            ("length", natives.eq(I, res.shape[0], L))]


def dup_invert(I, env):
    """NotImplementedError exactly for inputs that address one position twice"""
    inp, m, L = env.vars["inp"], env.vars["m"], env.vars["L"]
    k1, k2 = z3.Ints("k1!d k2!d")
    return z3.Exists([k1, k2], z3.And(k1 >= 0, k1 < k2, k2 < m, _eff(z3.Select(inp, k1), L) == _eff(z3.Select(inp, k2), L)))


def oob_invert(I, env):
    """IndexError exactly for inputs with a value outside [0, length)"""
    inp, m, L = env.vars["inp"], env.vars["m"], env.vars["L"]
    k = z3.Int("k!b")
    return z3.Exists([k], z3.And(k >= 0, k < m, z3.Or(z3.Select(inp, k) >= L, z3.Select(inp, k) < 0)))


CASES = [
    Case(BONDS + "::_to_positive_index", setup=setup_tpi,
         raises={"IndexError": "idx < -n or idx >= n"},
         ensures=[("index", ens_tpi)]),
    Case(BONDS + "::_sort", setup=setup_sort, ensures=[("swap", ens_sort)]),
]
for _t in ("int32", "uint32", "int64", "uint8"):
    CASES.append(Case(BONDS + "::_invert_index", f"IndexType={_t}", setup=setup_invert(_t),
                      loops={0: {"invariant": [inv_invert]}},
                      raises={"NotImplementedError": dup_invert, "IndexError": oob_invert},
                      may_raise=("OverflowError",),
                      ensures=[("inverse", ens_invert)]))

MIN_OBLIGATIONS = 10


# ---- BondList methods under the representation invariant ---------------------
#
# RI(self):  _bonds is an (nb, 3) uint32 array of rows (i, j, type) with i <= j < _atom_count
#            and pairwise distinct (i, j); _max_bonds_per_atom >= OCC(a, nb) for every atom a
#            (what __init__ / _remove_redundant_bonds / _get_max_bonds_per_atom establish)
#
# OCC(a, k) = number of occurrences of atom a in columns 0 and 1 of the rows < k
# DEG(a, k) = number of rows < k incident to atom a          (ghost functions, defined by their
#             recursion over the immutable input rows; DEG <= OCC; both monotone in k)

DEG = z3.Function("DEG", z3.IntSort(), z3.IntSort(), z3.IntSort())
OCC = z3.Function("OCC", z3.IntSort(), z3.IntSort(), z3.IntSort())


def row(B, r, c):
    return z3.Select(z3.Select(B, r), c)


def incident(B, r, a):
    return z3.Or(row(B, r, 0) == a, row(B, r, 1) == a)


def partner(B, r, a):
    return z3.If(row(B, r, 0) == a, row(B, r, 1), row(B, r, 0))


def ghost_counts(I, B):
    a, k, k2 = z3.Ints("a!d k!d k2!d")
    A = I.ctx.assume
    A(z3.ForAll([a], DEG(a, 0) == 0))
    A(z3.ForAll([a], OCC(a, 0) == 0))
    A(z3.ForAll([a, k], z3.Implies(k >= 0, DEG(a, k + 1) == DEG(a, k) + z3.If(incident(B, k, a), 1, 0))))
    A(z3.ForAll([a, k], z3.Implies(k >= 0, OCC(a, k + 1) == OCC(a, k) + z3.If(row(B, k, 0) == a, 1, 0) + z3.If(row(B, k, 1) == a, 1, 0))))
    # induction lemmas of the recursion equations
    A(z3.ForAll([a, k, k2], z3.Implies(z3.And(k >= 0, k <= k2), z3.And(DEG(a, k) <= DEG(a, k2), OCC(a, k) <= OCC(a, k2)))))
    A(z3.ForAll([a, k], z3.Implies(k >= 0, z3.And(DEG(a, k) >= 0, DEG(a, k) <= k, DEG(a, k) <= OCC(a, k), OCC(a, k) <= 2 * k))))


def mk_bondlist(I, tag="", max_ok=True):
    cls = get_class(I, BONDS, "BondList")
    n = sym_c(I, "uint32", "atom_count" + tag)
    nb = sym_int(I, "nb" + tag, 0, 2 ** 31 - 2)
    M = sym_c(I, "uint32", "max_bonds" + tag)
    bonds = SymArr("_bonds" + tag, "uint32", [nb, 3])
    B = bonds.arr
    ghost_counts(I, B)
    a, k, k2 = z3.Ints("a!r k!r k2!r")
    I.ctx.assume(z3.ForAll([k], z3.Implies(z3.And(k >= 0, k < nb),
                                           z3.And(row(B, k, 0) >= 0, row(B, k, 0) <= row(B, k, 1), row(B, k, 1) < n.term,
                                                  row(B, k, 2) >= 0, row(B, k, 2) < len(get_class(I, BONDS, "BondType").members)))))
    I.ctx.assume(z3.ForAll([k, k2], z3.Implies(z3.And(k >= 0, k < k2, k2 < nb),
                                               z3.Or(row(B, k, 0) != row(B, k2, 0), row(B, k, 1) != row(B, k2, 1)))))
    if max_ok:
        I.ctx.assume(z3.ForAll([a], z3.Implies(z3.And(a >= 0, a < n.term), OCC(a, nb) <= M.term)))
    obj = Obj(cls, {"_atom_count": n, "_bonds": bonds, "_max_bonds_per_atom": M})
    g = {"n": n.term, "nb": nb, "M": M.term, "B": B, "self": obj}
    I.ghost["bl" + tag] = g
    return obj, g


def cc_to_positive_index(I, f, args, kwargs):
    """call-site use of _to_positive_index's contract (stated and checked above against its body):
    IndexError unless -n <= index < n, otherwise the index of the same atom counted from the front"""
    idx, n = zint(I.unC(args[0])), zint(I.unC(args[1]))
    if I.ctx.branch(z3.Or(idx < -n, idx >= n)):
        I.throw("IndexError", "index out of range")
    return CV("uint32", simp(z3.If(idx < 0, idx + n, idx)))


CC = {BONDS + "::_to_positive_index": cc_to_positive_index}


# -- get_bonds

def setup_get_bonds(I):
    obj, g = mk_bondlist(I)
    a = sym_c(I, "int32", "atom_index")
    g["a"] = a.term
    g["idx"] = z3.If(a.term < 0, a.term + g["n"], a.term)
    return {"args": [obj, a], "ghost": g}


def inv_get_bonds(I, env):
    g = I.ghost["bl"]
    i = zint(I.unC(env.lookup("i")))
    j = zint(I.unC(env.lookup("j")))
    out, typ = env.lookup("bonds_v").arr, env.lookup("bond_types_v").arr
    B, idx = g["B"], g["idx"]
    k = z3.Int("k!g")
    return z3.And(i >= 0, i <= g["nb"], j == DEG(idx, i),
                  z3.ForAll([k], z3.Implies(z3.And(k >= 0, k < i, incident(B, k, idx)),
                                            z3.And(z3.Select(out, DEG(idx, k)) == partner(B, k, idx),
                                                   z3.Select(typ, DEG(idx, k)) == row(B, k, 2)))))


def ens_get_bonds(I, env):
    g = I.ghost["bl"]
    res = env.vars["result"]
    bonds, types = res[0], res[1]
    B, idx = g["B"], g["idx"]
    k = I.ctx.fresh_int("k")
    return [("count", z3.And(natives.eq(I, bonds.shape[0], DEG(idx, g["nb"])), natives.eq(I, types.shape[0], DEG(idx, g["nb"])))),
            ("partners", implies(z3.And(k >= 0, k < g["nb"], incident(B, k, idx)),
                                 z3.And(z3.Select(bonds.arr, DEG(idx, k)) == partner(B, k, idx),
                                        z3.Select(types.arr, DEG(idx, k)) == row(B, k, 2))))]


CASES.append(Case(BONDS + "::BondList.get_bonds", setup=setup_get_bonds, call_contracts=CC,
                  raises={"IndexError": "a < -n or a >= n"},
                  loops={0: {"invariant": [inv_get_bonds]}},
                  ensures=[("bonds_of_atom", ens_get_bonds)]))


# -- _get_max_bonds_per_atom

def setup_max_bonds(I):
    obj, g = mk_bondlist(I, max_ok=False)
    return {"args": [obj], "ghost": g}


def inv_max_bonds(I, env):
    g = I.ghost["bl"]
    i = zint(I.unC(env.lookup("i")))
    cnt = env.lookup("index_count_v").arr
    a = z3.Int("a!m")
    return z3.And(i >= 0, i <= g["nb"],
                  z3.ForAll([a], z3.Implies(z3.And(a >= 0, a < g["n"]), z3.Select(cnt, a) == OCC(a, i))))


def ens_max_bonds(I, env):
    g = I.ghost["bl"]
    r = zint(I.unC(env.vars["result"]))
    a = I.ctx.fresh_int("a")
    w = z3.Int("w!m")
    return [("bounds_every_atom", implies(z3.And(a >= 0, a < g["n"]), OCC(a, g["nb"]) <= r)),
            ("attained_or_empty", z3.Or(z3.And(g["n"] == 0, r == 0),
                                        z3.Exists([w], z3.And(w >= 0, w < g["n"], OCC(w, g["nb"]) == r))))]


CASES.append(Case(BONDS + "::BondList._get_max_bonds_per_atom", setup=setup_max_bonds,
                  loops={0: {"invariant": [inv_max_bonds]}},
                  ensures=[("max_occurrences", ens_max_bonds)]))


# -- add_bond

def cc_get_max(I, f, args, kwargs):
    """call-site use of _get_max_bonds_per_atom's contract (proved above): the result bounds the
    occurrences of every atom in the *current* bond array (ghost OCC2 over that array)"""
    self = args[0]
    arr = self.attrs["_bonds"]
    n = zint(I.unC(self.attrs["_atom_count"]))
    nb = zint(arr.shape[0])
    B2 = arr.arr
    OCC2 = z3.Function(I.ctx.fresh_name("OCC2"), z3.IntSort(), z3.IntSort(), z3.IntSort())
    a, k = z3.Ints("a!o k!o")
    I.ctx.assume(z3.ForAll([a], OCC2(a, 0) == 0))
    I.ctx.assume(z3.ForAll([a, k], z3.Implies(k >= 0, OCC2(a, k + 1) == OCC2(a, k) + z3.If(row(B2, k, 0) == a, 1, 0) + z3.If(row(B2, k, 1) == a, 1, 0))))
    r = I.ctx.fresh_cv("uint32", "max_bonds_new")
    I.ctx.assume(z3.ForAll([a], z3.Implies(z3.And(a >= 0, a < n), OCC2(a, nb) <= r.term)))
    I.ghost["recomputed_for"] = (B2, nb, r.term)
    return r


def setup_add_bond(I):
    obj, g = mk_bondlist(I)
    a1, a2 = sym_c(I, "int32", "atom_index1"), sym_c(I, "int32", "atom_index2")
    t = sym_int(I, "bond_type", -3, 300)
    n = g["n"]
    p1 = z3.If(a1.term < 0, a1.term + n, a1.term)
    p2 = z3.If(a2.term < 0, a2.term + n, a2.term)
    g.update({"a1": a1.term, "a2": a2.term, "t": t, "x": z3.If(p1 <= p2, p1, p2), "y": z3.If(p1 <= p2, p2, p1),
              "n_types": len(get_class(I, BONDS, "BondType").members)})
    k = z3.Int("k!a")
    g["found"] = z3.Exists([k], z3.And(k >= 0, k < g["nb"], row(g["B"], k, 0) == g["x"], row(g["B"], k, 1) == g["y"]))
    return {"args": [obj, a1, a2, t], "ghost": g}


def inv_add_bond(I, env):
    g = I.ghost["bl"]
    i = zint(I.unC(env.lookup("i")))
    B = g["B"]
    cur = g["self"].attrs["_bonds"].arr
    k = z3.Int("k!b")
    return z3.And(i >= 0, i <= g["nb"], cur == B, z3.Not(zbool(I.unC(env.lookup("in_list")))),
                  z3.ForAll([k], z3.Implies(z3.And(k >= 0, k < i),
                                            z3.Not(z3.And(row(B, k, 0) == g["x"], row(B, k, 1) == g["y"])))))


def ens_add_bond(I, env):
    g = I.ghost["bl"]
    self = g["self"]
    arr = self.attrs["_bonds"]
    B, nb, x, y, t = g["B"], g["nb"], g["x"], g["y"], g["t"]
    B2 = arr.arr
    nb2 = zint(arr.shape[0])
    M2 = zint(I.unC(self.attrs["_max_bonds_per_atom"]))
    k = I.ctx.fresh_int("k")
    w = z3.Int("w!a")
    match = lambda r: z3.And(row(B, r, 0) == x, row(B, r, 1) == y)
    out = [("updated_if_present",
            implies(z3.And(k >= 0, k < nb, match(k)),
                    z3.And(nb2 == nb, row(B2, k, 0) == x, row(B2, k, 1) == y, row(B2, k, 2) == t, M2 == g["M"]))),
           ("other_rows_unchanged",
            implies(z3.And(k >= 0, k < nb, z3.Not(match(k))),
                    z3.And(row(B2, k, 0) == row(B, k, 0), row(B2, k, 1) == row(B, k, 1), row(B2, k, 2) == row(B, k, 2)))),
           ("appended_if_absent",
            z3.Or(g["found"], z3.And(nb2 == nb + 1, row(B2, nb, 0) == x, row(B2, nb, 1) == y, row(B2, nb, 2) == t))),
           ("length", z3.Or(nb2 == nb, nb2 == nb + 1)),
           ("atom_count_unchanged", zint(I.unC(self.attrs["_atom_count"])) == g["n"])]
    rec = I.ghost.get("recomputed_for")
    if rec is not None:
        # the cached maximum was recomputed for the array the list now holds
        out.append(("max_recomputed_after_append", z3.And(rec[0] == B2, rec[1] == nb2, rec[2] == M2)))
    else:
        out.append(("max_kept_only_without_append", nb2 == nb))
    return out


CC_ADD = dict(CC)
CC_ADD[BONDS + "::BondList._get_max_bonds_per_atom"] = cc_get_max
CASES.append(Case(BONDS + "::BondList.add_bond", setup=setup_add_bond, call_contracts=CC_ADD,
                  raises={"ValueError": "t >= n_types",
                          "IndexError": "t < n_types and (a1 < -n or a1 >= n or a2 < -n or a2 >= n)"},
                  may_raise=("OverflowError",),
                  loops={0: {"invariant": [inv_add_bond]}},
                  ensures=[("mapping_updated", ens_add_bond)]))


# -- remove_bond

def setup_remove_bond(I):
    obj, g = mk_bondlist(I)
    a1, a2 = sym_c(I, "int32", "atom_index1"), sym_c(I, "int32", "atom_index2")
    n = g["n"]
    p1 = z3.If(a1.term < 0, a1.term + n, a1.term)
    p2 = z3.If(a2.term < 0, a2.term + n, a2.term)
    g.update({"a1": a1.term, "a2": a2.term, "x": z3.If(p1 <= p2, p1, p2), "y": z3.If(p1 <= p2, p2, p1)})
    return {"args": [obj, a1, a2], "ghost": g}


def inv_remove_bond(I, env):
    """rows before i: at most one matched (then it was deleted: the list holds B without that row)"""
    g = I.ghost["bl"]
    i = zint(I.unC(env.lookup("i")))
    B, nb, x, y = g["B"], g["nb"], g["x"], g["y"]
    arr = g["self"].attrs["_bonds"]
    cur, nb2 = arr.arr, zint(arr.shape[0])
    k, q = z3.Ints("k!r q!r")
    match = lambda r: z3.And(row(B, r, 0) == x, row(B, r, 1) == y)
    none_before = z3.ForAll([k], z3.Implies(z3.And(k >= 0, k < i), z3.Not(match(k))))
    w = z3.Int("w!r")
    one_before = z3.Exists([w], z3.And(w >= 0, w < i, match(w), nb2 == nb - 1,
                                       z3.ForAll([q], z3.Implies(z3.And(q >= 0, q < nb - 1),
                                                                 z3.Select(cur, q) == z3.If(q < w, z3.Select(B, q), z3.Select(B, q + 1))))))
    return z3.And(i >= 0, i <= nb, env.lookup("all_bonds_v").arr == B,
                  z3.Or(z3.And(none_before, cur == B, nb2 == nb), one_before))


def ens_remove_bond(I, env):
    g = I.ghost["bl"]
    B, nb, x, y = g["B"], g["nb"], g["x"], g["y"]
    arr = g["self"].attrs["_bonds"]
    B2, nb2 = arr.arr, zint(arr.shape[0])
    k = I.ctx.fresh_int("k")
    w, q = z3.Ints("w!e q!e")
    match = lambda r: z3.And(row(B, r, 0) == x, row(B, r, 1) == y)
    absent = z3.ForAll([w], z3.Implies(z3.And(w >= 0, w < nb), z3.Not(match(w))))
    return [("unchanged_if_absent", implies(absent, z3.And(nb2 == nb, B2 == B))),
            ("removed_if_present", implies(z3.And(k >= 0, k < nb, match(k)),
                                           z3.And(nb2 == nb - 1,
                                                  z3.ForAll([q], z3.Implies(z3.And(q >= 0, q < nb - 1),
                                                                            z3.Select(B2, q) == z3.If(q < k, z3.Select(B, q), z3.Select(B, q + 1))))))),
            ("cache_and_count_unchanged", z3.And(zint(I.unC(g["self"].attrs["_max_bonds_per_atom"])) == g["M"],
                                                 zint(I.unC(g["self"].attrs["_atom_count"])) == g["n"]))]


CASES.append(Case(BONDS + "::BondList.remove_bond", setup=setup_remove_bond, call_contracts=CC,
                  raises={"IndexError": "a1 < -n or a1 >= n or a2 < -n or a2 >= n"},
                  loops={0: {"invariant": [inv_remove_bond], "modifies": ["self._bonds"]}},
                  ensures=[("mapping_without_pair", ens_remove_bond)]))


# -- remove_bonds_to

def setup_remove_to(I):
    obj, g = mk_bondlist(I)
    a = sym_c(I, "int32", "atom_index")
    g["a"] = a.term
    g["idx"] = z3.If(a.term < 0, a.term + g["n"], a.term)
    return {"args": [obj, a], "ghost": g}


def inv_remove_to(I, env):
    g = I.ghost["bl"]
    i = zint(I.unC(env.lookup("i")))
    mask = env.lookup("mask_v").arr
    B, idx = g["B"], g["idx"]
    k = z3.Int("k!t")
    return z3.And(i >= 0, i <= g["nb"], g["self"].attrs["_bonds"].arr == B,
                  z3.ForAll([k], z3.Implies(z3.And(k >= 0, k < g["nb"]),
                                            z3.Select(mask, k) == z3.If(z3.And(k < i, incident(B, k, idx)), 0, 1))))


def ens_remove_to(I, env):
    """the list holds exactly the rows not incident to the atom, in their order (RANK: library
    contract of boolean-mask indexing; the mask is characterised by the loop invariant)"""
    g = I.ghost["bl"]
    arr = g["self"].attrs["_bonds"]
    B, nb, idx = g["B"], g["nb"], g["idx"]
    rank = getattr(arr, "rank", None)
    if rank is None:
        return [("result_is_a_mask_selection", False)]
    src, mask = arr.rank_of
    k = I.ctx.fresh_int("k")
    return [("selection_of_the_old_rows", src.arr == B),
            ("mask_is_not_incident", implies(z3.And(k >= 0, k < nb), (z3.Select(mask.arr, k) != 0) == z3.Not(incident(B, k, idx)))),
            ("kept_rows_in_order", implies(z3.And(k >= 0, k < nb, z3.Not(incident(B, k, idx))),
                                           z3.Select(arr.arr, rank(k)) == z3.Select(B, k))),
            ("length", zint(arr.shape[0]) == rank(nb)),
            ("cache_and_count_unchanged", z3.And(zint(I.unC(g["self"].attrs["_max_bonds_per_atom"])) == g["M"],
                                                 zint(I.unC(g["self"].attrs["_atom_count"])) == g["n"]))]


CASES.append(Case(BONDS + "::BondList.remove_bonds_to", setup=setup_remove_to, call_contracts=CC,
                  raises={"IndexError": "a < -n or a >= n"},
                  loops={0: {"invariant": [inv_remove_to]}},
                  ensures=[("rows_not_incident", ens_remove_to)]))


# -- remove_bonds (nested loops over both lists)

def setup_remove_bonds(I):
    obj, g = mk_bondlist(I)
    other, g2 = mk_bondlist(I, tag="2")
    g["R"], g["nr"] = g2["B"], g2["nb"]
    return {"args": [obj, other], "ghost": g}


def _listed(g, k, upto):
    """row k of the list matches one of the first `upto` rows of the argument"""
    q = z3.Int("q!l")
    return z3.Exists([q], z3.And(q >= 0, q < upto, row(g["R"], q, 0) == row(g["B"], k, 0), row(g["R"], q, 1) == row(g["B"], k, 1)))


def inv_remove_bonds_outer(I, env):
    g = I.ghost["bl"]
    i = zint(I.unC(env.lookup("i")))
    mask = env.lookup("mask_v").arr
    k = z3.Int("k!u")
    return z3.And(i >= 0, i <= g["nb"], g["self"].attrs["_bonds"].arr == g["B"],
                  z3.ForAll([k], z3.Implies(z3.And(k >= 0, k < g["nb"]),
                                            z3.Select(mask, k) == z3.If(z3.And(k < i, _listed(g, k, g["nr"])), 0, 1))))


def inv_remove_bonds_inner(I, env):
    g = I.ghost["bl"]
    i = zint(I.unC(env.lookup("i")))
    j = zint(I.unC(env.lookup("j")))
    mask = env.lookup("mask_v").arr
    k = z3.Int("k!v")
    return z3.And(i >= 0, i < g["nb"], j >= 0, j <= g["nr"], g["self"].attrs["_bonds"].arr == g["B"],
                  z3.Select(mask, i) == z3.If(_listed(g, i, j), 0, 1),
                  z3.ForAll([k], z3.Implies(z3.And(k >= 0, k < g["nb"], k != i),
                                            z3.Select(mask, k) == z3.If(z3.And(k < i, _listed(g, k, g["nr"])), 0, 1))))


def ens_remove_bonds(I, env):
    g = I.ghost["bl"]
    arr = g["self"].attrs["_bonds"]
    B, nb = g["B"], g["nb"]
    rank = getattr(arr, "rank", None)
    if rank is None:
        return [("result_is_a_mask_selection", False)]
    src, mask = arr.rank_of
    k = I.ctx.fresh_int("k")
    return [("selection_of_the_old_rows", src.arr == B),
            ("mask_is_not_listed", implies(z3.And(k >= 0, k < nb), (z3.Select(mask.arr, k) != 0) == z3.Not(_listed(g, k, g["nr"])))),
            ("kept_rows_in_order", implies(z3.And(k >= 0, k < nb, z3.Not(_listed(g, k, g["nr"]))),
                                           z3.Select(arr.arr, rank(k)) == z3.Select(B, k))),
            ("length", zint(arr.shape[0]) == rank(nb))]


CASES.append(Case(BONDS + "::BondList.remove_bonds", setup=setup_remove_bonds,
                  loops={0: {"invariant": [inv_remove_bonds_outer]}, 1: {"invariant": [inv_remove_bonds_inner]}},
                  ensures=[("rows_not_listed", ens_remove_bonds)]))


# -- __contains__

def setup_contains(I):
    obj, g = mk_bondlist(I)
    x, y = sym_int(I, "item0", 0, 2 ** 32 - 1), sym_int(I, "item1", 0, 2 ** 32 - 1)
    g["lo"], g["hi"] = z3.If(x <= y, x, y), z3.If(x <= y, y, x)
    return {"args": [obj, (x, y)], "ghost": g}


def inv_contains(I, env):
    g = I.ghost["bl"]
    i = zint(I.unC(env.lookup("i")))
    k = z3.Int("k!c")
    return z3.And(i >= 0, i <= g["nb"],
                  z3.ForAll([k], z3.Implies(z3.And(k >= 0, k < i),
                                            z3.Not(z3.And(row(g["B"], k, 0) == g["lo"], row(g["B"], k, 1) == g["hi"])))))


def ens_contains(I, env):
    g = I.ghost["bl"]
    r = zbool(I.unC(env.vars["result"]))
    k = z3.Int("k!e")
    present = z3.Exists([k], z3.And(k >= 0, k < g["nb"], row(g["B"], k, 0) == g["lo"], row(g["B"], k, 1) == g["hi"]))
    return [("membership", r == present)]


CASES.append(Case(BONDS + "::BondList.__contains__", setup=setup_contains,
                  loops={0: {"invariant": [inv_contains]}},
                  ensures=[("pair_in_mapping", ens_contains)]))



# -- get_all_bonds

def setup_all_bonds(I):
    obj, g = mk_bondlist(I)
    I.ctx.assume(g["n"] <= 2 ** 31 - 1)       # atom indices are returned as int32
    return {"args": [obj], "ghost": g}


def inv_all_bonds(I, env):
    g = I.ghost["bl"]
    i = zint(I.unC(env.lookup("i")))
    out, typ, lens = env.lookup("bonds_v").arr, env.lookup("bond_types_v").arr, env.lookup("lengths_v").arr
    B, n = g["B"], g["n"]
    a, k, c = z3.Ints("a!l k!l c!l")
    x, y = row(B, k, 0), row(B, k, 1)
    sel2 = lambda A, r, q: z3.Select(z3.Select(A, r), q)
    return z3.And(i >= 0, i <= g["nb"],
                  z3.ForAll([a], z3.Implies(z3.And(a >= 0, a < n), z3.Select(lens, a) == OCC(a, i))),
                  z3.ForAll([k], z3.Implies(z3.And(k >= 0, k < i),
                                            z3.And(sel2(out, x, OCC(x, k)) == y, sel2(typ, x, OCC(x, k)) == row(B, k, 2),
                                                   z3.Implies(x != y, z3.And(sel2(out, y, OCC(y, k)) == x,
                                                                             sel2(typ, y, OCC(y, k)) == row(B, k, 2)))))),
                  # slots beyond the filled part still hold the padding value
                  z3.ForAll([a, c], z3.Implies(z3.And(a >= 0, a < n, c >= OCC(a, i), c < g["M"]),
                                               z3.And(sel2(out, a, c) == -1, sel2(typ, a, c) == -1))))


def ens_all_bonds(I, env):
    g = I.ghost["bl"]
    res = env.vars["result"]
    out, typ = res[0], res[1]
    B, n, nb = g["B"], g["n"], g["nb"]
    k, a, c = I.ctx.fresh_int("k"), I.ctx.fresh_int("a"), I.ctx.fresh_int("c")
    x, y = row(B, k, 0), row(B, k, 1)
    sel2 = lambda A, r, q: z3.Select(z3.Select(A, r), q)
    return [("shape", z3.And(natives.eq(I, out.shape[0], n), natives.eq(I, out.shape[1], g["M"]),
                             natives.eq(I, typ.shape[0], n), natives.eq(I, typ.shape[1], g["M"]))),
            ("every_bond_listed_for_both_atoms",
             implies(z3.And(k >= 0, k < nb),
                     z3.And(sel2(out.arr, x, OCC(x, k)) == y, sel2(typ.arr, x, OCC(x, k)) == row(B, k, 2),
                            z3.Implies(x != y, z3.And(sel2(out.arr, y, OCC(y, k)) == x, sel2(typ.arr, y, OCC(y, k)) == row(B, k, 2)))))),
            ("padding_after_the_neighbours",
             implies(z3.And(a >= 0, a < n, c >= OCC(a, nb), c < g["M"]),
                     z3.And(sel2(out.arr, a, c) == -1, sel2(typ.arr, a, c) == -1)))]


CASES.append(Case(BONDS + "::BondList.get_all_bonds", setup=setup_all_bonds,
                  loops={0: {"invariant": [inv_all_bonds]}},
                  ensures=[("neighbour_table", ens_all_bonds)], timeout=30))

from pyvc.api import bounded_via_script
bounded = bounded_via_script("C02")
ASSUMPTIONS.append("bounded stand-in (labelled, not a proof) for the NumPy-vectorised methods that are not under contract (__init__, merge, concatenate, "
                   "__getitem__, offset_indices, matrices, graph, equality) and for whole histories: seeded random operation sequences on the compiled "
                   "BondList vs a reference mapping, invalid indices probed in child processes (bounded/C02.py)")
