"""C02 -- a bond list is a set of undirected typed bonds with safe indices.

Functions of structure/bonds.pyx under contract (extracted mechanically from
the Cython text on every run, C integers bit-precise).  The class carries
@cython.boundscheck(False): every memoryview index inside a method is a
memory-safety obligation."""
import z3
from pyvc.api import Case, sym_int, sym_c, sym_array, choice, get_class, implies, iff
from pyvc.core import CV, zint, zbool, simp, Unsupported
from pyvc.heap import Obj, SymArr, Cell
from pyvc import natives

PROPERTY = "C02"
BONDS = "structure/bonds.pyx"

ASSUMPTIONS = [
    "C integer semantics: int32/uint32 two's complement, unsigned arithmetic modular, usual arithmetic conversions",
    "memoryview elements hold values of their declared dtype",
]
UNVERIFIED = [
    "BondList.__init__ (NumPy sort/astype), _remove_redundant_bonds (raw realloc'ed pointer table: outside the extraction subset)",
    "__getitem__, merge, concatenate, get_all_bonds, adjacency_matrix, bond_type_matrix, as_graph, as_set (NumPy vectorised bodies)",
]
OUT_OF_REACH = ["_remove_redundant_bonds / _in_array (raw pointers)"]


# ---- _to_positive_index ---------------------------------------------------

def setup_tpi(I):
    index = sym_c(I, "int32", "index")
    n = sym_c(I, "uint32", "array_length")
    return {"args": [index, n], "ghost": {"n": n.term, "idx": index.term}}


def ens_tpi(I, env):
    r = env.vars["result"].term
    n, idx = env.vars["n"], env.vars["idx"]
    return [("in_range", z3.And(r >= 0, r < n)),
            ("same_atom", r == z3.If(idx < 0, idx + n, idx))]


# ---- _sort ------------------------------------------------------------------

def setup_sort(I):
    from pyvc.interp import Env
    env = Env()
    a, b = sym_c(I, "uint32", "a"), sym_c(I, "uint32", "b")
    env.vars["x"], env.vars["y"] = a, b
    env.ctypes["x"] = env.ctypes["y"] = "uint32"
    return {"args": [Cell(env, "x"), Cell(env, "y")], "ghost": {"a": a.term, "b": b.term, "cells": env}}


def ens_sort(I, env):
    e = env.vars["cells"]
    x, y = e.vars["x"].term, e.vars["y"].term
    a, b = env.vars["a"], env.vars["b"]
    return [("sorted", x <= y), ("same_pair", z3.Or(z3.And(x == a, y == b), z3.And(x == b, y == a)))]


# ---- _invert_index ----------------------------------------------------------

def setup_invert(ctype):
    def setup(I):
        n = sym_int(I, "m", 0, 2 ** 31 - 2)
        arr = SymArr("index_v", ctype, [n]).view(memview=True)
        length = sym_c(I, "uint32", "length")
        return {"args": [arr, length], "ghost": {"m": n, "inp": arr.arr, "L": length.term}}
    return setup


def inv_invert(I, env):
    """loop invariant: out[j] == k iff k < i is the (unique) position with in[k] == j; else -1"""
    i = zint(I.unC(env.lookup("i")))
    out = env.lookup("inverse_index_v").arr
    inp = I.ghost_inp if hasattr(I, "ghost_inp") else None
    inp = env.lookup("index_v").arr
    L = zint(I.unC(env.lookup("length")))
    j, k = z3.Ints("j!q k!q")
    return z3.And(
        z3.ForAll([k], z3.Implies(z3.And(k >= 0, k < i),
                                  z3.And(z3.Select(inp, k) >= 0, z3.Select(inp, k) < L,
                                         z3.Select(out, z3.Select(inp, k)) == k))),
        z3.ForAll([j], z3.Implies(z3.And(j >= 0, j < L),
                                  z3.Or(z3.Select(out, j) == -1,
                                        z3.And(z3.Select(out, j) >= 0, z3.Select(out, j) < i,
                                               z3.Select(inp, z3.Select(out, j)) == j)))))


def ens_invert(I, env):
    res = env.vars["result"]
    out = res.arr
    inp, m, L = env.vars["inp"], env.vars["m"], env.vars["L"]
    k = I.ctx.fresh_int("k")
    j = I.ctx.fresh_int("j")
    return [("inverse_of_input", implies(z3.And(k >= 0, k < m), z3.Select(out, z3.Select(inp, k)) == k)),
            ("others_minus_one", implies(z3.And(j >= 0, j < L, z3.Select(out, j) != -1),
                                         z3.And(z3.Select(out, j) >= 0, z3.Select(out, j) < m,
                                                z3.Select(inp, z3.Select(out, j)) == j))),
            ("length", natives.eq(I, res.shape[0], L))]


CASES = [
    Case(BONDS + "::_to_positive_index", setup=setup_tpi,
         raises={"IndexError": "idx < -n or idx >= n"},
         ensures=[("index", ens_tpi)]),
    Case(BONDS + "::_sort", setup=setup_sort, ensures=[("swap", ens_sort)]),
]
for _t in ("int32", "uint32", "int64", "uint8"):
    CASES.append(Case(BONDS + "::_invert_index", f"IndexType={_t}", setup=setup_invert(_t),
                      loops={0: {"invariant": [inv_invert]}},
                      may_raise=("NotImplementedError", "IndexError", "OverflowError"),
                      ensures=[("inverse", ens_invert)]))

MIN_OBLIGATIONS = 10
