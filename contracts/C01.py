"""C01 -- atom arrays and stacks stay coherent under any sequence of operations.

No function of atoms.py is proved in this build (its bodies are NumPy index
manipulations on object state; the selection theory planned in DESIGN.md is
not built).  The contracts -- representation invariant (annotation / coord /
box / bonds describe the same n atoms and m models) and refinement of a
list-of-atoms model by every operation -- are attached as run-time checks to
the real public API in a labelled BOUNDED stand-in (bounded/C01.py)."""
from pyvc.api import bounded_via_script

PROPERTY = "C01"
CASES = []
MIN_OBLIGATIONS = 0
ASSUMPTIONS = ["bounded: histories of length <= 2 (quick) / 3 (thorough) from one 4-atom AtomArray and one 4-atom x 2-model "
               "AtomArrayStack with bonds, box and an extra annotation; index objects from a fixed pool"]
UNVERIFIED = ["everything in atoms.py is unproved; stack(), repeat(), from_template(), array() are not exercised by the stand-in"]
EXPLANATION = "bounded run-time check of the C01 contracts through the public API; not a proof"
bounded = bounded_via_script("C01")
