"""C07 -- PDB files round-trip structures and never emit shifted columns.

Under contract here: hybrid-36 (structure/io/pdb/hybrid36.pyx, extracted
mechanically from the Cython source on every run) at the two widths the PDB
writer uses (4: residue numbers, 5: atom ids), and the column-width check
number_of_integer_digits (structure/io/util.py)."""
import z3
from pyvc.api import Case, sym_int, sym_str, sym_c, choice, get_class, implies, iff
from pyvc.core import CV, zint, zbool, simp, Unsupported
from pyvc import natives
from pyvc.run import resolve_target

PROPERTY = "C07"
H36 = "structure/io/pdb/hybrid36.pyx"

ASSUMPTIONS = [
    "hybrid-36 is verified at the concrete widths 0..5 (4 and 5 are the ones PDBFile uses; loops unroll: complete for all 2^32 inputs); larger widths are not claimed",
    "C `int` is 32-bit two's complement, `unsigned int` 32-bit; Cython's cpow(True) power of C integers is exact integer power in the result type",
    "str(int) / int(str) follow the strlib contracts (SMT str.from_int / str.to_int; int() accepts [ws][sign]digits[ws])",
]
UNVERIFIED = [
    "PDBFile.set_structure / get_structure column assembly and parsing (NumPy string formatting)",
    "_get_atom_record_indices_for_model, _get_model_length, _index_models_and_atoms, _set_bonds/_get_bonds",
    "CRYST1 trigonometry (unitcell_from_vectors)",
]


def max36(L):
    return 10 ** L - 1 + 2 * (26 * 36 ** (L - 1))


def setup_encode(L):
    def setup(I):
        number = sym_c(I, "int", "number")
        return {"args": [number, CV("unsigned int", L)], "ghost": {"L": L, "maxn": max36(L)}}
    return setup


def ens_encode(I, env):
    """length, alphabet and the inverse lemma decode(encode(n)) == n, the
    latter by running the real decoder on the symbolic result"""
    res = env.vars["result"]
    n = env.vars["number"].term
    L = env.vars["L"]
    out = []
    zs = natives.zstr(res)
    out.append(("length_le_width", z3.Length(zs) <= L))
    out.append(("full_width_beyond_decimal", implies(n >= 10 ** L, z3.Length(zs) == L)))
    dec, _, _ = resolve_target(I, H36 + "::decode_hybrid36")
    back = I.call(dec, [res], {})
    out.append(("decode_inverse", natives.eq(I, I.unC(back), n)))
    return out


def setup_decode(L):
    def setup(I):
        s = sym_str(I, "string")
        I.ctx.assume(z3.Length(s) == L)
        return {"args": [s], "ghost": {"L": L}}
    return setup


def setup_nid(I):
    return {"args": [sym_int(I, "number")]}


CASES = []
CASES.append(Case(H36 + "::encode_hybrid36", "width=0", setup=setup_encode(0),
                  raises={"ValueError": "True"}, ensures=[("never_returns", lambda I, env: False)]))
for _L in (1, 2, 3, 4, 5):
    CASES.append(Case(H36 + "::encode_hybrid36", f"width={_L}", setup=setup_encode(_L),
                      raises={"ValueError": "number < 0 or number > maxn"},
                      ensures=[("h36", ens_encode)], timeout=30))
CASES.append(Case(H36 + "::max_hybrid36_number", "widths 1..6",
                  setup=lambda I: {"args": [choice(I, [1, 2, 3, 4, 5, 6])]},
                  ensures=[("value", lambda I, env: natives.eq(I, env.vars["result"], max36(env.vars["length"])))]))

MIN_OBLIGATIONS = 10


from pyvc.api import bounded_via_script
bounded = bounded_via_script("C07")
ASSUMPTIONS.append("bounded stand-in (labelled, not a proof): PDB write/read round trip over boundary values of every fixed-width column, "
                   "hybrid-36 id ranges, refused inputs and CONECT on 3 atoms (bounded/C07.py)")
