"""C03 -- symbol encoding is a bijection; sequences behave like their strings.

Under contract in this build: the letter codec of sequence/codec.pyx
(encode_chars / decode_to_chars: 256-entry lookup table with an illegal-code
sentinel, boundscheck off => every index is an obligation) for every
duplicate-free alphabet of at most 255 letters and sequences of any length."""
import z3
from pyvc.api import Case, sym_int, sym_c, implies, iff
from pyvc.core import CV, zint, zbool, simp
from pyvc.heap import SymArr
from pyvc import natives

PROPERTY = "C03"
CODEC = "sequence/codec.pyx"

ASSUMPTIONS = [
    "letter alphabets are duplicate-free and have at most 255 symbols (LetterAlphabet admits printable ASCII only: 94 distinct letters)",
    "memoryview elements hold values of their declared dtype",
]
UNVERIFIED = [
    "Alphabet / LetterAlphabet / AlphabetMapper Python wrappers, Sequence.code setter, NucleotideSequence.complement/translate, "
    "CodonTable radix mapping, KmerAlphabet.fuse and the split() wrapper (NumPy-vectorised bodies: not under contract in this build)",
]


def setup_codec(I):
    n = sym_int(I, "n", 1, 255)
    m = sym_int(I, "m", 0, 2 ** 31 - 2)
    alphabet = SymArr("alphabet", "unsigned char", [n], readonly=True).view(memview=True)
    k, l = z3.Ints("k!a l!a")
    I.ctx.assume(z3.ForAll([k, l], z3.Implies(z3.And(k >= 0, k < n, l >= 0, l < n, k != l),
                                              z3.Select(alphabet.arr, k) != z3.Select(alphabet.arr, l))))
    g = {"n": n, "m": m, "A": alphabet.arr}
    I.ghost["codec"] = g
    return alphabet, n, m, g


def setup_encode(I):
    alphabet, n, m, g = setup_codec(I)
    symbols = SymArr("symbols", "unsigned char", [m], readonly=True).view(memview=True)
    g["X"] = symbols.arr
    return {"args": [alphabet, symbols], "ghost": g}


def in_alphabet(g, s):
    k = z3.Int("k!w")
    return z3.Exists([k], z3.And(k >= 0, k < g["n"], z3.Select(g["A"], k) == s))


def inv_table(I, env):
    g = I.ghost["codec"]
    T = env.lookup("sym_to_code").arr
    i = zint(I.unC(env.lookup("i")))
    s, k = z3.Ints("s!t k!t")
    return z3.And(
        z3.ForAll([k], z3.Implies(z3.And(k >= 0, k < i), z3.Select(T, z3.Select(g["A"], k)) == k)),
        z3.ForAll([s], z3.Implies(z3.And(s >= 0, s < 256),
                                  z3.Or(z3.Select(T, s) == g["n"],
                                        z3.And(z3.Select(T, s) >= 0, z3.Select(T, s) < i,
                                               z3.Select(g["A"], z3.Select(T, s)) == s)))),
        i >= 0, i <= g["n"])


def inv_encode(I, env):
    g = I.ghost["codec"]
    T = env.lookup("sym_to_code").arr
    C = env.lookup("code_view").arr
    i = zint(I.unC(env.lookup("i")))
    s, k, p = z3.Ints("s!e k!e p!e")
    table = z3.And(
        z3.ForAll([k], z3.Implies(z3.And(k >= 0, k < g["n"]), z3.Select(T, z3.Select(g["A"], k)) == k)),
        z3.ForAll([s], z3.Implies(z3.And(s >= 0, s < 256),
                                  z3.Or(z3.Select(T, s) == g["n"],
                                        z3.And(z3.Select(T, s) >= 0, z3.Select(T, s) < g["n"],
                                               z3.Select(g["A"], z3.Select(T, s)) == s)))))
    done = z3.ForAll([p], z3.Implies(z3.And(p >= 0, p < i),
                                     z3.And(z3.Select(C, p) >= 0, z3.Select(C, p) < g["n"],
                                            z3.Select(g["A"], z3.Select(C, p)) == z3.Select(g["X"], p))))
    return z3.And(table, done, i >= 0, i <= g["m"])


def ens_encode(I, env):
    g = I.ghost["codec"]
    res = env.vars["result"]
    C = res.arr
    p = I.ctx.fresh_int("p")
    return [("length", natives.eq(I, res.shape[0], g["m"])),
            ("code_decodes_to_symbol", implies(z3.And(p >= 0, p < g["m"]),
                                               z3.And(z3.Select(C, p) >= 0, z3.Select(C, p) < g["n"],
                                                      z3.Select(g["A"], z3.Select(C, p)) == z3.Select(g["X"], p))))]


def raises_encode(I, env):
    g = I.ghost["codec"]
    p = z3.Int("p!r")
    return z3.Exists([p], z3.And(p >= 0, p < g["m"], z3.Not(in_alphabet(g, z3.Select(g["X"], p)))))


def setup_decode(I):
    alphabet, n, m, g = setup_codec(I)
    code = SymArr("code", "uint8", [m], readonly=True).view(memview=True)
    g["C"] = code.arr
    return {"args": [alphabet, code], "ghost": g}


def inv_decode(I, env):
    g = I.ghost["codec"]
    S = env.lookup("symbols_view").arr
    i = zint(I.unC(env.lookup("i")))
    p = z3.Int("p!d")
    return z3.And(z3.ForAll([p], z3.Implies(z3.And(p >= 0, p < i),
                                            z3.And(z3.Select(g["C"], p) < g["n"],
                                                   z3.Select(S, p) == z3.Select(g["A"], z3.Select(g["C"], p))))),
                  i >= 0, i <= g["m"])


def ens_decode(I, env):
    g = I.ghost["codec"]
    res = env.vars["result"]
    p = I.ctx.fresh_int("p")
    return [("length", natives.eq(I, res.shape[0], g["m"])),
            ("symbol_of_code", implies(z3.And(p >= 0, p < g["m"]),
                                       z3.Select(res.arr, p) == z3.Select(g["A"], z3.Select(g["C"], p))))]


def raises_decode(I, env):
    g = I.ghost["codec"]
    p = z3.Int("p!r")
    return z3.Exists([p], z3.And(p >= 0, p < g["m"], z3.Select(g["C"], p) >= g["n"]))


CASES = [
    Case(CODEC + "::encode_chars", setup=setup_encode,
         loops={0: {"invariant": [inv_table]}, 1: {"invariant": [inv_encode]}},
         raises={"AlphabetError": raises_encode},
         ensures=[("encode", ens_encode)], timeout=20),
    Case(CODEC + "::decode_to_chars", setup=setup_decode,
         loops={0: {"invariant": [inv_decode]}},
         raises={"AlphabetError": raises_decode},
         ensures=[("decode", ens_decode)], timeout=20),
]


# ---- map_sequence_code: codes are sent through the mapping table, one by one ------------------

def setup_map(t_map, t_in):
    def setup(I):
        from pyvc.heap import SymArr
        n_src = sym_int(I, "n_source", 0, 2 ** 20)
        m = sym_int(I, "m", 0, 2 ** 31 - 2)
        m_out = sym_int(I, "m_out", 0, 2 ** 31 - 2)
        mapping = SymArr("mapping", t_map, [n_src], readonly=True).view(memview=True)
        in_code = SymArr("in_code", t_in, [m], readonly=True).view(memview=True)
        out_code = SymArr("out_code", t_map, [m_out]).view(memview=True)
        g = {"n_src": n_src, "m": m, "m_out": m_out, "MAP": mapping.arr, "IN": in_code.arr, "out": out_code}
        I.ghost["map"] = g
        return {"args": [mapping, in_code, out_code], "ghost": g}
    return setup


def inv_map(I, env):
    g = I.ghost["map"]
    i = zint(I.unC(env.lookup("i")))
    O = env.lookup("out_code").arr
    p = z3.Int("p!m")
    return z3.And(i >= 0, i <= g["m"],
                  z3.ForAll([p], z3.Implies(z3.And(p >= 0, p < i),
                                            z3.And(z3.Select(g["IN"], p) < g["n_src"],
                                                   z3.Select(O, p) == z3.Select(g["MAP"], z3.Select(g["IN"], p))))))


def ens_map(I, env):
    g = I.ghost["map"]
    p = I.ctx.fresh_int("p")
    return [("every_code_mapped", implies(z3.And(p >= 0, p < g["m"]),
                                          z3.Select(g["out"].arr, p) == z3.Select(g["MAP"], z3.Select(g["IN"], p))))]


def raises_map_index(I, env):
    g = I.ghost["map"]
    p = z3.Int("p!x")
    return z3.And(g["m"] == g["m_out"], z3.Exists([p], z3.And(p >= 0, p < g["m"], z3.Select(g["IN"], p) >= g["n_src"])))


for _tm, _ti in (("uint8", "uint8"), ("uint16", "uint64"), ("uint8", "uint32")):
    CASES.append(Case(CODEC + "::map_sequence_code", f"CodeType2={_tm},CodeType1={_ti}", setup=setup_map(_tm, _ti),
                      loops={0: {"invariant": [inv_map]}},
                      raises={"ValueError": lambda I, env: I.ghost["map"]["m"] != I.ghost["map"]["m_out"], "IndexError": raises_map_index},
                      ensures=[("mapped", ens_map)], timeout=20))
# k-mer based alphabets: the kernel that decodes a k-mer code into its k base-alphabet codes (contract and cases
# are defined with the other KmerAlphabet kernels in contracts/C10.py; registered here as well because decoding a
# k-mer symbol is this kernel)
from contracts import C10 as _c10
CASES += [_c for _c in _c10.CASES if "KmerAlphabet._split" in _c.name and ("k=3, alphabet of 4" in _c.name or "alphabet of 24" in _c.name)]
ASSUMPTIONS.append("KmerAlphabet._split: concrete (k, alphabet size) pairs (3, 4) and (3, 24); valid k-mer codes are the precondition that split() checks; "
                   "the digits it returns are the unique positional representation, so fuse(split(c)) == c follows by the definition of the positional sum")
MIN_OBLIGATIONS = 15


from pyvc.api import bounded_via_script
bounded = bounded_via_script("C03")
ASSUMPTIONS.append("bounded stand-in (labelled, not a proof): alphabets / sequences / codon tables / ORFs through the public API on enumerated small inputs (bounded/C03.py)")
