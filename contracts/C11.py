"""C11 -- alignments keep valid traces through every conversion; MSAs align the inputs.

No function of alignment.py / cigar.py is proved in this build (NumPy
vectorised bodies).  The contracts -- trace validity, conversions are mutually
inverse, helpers and score() agree with a column-by-column recomputation,
align_multiple returns the inputs -- are checked at run time in a labelled
BOUNDED stand-in (bounded/C11.py)."""
from pyvc.api import bounded_via_script

PROPERTY = "C11"
CASES = []
MIN_OBLIGATIONS = 0
ASSUMPTIONS = ["bounded: every global trace of two sequences of length <= 3 over {A, C}, three staggered 3-row traces, gap penalties "
               "-3 / (-5,-1) / (-2,-2), terminal penalty on/off, four CIGAR option sets, align_multiple on all 3-subsets of 6 sequences"]
UNVERIFIED = ["everything in alignment.py / cigar.py / fasta/convert.py / multiple.pyx is unproved"]
EXPLANATION = "bounded run-time check of the C11 contracts through the public API; not a proof"
bounded = bounded_via_script("C11")
