"""C04 -- a structure survives a CIF / BinaryCIF write-read cycle unchanged.

No function of convert.py / filter.py is proved in this build (table assembly
over NumPy arrays and the component dictionary).  The contract -- the
write-read cycle returns an equal structure, text and binary flavour agree,
model / altloc selection picks exactly the matching rows -- is checked at run
time in a labelled BOUNDED stand-in (bounded/C04.py) with a synthetic
component dictionary supplied through info.set_ccd_path()."""
from pyvc.api import bounded_via_script

PROPERTY = "C04"
CASES = []
MIN_OBLIGATIONS = 0
ASSUMPTIONS = ["bounded: arrays of 2..3 residues (4..8 atoms), stacks of 1..3 models, pools of insertion codes / charges / hetero flags, "
               "optional box, bonds and extra fields; CIF, BinaryCIF and compressed BinaryCIF; synthetic CCD with GLY/ALA/SER/HOH"]
UNVERIFIED = ["everything in pdbx/convert.py, structure/filter.py, info/* is unproved"]
EXPLANATION = "bounded run-time check of the C04 contracts through the public API; not a proof"
bounded = bounded_via_script("C04")
