"""C17 -- residue, chain and molecule segmentation equals per-atom recomputation.

Under contract in this build: the recursive depth-first search
structure/bonds.pyx::_find_connected behind get_molecule_indices /
find_connected -- memory safety, monotone visited mask, closure of the newly
visited atoms under the neighbour table, and a *recursion-depth obligation*
(the function is a C function that recurses once per newly visited atom); and
structure/segments.py::get_segment_starts_for / get_segment_positions /
get_segment_masks (behind get_residue_/get_chain_ starts_for, positions and masks):
for every index the result is the segment the atom lies in (the mask row marks
exactly the atoms of that segment), ValueError exactly when some index names no atom;
and structure/residues.py::get_residue_starts, structure/chains.py::get_chain_starts:
the result is 0, then exactly the atoms at which a residue / chain boundary lies
(ascending), then the number of atoms when the exclusive stop is asked for."""
import z3
from pyvc.api import Case, sym_int, sym_c, implies, iff
from pyvc.core import CV, zint, zbool, simp
from pyvc.heap import SymArr, Opaque
from pyvc import natives

PROPERTY = "C17"
BONDS = "structure/bonds.pyx"
DEPTH_LIMIT = 10000      # frames a C stack can be relied on to hold (8 MiB stack / ~200 B per frame is ~40000)

ASSUMPTIONS = [
    "the neighbour table all_bonds (BondList.get_all_bonds) holds -1 padding or atom indices in [0, n)",
    "recursion depth: a C call stack is assumed to hold at least %d frames of _find_connected and no more is relied on" % DEPTH_LIMIT,
    "only 'every newly visited atom has all its neighbours visited, the root is visited, nothing is unvisited again' is proved; "
    "that nothing outside the component is visited needs graph reachability and is not claimed",
]
UNVERIFIED = [
    "the other functions of segments.py (apply_/spread_segment_wise, segment_iter) and the wrappers in residues.py / "
    "chains.py that pass get_*_starts(add_exclusive_stop=True) on to them: np.repeat, higher-order functions; not under "
    "contract in this build (bounded stand-in only)",
    "get_molecule_indices / get_molecule_masks / molecule_iter drivers, BondList.get_all_bonds",
]


def sel2(a, r, c):
    return z3.Select(z3.Select(a, r), c)


def mk_state(I):
    n = sym_int(I, "n", 1, 2 ** 31 - 2)
    w = sym_int(I, "w", 0, 2 ** 31 - 2)
    mask = SymArr("is_connected_mask", "uint8", [n]).view(memview=True)
    bonds = SymArr("all_bonds", "int32", [n, w], readonly=True).view(memview=True)
    a, j = z3.Ints("a!b j!b")
    I.ctx.assume(z3.ForAll([a, j], z3.Implies(z3.And(a >= 0, a < n, j >= 0, j < w),
                                              z3.Or(sel2(bonds.arr, a, j) == -1,
                                                    z3.And(sel2(bonds.arr, a, j) >= 0, sel2(bonds.arr, a, j) < n)))))
    return n, w, mask, bonds


def post_facts(n, w, B, M0, M1, index):
    a, j = z3.Ints("a!p j!p")
    monotone = z3.ForAll([a], z3.Implies(z3.And(a >= 0, a < n, z3.Select(M0, a) != 0), z3.Select(M1, a) != 0))
    root = z3.Select(M1, index) != 0
    closed = z3.ForAll([a, j], z3.Implies(z3.And(a >= 0, a < n, j >= 0, j < w,
                                                 z3.Select(M1, a) != 0, z3.Select(M0, a) == 0,
                                                 sel2(B, a, j) != -1),
                                          z3.Select(M1, sel2(B, a, j)) != 0))
    return monotone, root, closed


def setup_fc(I):
    n, w, mask, bonds = mk_state(I)
    index = sym_c(I, "int32", "index")
    I.ctx.assume(z3.And(index.term >= 0, index.term < n))
    depth = sym_int(I, "depth", 0, DEPTH_LIMIT)
    g = {"n": n, "w": w, "B": bonds.arr, "M0": mask.arr, "idx": index.term, "depth": depth, "mask": mask}
    I.ghost["fc"] = g
    return {"args": [Opaque("bond_list"), index, mask, bonds], "ghost": g}


def cc_find_connected(I, f, args, kwargs):
    """the function's own contract at the recursive call site"""
    g = I.ghost["fc"]
    bond_list, index, mask, bonds = args
    idx = zint(I.unC(I.convert("int32", index)))
    n, w = g["n"], g["w"]
    I.ctx.oblige(I.obname("recursive_call::requires_index_in_range", getattr(I, "cur_node", None)),
                 z3.And(idx >= 0, idx < n), "call-pre")
    I.ctx.oblige(f"{BONDS}::_find_connected::recursion_depth_bounded",
                 g["depth"] + 1 <= DEPTH_LIMIT, "stack-depth",
                 {"why": "C recursion: one frame per newly visited atom"})
    M0 = mask.arr
    mask.arr = mask.fresh_term()
    M1 = mask.arr
    a = z3.Int("a!r")
    I.ctx.assume(z3.ForAll([a], z3.Implies(z3.And(a >= 0, a < n), z3.And(z3.Select(M1, a) >= 0, z3.Select(M1, a) <= 255))))
    for fct in post_facts(n, w, g["B"], M0, M1, idx):
        I.ctx.assume(fct)
    return None


def inv_fc(I, env):
    g = I.ghost["fc"]
    n, w, B, M0, idx = g["n"], g["w"], g["B"], g["M0"], g["idx"]
    M = env.lookup("is_connected_mask").arr
    j = zint(I.unC(env.lookup("j")))
    a, k = z3.Ints("a!i k!i")
    monotone = z3.ForAll([a], z3.Implies(z3.And(a >= 0, a < n, z3.Select(M0, a) != 0), z3.Select(M, a) != 0))
    closed_others = z3.ForAll([a, k], z3.Implies(z3.And(a >= 0, a < n, k >= 0, k < w, a != idx,
                                                        z3.Select(M, a) != 0, z3.Select(M0, a) == 0,
                                                        sel2(B, a, k) != -1),
                                                 z3.Select(M, sel2(B, a, k)) != 0))
    own = z3.ForAll([k], z3.Implies(z3.And(k >= 0, k < j, sel2(B, idx, k) != -1),
                                    z3.Select(M, sel2(B, idx, k)) != 0))
    return z3.And(monotone, closed_others, own, z3.Select(M, idx) != 0, z3.Select(M0, idx) == 0, j >= 0, j <= w)


def ens_fc(I, env):
    g = I.ghost["fc"]
    M1 = g["mask"].arr
    mono, root, closed = post_facts(g["n"], g["w"], g["B"], g["M0"], M1, g["idx"])
    return [("visited_only_grows", mono), ("root_visited", root), ("new_atoms_closed_under_neighbours", closed)]


CASES = [
    Case(BONDS + "::_find_connected", setup=setup_fc,
         loops={0: {"invariant": [inv_fc]}},
         call_contracts={BONDS + "::_find_connected": cc_find_connected},
         recursive=(BONDS + "::_find_connected",),
         ensures=[("dfs", ens_fc)], timeout=20),
]
MIN_OBLIGATIONS = 60


# ---- segments.py: the segment of a given atom (get_residue_/get_chain_ starts_for, positions) ----------------
SEG = "structure/segments.py"
ASSUMPTIONS.append(
    "get_segment_starts_for / get_segment_positions: `starts` is what get_residue_starts / get_chain_starts(add_exclusive_stop=True) "
    "hand over (int64, starts[0] == 0, strictly ascending, last entry = number of atoms; [0] for an array without atoms); `indices` is "
    "a 1-d int64 array of any values; library contracts (not proved) for np.asarray, slicing, integer array comparison, "
    "ndarray.any, np.where, np.min, np.searchsorted, integer array - 1 and a[integer index array]; a scalar `indices` (0-d) is outside the contract")


def setup_seg(I):
    ns = sym_int(I, "n_starts", 1, 2 ** 31 - 2)
    m = sym_int(I, "n_indices", 0, 2 ** 31 - 2)
    starts = SymArr("starts", "int64", [ns], readonly=True)
    indices = SymArr("indices", "int64", [m], readonly=True)
    k = z3.Int("k!r")
    S, X = starts.arr, indices.arr
    I.ctx.assume(z3.Select(S, 0) == 0)
    # strictly ascending, stated pairwise (the solver does no induction from the adjacent form)
    k2 = z3.Int("k2!r")
    I.ctx.assume(z3.ForAll([k, k2], z3.Implies(z3.And(k >= 0, k < k2, k2 < ns), z3.Select(S, k) < z3.Select(S, k2))))
    I.ctx.assume(z3.Select(S, ns - 1) <= 2 ** 31 - 2)
    I.ctx.assume(z3.ForAll([k], z3.Implies(z3.And(k >= 0, k < m), z3.And(z3.Select(X, k) >= -2 ** 63, z3.Select(X, k) <= 2 ** 63 - 1))))
    length = z3.Select(S, ns - 1)
    g = {"ns": ns, "m": m, "S": S, "X": X, "length": length,
         # some index names no atom of the array
         "no_such_atom": z3.Exists([k], z3.And(k >= 0, k < m, z3.Or(z3.Select(X, k) < 0, z3.Select(X, k) >= length)))}
    I.ghost["seg"] = g
    return {"args": [starts, indices], "ghost": g}


def ens_positions(I, env):
    g = I.ghost["seg"]
    res = env.vars["result"]
    k = I.ctx.fresh_int("k")
    p = z3.Select(res.arr, k)
    x = z3.Select(g["X"], k)
    return [("one_position_per_index", natives.eq(I, res.shape[0], g["m"])),
            ("position_names_a_segment", implies(z3.And(k >= 0, k < g["m"]), z3.And(p >= 0, p < g["ns"] - 1))),
            ("atom_lies_in_that_segment", implies(z3.And(k >= 0, k < g["m"]),
                                                  z3.And(z3.Select(g["S"], p) <= x, x < z3.Select(g["S"], p + 1))))]


def ens_starts_for(I, env):
    g = I.ghost["seg"]
    res = env.vars["result"]
    k = I.ctx.fresh_int("k")
    p, j = z3.Int("p!e"), I.ctx.fresh_int("j")
    r = z3.Select(res.arr, k)
    x = z3.Select(g["X"], k)
    inside = z3.And(k >= 0, k < g["m"])
    return [("one_start_per_index", natives.eq(I, res.shape[0], g["m"])),
            ("is_a_segment_start", implies(inside, z3.Exists([p], z3.And(p >= 0, p < g["ns"] - 1, z3.Select(g["S"], p) == r)))),
            ("start_not_after_the_atom", implies(inside, r <= x)),
            ("no_later_start_before_the_atom", implies(z3.And(inside, j >= 0, j < g["ns"] - 1, z3.Select(g["S"], j) <= x), z3.Select(g["S"], j) <= r))]


# ---- residues.py / chains.py: where residues and chains start -------------------------------------------------
RES, CHN = "structure/residues.py", "structure/chains.py"
ASSUMPTIONS.append(
    "get_residue_starts / get_chain_starts: the atom array is modelled as an object with the annotation arrays chain_id, res_id (int64 holding values of the int32 range: what every file format can give), "
    "ins_code, res_name of one length n >= 0 and array_length() == n; string annotations are held as integer codes (compared for "
    "equality only); library contracts (not proved) for slicing, element-wise != / < / |, np.diff, np.where, array + 1, np.concatenate")


def spec_atoms(I):
    from pyvc.heap import Obj, Class, Native
    n = sym_int(I, "n_atoms", 0, 2 ** 31 - 2)
    cols = {"chain_id": SymArr("chain_id", None, [n], readonly=True), "res_id": SymArr("res_id", "int64", [n], readonly=True),
            "ins_code": SymArr("ins_code", None, [n], readonly=True), "res_name": SymArr("res_name", None, [n], readonly=True)}
    k = z3.Int("k!r")
    I.ctx.assume(z3.ForAll([k], z3.And(z3.Select(cols["res_id"].arr, k) >= -2 ** 31, z3.Select(cols["res_id"].arr, k) <= 2 ** 31 - 1)))
    cols["res_id"].elem_bounds = (-2 ** 31, 2 ** 31 - 1)
    length = Native("array_length", lambda I_, a, k_: n)
    length.is_method = True
    cls = Class("SpecAtomArray", (), {"array_length": length}, None, "user")
    return n, cols, Obj(cls, dict(cols))


def setup_starts(kind, stop):
    def setup(I):
        n, cols, atoms = spec_atoms(I)
        C, R, N, X = (cols[c].arr for c in ("chain_id", "res_id", "ins_code", "res_name"))

        def boundary(i):
            """a new residue / chain starts at atom i (i >= 1)"""
            if kind == "residue":
                return z3.Or(z3.Select(C, i) != z3.Select(C, i - 1), z3.Select(R, i) != z3.Select(R, i - 1),
                             z3.Select(N, i) != z3.Select(N, i - 1), z3.Select(X, i) != z3.Select(X, i - 1))
            return z3.Or(z3.Select(C, i) != z3.Select(C, i - 1), z3.Select(R, i) < z3.Select(R, i - 1))
        g = {"n": n, "boundary": boundary, "stop": stop}
        I.ghost["starts"] = g
        return {"args": [atoms], "kwargs": {"add_exclusive_stop": stop}, "ghost": g}
    return setup


def ens_segment_starts(I, env):
    g = I.ghost["starts"]
    n, stop = g["n"], g["stop"]
    res = env.vars["result"]
    L = zint(res.shape[0])
    q, i = I.ctx.fresh_int("q"), I.ctx.fresh_int("i")
    p = z3.Int("p!e")
    R = lambda x: z3.Select(res.arr, x)
    last = L - 1 if stop else L          # entries that are starts (without the exclusive stop)
    from pyvc.core import is_int_ctype
    return [("integer_dtype", z3.BoolVal(bool(res.ctype) and is_int_ctype(res.ctype))),        # the starts are used as indices
            ("no_atoms_no_starts", implies(n == 0, L == 0)),
            ("first_start_is_0", implies(n > 0, z3.And(L >= 1, R(0) == 0))),
            ("exclusive_stop_is_the_length", implies(n > 0, R(L - 1) == n) if stop else z3.BoolVal(True)),
            ("strictly_ascending", implies(z3.And(n > 0, q >= 0, q < L - 1), R(q) < R(q + 1))),
            ("every_start_is_a_boundary", implies(z3.And(n > 0, q >= 1, q < last), z3.And(R(q) >= 1, R(q) < n, g["boundary"](R(q))))),
            # every boundary is a start -- stated without an existential: no boundary lies strictly between two
            # consecutive entries, none before the first start (it is 0), none after the last entry
            ("no_boundary_between_consecutive_entries", implies(z3.And(n > 0, q >= 0, q < L - 1, R(q) < i, i < R(q + 1), i < n), z3.Not(g["boundary"](i)))),
            ("no_boundary_after_the_last_entry", implies(z3.And(n > 0, L >= 1, R(L - 1) < i, i < n), z3.Not(g["boundary"](i))))]


for _kind, _rel, _fn in (("residue", RES, "get_residue_starts"), ("chain", CHN, "get_chain_starts")):
    for _stop in (False, True):
        CASES.append(Case(f"{_rel}::{_fn}", f"add_exclusive_stop={_stop}", setup=setup_starts(_kind, _stop), overflow=False,
                          ensures=[("starts", ens_segment_starts)], raises={}, timeout=25))


# ---- segments.py: get_segment_masks --------------------------------------------------------------------------
def setup_masks(I):
    out = setup_seg(I)
    g = I.ghost["seg"]
    # ghost: the segment an atom lies in (exists and is unique for `starts` as above; definitional)
    seg = z3.Function("segment_of", z3.IntSort(), z3.IntSort())
    c = z3.Int("c!r")
    I.ctx.assume(z3.ForAll([c], z3.Implies(z3.And(c >= 0, c < g["length"]),
                                           z3.And(seg(c) >= 0, seg(c) < g["ns"] - 1, z3.Select(g["S"], seg(c)) <= c, c < z3.Select(g["S"], seg(c) + 1)))))
    g["seg"] = seg
    return out


def _mask_row_is_segment(I, env, M, P, row, col):
    """mask[row][col] is set  <=>  col lies in the segment with position P[row]"""
    g = I.ghost["seg"]
    p = z3.Select(P, row)
    inside = z3.And(z3.Select(g["S"], p) <= col, col < z3.Select(g["S"], p + 1))
    return sel2(M, row, col) != 0, inside


def inv_masks(I, env):
    g = I.ghost["seg"]
    M = env.lookup("masks").arr
    P = env.lookup("insertion_points").arr
    i = zint(I.unC(env.lookup("i")))
    r, c = z3.Ints("r!i c!i")
    cell, inside = _mask_row_is_segment(I, env, M, P, r, c)
    return z3.And(z3.ForAll([r, c], z3.Implies(z3.And(r >= 0, r < i, c >= 0, c < g["length"]), cell == inside)),
                  z3.ForAll([r, c], z3.Implies(z3.And(r >= i, r < g["m"], c >= 0, c < g["length"]), sel2(M, r, c) == 0)))


def ens_masks(I, env):
    g = I.ghost["seg"]
    res = env.vars["result"]
    k, c = I.ctx.fresh_int("k"), I.ctx.fresh_int("c")
    seg = g["seg"]
    x = z3.Select(g["X"], k)
    return [("one_row_per_index", natives.eq(I, res.shape[0], g["m"])),
            ("one_column_per_atom", natives.eq(I, res.shape[1], g["length"])),
            ("masks_exactly_the_segment_of_the_atom", implies(z3.And(k >= 0, k < g["m"], c >= 0, c < g["length"]),
                                                              (sel2(res.arr, k, c) != 0) == (seg(c) == seg(x))))]


CASES.append(Case(SEG + "::get_segment_masks", setup=setup_masks, overflow=False, ensures=[("masks", ens_masks)],
                  loops={0: {"invariant": [inv_masks]}},
                  raises={"ValueError": lambda I, env: I.ghost["seg"]["no_such_atom"]}, timeout=25))
CASES.append(Case(SEG + "::get_segment_positions", setup=setup_seg, overflow=False, ensures=[("positions", ens_positions)],
                  raises={"ValueError": lambda I, env: I.ghost["seg"]["no_such_atom"]}, timeout=25))
CASES.append(Case(SEG + "::get_segment_starts_for", setup=setup_seg, overflow=False, ensures=[("starts_for", ens_starts_for)],
                  raises={"ValueError": lambda I, env: I.ghost["seg"]["no_such_atom"]}, timeout=25))


from pyvc.api import bounded_via_script
bounded = bounded_via_script("C17")
ASSUMPTIONS.append("bounded stand-in (labelled, not a proof): every residue / chain / molecule view vs per-atom recomputation on all arrays of "
                   "1..4 (5 thorough) atoms over a pool of 6 annotation rows and all bond sets on <= 4 atoms (bounded/C17.py)")
