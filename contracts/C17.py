"""C17 -- residue, chain and molecule segmentation equals per-atom recomputation.

Under contract in this build: the recursive depth-first search
structure/bonds.pyx::_find_connected behind get_molecule_indices /
find_connected -- memory safety, monotone visited mask, closure of the newly
visited atoms under the neighbour table, and a *recursion-depth obligation*
(the function is a C function that recurses once per newly visited atom)."""
import z3
from pyvc.api import Case, sym_int, sym_c, implies, iff
from pyvc.core import CV, zint, zbool, simp
from pyvc.heap import SymArr, Opaque
from pyvc import natives

PROPERTY = "C17"
BONDS = "structure/bonds.pyx"
DEPTH_LIMIT = 10000      # frames a C stack can be relied on to hold (8 MiB stack / ~200 B per frame is ~40000)

ASSUMPTIONS = [
    "the neighbour table all_bonds (BondList.get_all_bonds) holds -1 padding or atom indices in [0, n)",
    "recursion depth: a C call stack is assumed to hold at least %d frames of _find_connected and no more is relied on" % DEPTH_LIMIT,
    "only 'every newly visited atom has all its neighbours visited, the root is visited, nothing is unvisited again' is proved; "
    "that nothing outside the component is visited needs graph reachability and is not claimed",
]
UNVERIFIED = [
    "get_residue_starts / get_chain_starts / segments.py (NumPy-vectorised; not under contract in this build)",
    "get_molecule_indices / get_molecule_masks / molecule_iter drivers, BondList.get_all_bonds",
]


def sel2(a, r, c):
    return z3.Select(z3.Select(a, r), c)


def mk_state(I):
    n = sym_int(I, "n", 1, 2 ** 31 - 2)
    w = sym_int(I, "w", 0, 2 ** 31 - 2)
    mask = SymArr("is_connected_mask", "uint8", [n]).view(memview=True)
    bonds = SymArr("all_bonds", "int32", [n, w], readonly=True).view(memview=True)
    a, j = z3.Ints("a!b j!b")
    I.ctx.assume(z3.ForAll([a, j], z3.Implies(z3.And(a >= 0, a < n, j >= 0, j < w),
                                              z3.Or(sel2(bonds.arr, a, j) == -1,
                                                    z3.And(sel2(bonds.arr, a, j) >= 0, sel2(bonds.arr, a, j) < n)))))
    return n, w, mask, bonds


def post_facts(n, w, B, M0, M1, index):
    a, j = z3.Ints("a!p j!p")
    monotone = z3.ForAll([a], z3.Implies(z3.And(a >= 0, a < n, z3.Select(M0, a) != 0), z3.Select(M1, a) != 0))
    root = z3.Select(M1, index) != 0
    closed = z3.ForAll([a, j], z3.Implies(z3.And(a >= 0, a < n, j >= 0, j < w,
                                                 z3.Select(M1, a) != 0, z3.Select(M0, a) == 0,
                                                 sel2(B, a, j) != -1),
                                          z3.Select(M1, sel2(B, a, j)) != 0))
    return monotone, root, closed


def setup_fc(I):
    n, w, mask, bonds = mk_state(I)
    index = sym_c(I, "int32", "index")
    I.ctx.assume(z3.And(index.term >= 0, index.term < n))
    depth = sym_int(I, "depth", 0, DEPTH_LIMIT)
    g = {"n": n, "w": w, "B": bonds.arr, "M0": mask.arr, "idx": index.term, "depth": depth, "mask": mask}
    I.ghost["fc"] = g
    return {"args": [Opaque("bond_list"), index, mask, bonds], "ghost": g}


def cc_find_connected(I, f, args, kwargs):
    """the function's own contract at the recursive call site"""
    g = I.ghost["fc"]
    bond_list, index, mask, bonds = args
    idx = zint(I.unC(I.convert("int32", index)))
    n, w = g["n"], g["w"]
    I.ctx.oblige(I.obname("recursive_call::requires_index_in_range", getattr(I, "cur_node", None)),
                 z3.And(idx >= 0, idx < n), "call-pre")
    I.ctx.oblige(f"{BONDS}::_find_connected::recursion_depth_bounded",
                 g["depth"] + 1 <= DEPTH_LIMIT, "stack-depth",
                 {"why": "C recursion: one frame per newly visited atom"})
    M0 = mask.arr
    mask.arr = mask.fresh_term()
    M1 = mask.arr
    a = z3.Int("a!r")
    I.ctx.assume(z3.ForAll([a], z3.Implies(z3.And(a >= 0, a < n), z3.And(z3.Select(M1, a) >= 0, z3.Select(M1, a) <= 255))))
    for fct in post_facts(n, w, g["B"], M0, M1, idx):
        I.ctx.assume(fct)
    return None


def inv_fc(I, env):
    g = I.ghost["fc"]
    n, w, B, M0, idx = g["n"], g["w"], g["B"], g["M0"], g["idx"]
    M = env.lookup("is_connected_mask").arr
    j = zint(I.unC(env.lookup("j")))
    a, k = z3.Ints("a!i k!i")
    monotone = z3.ForAll([a], z3.Implies(z3.And(a >= 0, a < n, z3.Select(M0, a) != 0), z3.Select(M, a) != 0))
    closed_others = z3.ForAll([a, k], z3.Implies(z3.And(a >= 0, a < n, k >= 0, k < w, a != idx,
                                                        z3.Select(M, a) != 0, z3.Select(M0, a) == 0,
                                                        sel2(B, a, k) != -1),
                                                 z3.Select(M, sel2(B, a, k)) != 0))
    own = z3.ForAll([k], z3.Implies(z3.And(k >= 0, k < j, sel2(B, idx, k) != -1),
                                    z3.Select(M, sel2(B, idx, k)) != 0))
    return z3.And(monotone, closed_others, own, z3.Select(M, idx) != 0, z3.Select(M0, idx) == 0, j >= 0, j <= w)


def ens_fc(I, env):
    g = I.ghost["fc"]
    M1 = g["mask"].arr
    mono, root, closed = post_facts(g["n"], g["w"], g["B"], g["M0"], M1, g["idx"])
    return [("visited_only_grows", mono), ("root_visited", root), ("new_atoms_closed_under_neighbours", closed)]


CASES = [
    Case(BONDS + "::_find_connected", setup=setup_fc,
         loops={0: {"invariant": [inv_fc]}},
         call_contracts={BONDS + "::_find_connected": cc_find_connected},
         recursive=(BONDS + "::_find_connected",),
         ensures=[("dfs", ens_fc)], timeout=20),
]
MIN_OBLIGATIONS = 8


from pyvc.api import bounded_via_script
bounded = bounded_via_script("C17")
ASSUMPTIONS.append("bounded stand-in (labelled, not a proof): every residue / chain / molecule view vs per-atom recomputation on all arrays of "
                   "1..4 (5 thorough) atoms over a pool of 6 annotation rows and all bond sets on <= 4 atoms (bounded/C17.py)")
