"""C06 -- the CIF text layer returns every string table unchanged.

No function of cif.py is proved in this build (the quoting decision and the
tokeniser are string programs over arbitrary values with generators; the
SMT-string route planned in DESIGN.md is not built).  The contracts -- the
tokeniser is a left inverse of the quoting function for every cell and column
position, masks are inferred from '.'/'?', containers refine a dict -- are
checked at run time in a labelled BOUNDED stand-in (bounded/C06.py)."""
from pyvc.api import bounded_via_script

PROPERTY = "C06"
CASES = []
MIN_OBLIGATIONS = 0
ASSUMPTIONS = ["bounded: looped categories of 2 rows x 1..2 columns and single-row categories with 1..2 columns, every cell from a pool of "
               "28 (quick) / 35 (thorough) special strings, every column position; mapping protocol on a 2-block x 2-category file"]
UNVERIFIED = ["everything in cif.py / bcif.py / component.py is unproved"]
EXPLANATION = "bounded run-time check of the C06 contracts through the public API; not a proof"
bounded = bounded_via_script("C06")
