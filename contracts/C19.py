"""C19 -- trees contain every taxon once and keep distances through Newick.

No function is proved for this property in this build; the contracts are
checked at run time in a labelled BOUNDED stand-in (bounded/C19.py)."""
from pyvc.api import bounded_via_script

PROPERTY = "C19"
CASES = []
MIN_OBLIGATIONS = 0
ASSUMPTIONS = ["bounded: seeded random and additive distance matrices of 2..7 taxa, 200 draws (1000 thorough); matrices whose average-linkage merge order has ties are excluded from the height comparison"]
UNVERIFIED = ["upgma.pyx / nj.pyx / tree.pyx are unproved (loops over Python object arrays and float32 data)"]
EXPLANATION = "bounded run-time check of the C19 contracts through the public API; not a proof"
bounded = bounded_via_script("C19")
