"""C14 -- cell-list neighbour search is exact.

No function is proved for this property in this build; the contracts are
checked at run time in a labelled BOUNDED stand-in (bounded/C14.py)."""
from pyvc.api import bounded_via_script

PROPERTY = "C14"
CASES = []
MIN_OBLIGATIONS = 0
ASSUMPTIONS = ["bounded: seeded random atom sets of 1..30 atoms, 150 draws (600 thorough) x periodic on/off; a band of 1e-4 around the radius is excluded (float32 vs float64)"]
UNVERIFIED = ["celllist.pyx keeps its cells in realloc'ed C arrays addressed through a uint64 array: outside the extraction subset (DESIGN.md 4.C14)"]
EXPLANATION = "bounded run-time check of the C14 contracts through the public API; not a proof"
bounded = bounded_via_script("C14")
