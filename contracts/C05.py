"""C05 -- BinaryCIF encodings are invertible; compression stays within tolerance.

Under contract in this build: IntegerPackingEncoding._encode / decode of
structure/io/pdbx/encoding.pyx (extracted mechanically on every run), for the
four packed types, against chunk specifications over the immutable input:

   cnt(x)  = number of packed values for x   (x // limit + 1, C division)
   L(i)    = sum of cnt(data[k]) for k < i    (start of element i's chunk)
   encode: output[L(i) .. L(i+1)-2] == limit(sign of data[i]),
           output[L(i+1)-1] == data[i] - (cnt-1)*limit, which is not a limit
   decode: T(k) = number of terminal (non-limit) values before k,
           G(k) = sum since the last terminal value;
           out[T(k)] == G(k) + packed[k] for every terminal k
"""
import z3
from pyvc.api import Case, sym_int, sym_c, implies, iff, get_class
from pyvc.core import CV, zint, zbool, simp
from pyvc.heap import SymArr, Obj, Opaque
from pyvc import natives

PROPERTY = "C05"
ENC = "structure/io/pdbx/encoding.pyx"

LIMITS = {"int8": (-128, 127), "uint8": (0, 255), "int16": (-32768, 32767), "uint16": (0, 65535)}

ASSUMPTIONS = [
    "L, T, G are the recursively defined ghost functions stated in the module docstring (definitional axioms over the immutable input array)",
    "that decode(encode(x)) == x follows from the two chunk specifications is the composition lemma (argued in DESIGN.md, not mechanised)",
    "np.iinfo / np.zeros / np.asarray follow their NumPy meaning (library contracts)",
    "decode: the packed data stems from int32 values (every partial group sum G(k) fits an int32) and src_size equals the number of groups",
    "the packed length L(n) fits a C int (< 2^31); monotonicity of L and T is the induction lemma of their recursion equations",
]
UNVERIFIED = [
    "RunLengthEncoding, DeltaEncoding, FixedPointEncoding, IntervalQuantizationEncoding, StringArrayEncoding, ByteArrayEncoding, _safe_cast",
    "compress.py (_find_best_integer_compression, _to_smallest_integer_type, _get_decimal_places), bcif.py serialisation",
]


def cnt(x, mn, mx):
    # C (truncating) division; operands have equal sign in each branch
    pos = x / mx + 1
    if mn == 0:
        return z3.If(x > 0, pos, 1)
    neg = (-x) / (-mn) + 1
    return z3.If(x > 0, pos, z3.If(x < 0, neg, 1))


Lf = z3.Function("L", z3.IntSort(), z3.IntSort())


def mk_encoder(I, packed):
    cls = get_class(I, ENC, "IntegerPackingEncoding")
    return Obj(cls, {"byte_count": 1 if packed.endswith("8") else 2, "src_size": None,
                     "is_unsigned": packed.startswith("u")})


def setup_encode(packed):
    mn, mx = LIMITS[packed]

    def setup(I):
        n = sym_int(I, "n", 0, 2 ** 31 - 2)
        data = SymArr("data", "int32", [n], readonly=True).view(memview=True)
        out_t = SymArr("output_type", packed, [0]).view(memview=True)
        k = z3.Int("k!L")
        I.ctx.assume(Lf(0) == 0)
        I.ctx.assume(z3.ForAll([k], z3.Implies(k >= 0, Lf(k + 1) == Lf(k) + cnt(z3.Select(data.arr, k), mn, mx))))
        I.ctx.assume(z3.ForAll([k], z3.Implies(k >= 0, Lf(k + 1) > Lf(k))))     # cnt >= 1
        k2 = z3.Int("k!M")
        I.ctx.assume(z3.ForAll([k, k2], z3.Implies(z3.And(k >= 0, k <= k2), Lf(k) <= Lf(k2))))   # monotone (induction lemma)
        I.ctx.assume(Lf(n) <= 2 ** 31 - 1)      # the packed array fits a NumPy array / C int index
        if mn == 0:
            I.ctx.assume(z3.ForAll([k], z3.Implies(z3.And(k >= 0, k < n), z3.Select(data.arr, k) >= 0)))
        g = {"n": n, "D": data.arr, "mn": mn, "mx": mx}
        I.ghost["pack"] = g
        return {"args": [mk_encoder(I, packed), data, out_t], "ghost": g}
    return setup


def chunk_ok(g, Q, i):
    """chunk of element i in the packed array Q"""
    D, mn, mx = g["D"], g["mn"], g["mx"]
    x = z3.Select(D, i)
    lim = z3.If(x > 0, mx, mn)
    t = z3.Int("t!c")
    last = Lf(i + 1) - 1
    n_full = last - Lf(i)
    return z3.And(
        z3.ForAll([t], z3.Implies(z3.And(t >= Lf(i), t < last), z3.Select(Q, t) == lim)),
        z3.Select(Q, last) == x - n_full * lim,
        z3.Select(Q, last) != mx,
        z3.Select(Q, last) != (mn if mn != 0 else -1))


def inv_len(I, env):
    g = I.ghost["pack"]
    i = zint(I.unC(env.lookup("i")))
    return z3.And(zint(I.unC(env.lookup("length"))) == Lf(i), i >= 0, i <= g["n"])


def inv_fill(I, env):
    g = I.ghost["pack"]
    i = zint(I.unC(env.lookup("i")))
    j = zint(I.unC(env.lookup("j")))
    Q = env.lookup("output").arr
    k = z3.Int("k!f")
    return z3.And(j == Lf(i), i >= 0, i <= g["n"],
                  z3.ForAll([k], z3.Implies(z3.And(k >= 0, k < i), chunk_ok(g, Q, k))))


def inv_inner(sign):
    def inv(I, env):
        g = I.ghost["pack"]
        i = zint(I.unC(env.lookup("i")))
        j = zint(I.unC(env.lookup("j")))
        rem = zint(I.unC(env.lookup("remainder")))
        Q = env.lookup("output").arr
        D, mn, mx = g["D"], g["mn"], g["mx"]
        lim = mx if sign > 0 else mn
        k, t = z3.Ints("k!n t!n")
        x = z3.Select(D, i)
        return z3.And(i >= 0, i < g["n"], (x > 0) if sign > 0 else (x < 0),
                      j >= Lf(i), j < Lf(i + 1),
                      rem == x - (j - Lf(i)) * lim,
                      (rem >= 0) if sign > 0 else (rem <= 0),
                      z3.ForAll([t], z3.Implies(z3.And(t >= Lf(i), t < j), z3.Select(Q, t) == lim)),
                      z3.ForAll([k], z3.Implies(z3.And(k >= 0, k < i), chunk_ok(g, Q, k))))
    return inv


def ens_encode(I, env):
    g = I.ghost["pack"]
    res = env.vars["result"]
    k = I.ctx.fresh_int("k")
    return [("length", natives.eq(I, res.shape[0], Lf(g["n"]))),
            ("chunks", implies(z3.And(k >= 0, k < g["n"]), chunk_ok(g, res.arr, k)))]


def raises_encode(I, env):
    g = I.ghost["pack"]
    if g["mn"] != 0:
        return False
    k = z3.Int("k!r")
    return z3.Exists([k], z3.And(k >= 0, k < g["n"], z3.Select(g["D"], k) < 0))


def setup_encode_neg(packed):
    """unsigned target with possibly negative input: ValueError expected"""
    mn, mx = LIMITS[packed]

    def setup(I):
        n = sym_int(I, "n", 0, 2 ** 31 - 2)
        data = SymArr("data", "int32", [n], readonly=True).view(memview=True)
        out_t = SymArr("output_type", packed, [0]).view(memview=True)
        k = z3.Int("k!L")
        I.ctx.assume(Lf(0) == 0)
        I.ctx.assume(z3.ForAll([k], z3.Implies(k >= 0, Lf(k + 1) == Lf(k) + cnt(z3.Select(data.arr, k), mn, mx))))
        I.ctx.assume(z3.ForAll([k], z3.Implies(k >= 0, Lf(k + 1) > Lf(k))))
        k2 = z3.Int("k!M")
        I.ctx.assume(z3.ForAll([k, k2], z3.Implies(z3.And(k >= 0, k <= k2), Lf(k) <= Lf(k2))))
        I.ctx.assume(Lf(n) <= 2 ** 31 - 1)
        g = {"n": n, "D": data.arr, "mn": mn, "mx": mx}
        I.ghost["pack"] = g
        return {"args": [mk_encoder(I, packed), data, out_t], "ghost": g}
    return setup


# ---- decode ---------------------------------------------------------------

Tf = z3.Function("T", z3.IntSort(), z3.IntSort())
Gf = z3.Function("G", z3.IntSort(), z3.IntSort())


def setup_decode(packed):
    mn, mx = LIMITS[packed]
    mn_eff = mn if mn != 0 else -1

    def setup(I):
        m = sym_int(I, "m", 0, 2 ** 31 - 2)
        data = SymArr("data", packed, [m], readonly=True).view(memview=True)
        P = data.arr
        k = z3.Int("k!T")
        term = lambda kk: z3.And(z3.Select(P, kk) != mx, z3.Select(P, kk) != mn_eff)
        I.ctx.assume(Tf(0) == 0)
        I.ctx.assume(Gf(0) == 0)
        I.ctx.assume(z3.ForAll([k], z3.Implies(k >= 0, Tf(k + 1) == Tf(k) + z3.If(term(k), 1, 0))))
        I.ctx.assume(z3.ForAll([k], z3.Implies(k >= 0, Gf(k + 1) == z3.If(term(k), 0, Gf(k) + z3.Select(P, k)))))
        I.ctx.assume(z3.ForAll([k], z3.Implies(k >= 0, z3.And(Tf(k) >= 0, Tf(k) <= k))))
        # packed data stems from int32 values: every partial group sum fits an int32
        I.ctx.assume(z3.ForAll([k], z3.Implies(k >= 0, z3.And(Gf(k) >= -2 ** 31, Gf(k) <= 2 ** 31 - 1,
                                                              Gf(k) + z3.Select(P, k) >= -2 ** 31,
                                                              Gf(k) + z3.Select(P, k) <= 2 ** 31 - 1))))
        src = sym_int(I, "src_size", 0, 2 ** 31 - 2)
        # the stored source size matches the packed data (what encode() records)
        I.ctx.assume(src == Tf(m))
        k2 = z3.Int("k!m")
        I.ctx.assume(z3.ForAll([k, k2], z3.Implies(z3.And(k >= 0, k <= k2), Tf(k) <= Tf(k2))))   # monotone (lemma)
        enc = mk_encoder(I, packed)
        enc.attrs["src_size"] = src
        g = {"m": m, "P": P, "mn": mn_eff, "mx": mx, "src": src, "term": term}
        I.ghost["unpack"] = g
        return {"args": [enc, data], "ghost": g}
    return setup


def inv_decode(I, env):
    g = I.ghost["unpack"]
    i = zint(I.unC(env.lookup("i")))
    j = zint(I.unC(env.lookup("j")))
    acc = zint(I.unC(env.lookup("unpacked_val")))
    O = env.lookup("output").arr
    k = z3.Int("k!d")
    return z3.And(i >= 0, i <= g["m"], j == Tf(i), acc == Gf(i),
                  z3.ForAll([k], z3.Implies(z3.And(k >= 0, k < i, g["term"](k)),
                                            z3.Select(O, Tf(k)) == Gf(k) + z3.Select(g["P"], k))))


def ens_decode(I, env):
    g = I.ghost["unpack"]
    res = env.vars["result"]
    k = I.ctx.fresh_int("k")
    return [("length", natives.eq(I, res.shape[0], g["src"])),
            ("groups", implies(z3.And(k >= 0, k < g["m"], g["term"](k)),
                               z3.Select(res.arr, Tf(k)) == Gf(k) + z3.Select(g["P"], k)))]


CASES = []
for _p in ("int8", "uint8", "int16", "uint16"):
    loops = {0: {"invariant": [inv_len]}, 1: {"invariant": [inv_fill]},
             2: {"invariant": [inv_inner(-1)]}, 3: {"invariant": [inv_inner(+1)]}}
    CASES.append(Case(ENC + "::IntegerPackingEncoding._encode", f"packed={_p}", setup=setup_encode(_p), overflow=False,
                      loops=loops, ensures=[("pack", ens_encode)], timeout=30))
    CASES.append(Case(ENC + "::IntegerPackingEncoding.decode", f"packed={_p}", setup=setup_decode(_p), overflow=False,
                      loops={0: {"invariant": [inv_decode]}}, ensures=[("unpack", ens_decode)], timeout=30))
MIN_OBLIGATIONS = 20


from pyvc.api import bounded_via_script
bounded = bounded_via_script("C05")
