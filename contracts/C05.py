"""C05 -- BinaryCIF encodings are invertible; compression stays within tolerance.

Under contract in this build: IntegerPackingEncoding._encode / decode of
structure/io/pdbx/encoding.pyx (extracted mechanically on every run), for the
four packed types, against chunk specifications over the immutable input:

   cnt(x)  = number of packed values for x   (x // limit + 1, C division)
   L(i)    = sum of cnt(data[k]) for k < i    (start of element i's chunk)
   encode: output[L(i) .. L(i+1)-2] == limit(sign of data[i]),
           output[L(i+1)-1] == data[i] - (cnt-1)*limit, which is not a limit
   decode: T(k) = number of terminal (non-limit) values before k,
           G(k) = sum since the last terminal value;
           out[T(k)] == G(k) + packed[k] for every terminal k
"""
import z3
from pyvc.api import Case, sym_int, sym_c, implies, iff, get_class
from pyvc.core import CV, zint, zbool, simp
from pyvc.heap import SymArr, Obj, Opaque
from pyvc import natives

PROPERTY = "C05"
ENC = "structure/io/pdbx/encoding.pyx"

LIMITS = {"int8": (-128, 127), "uint8": (0, 255), "int16": (-32768, 32767), "uint16": (0, 65535)}

ASSUMPTIONS = [
    "RunLengthEncoding: NB, RS, PS are the ghost functions of the docstring further down (recursion equations + their induction lemmas); arrays of fewer than 2**30 elements (the C int output index would overflow beyond); decode: positive run lengths and a decoded length that fits a C int (what encode() writes)",
    "L, T, G are the recursively defined ghost functions stated in the module docstring (definitional axioms over the immutable input array)",
    "that decode(encode(x)) == x follows from the two chunk specifications is the composition lemma (argued in DESIGN.md, not mechanised)",
    "np.iinfo / np.zeros / np.asarray follow their NumPy meaning (library contracts)",
    "_safe_cast (8 source -> target integer dtype pairs): np.any is the existential quantifier over the elements, np.issubdtype / np.dtype / dtype equality follow NumPy; floating-point input is not covered",
    "_to_smallest_integer_type: ndarray.min() returns an element no element is below (ValueError on an empty array), an integer array compared with a Python integer gives the exact element-wise comparison (NumPy >= 2), np.all is the universal quantifier over the elements, astype between integer dtypes converts element-wise as C does (wraps) -- library contracts, not proved; input arrays hold values of their dtype and have 1 <= n < 2**31 - 1 elements",
    "decode: the packed data stems from int32 values (every partial group sum G(k) fits an int32) and src_size equals the number of groups",
    "the packed length L(n) fits a C int (< 2^31); monotonicity of L and T is the induction lemma of their recursion equations",
]
UNVERIFIED = [
    "DeltaEncoding, FixedPointEncoding, IntervalQuantizationEncoding, StringArrayEncoding, ByteArrayEncoding (NumPy one-liners / string handling)",
    "compress.py (_find_best_integer_compression, _get_decimal_places, _compress_data driver), bcif.py serialisation",
]


def cnt(x, mn, mx):
    # C (truncating) division; operands have equal sign in each branch
    pos = x / mx + 1
    if mn == 0:
        return z3.If(x > 0, pos, 1)
    neg = (-x) / (-mn) + 1
    return z3.If(x > 0, pos, z3.If(x < 0, neg, 1))


Lf = z3.Function("L", z3.IntSort(), z3.IntSort())


def mk_encoder(I, packed):
    cls = get_class(I, ENC, "IntegerPackingEncoding")
    return Obj(cls, {"byte_count": 1 if packed.endswith("8") else 2, "src_size": None,
                     "is_unsigned": packed.startswith("u")})


def setup_encode(packed):
    mn, mx = LIMITS[packed]

    def setup(I):
        n = sym_int(I, "n", 0, 2 ** 31 - 2)
        data = SymArr("data", "int32", [n], readonly=True).view(memview=True)
        out_t = SymArr("output_type", packed, [0]).view(memview=True)
        k = z3.Int("k!L")
        I.ctx.assume(Lf(0) == 0)
        I.ctx.assume(z3.ForAll([k], z3.Implies(k >= 0, Lf(k + 1) == Lf(k) + cnt(z3.Select(data.arr, k), mn, mx))))
        I.ctx.assume(z3.ForAll([k], z3.Implies(k >= 0, Lf(k + 1) > Lf(k))))     # cnt >= 1
        k2 = z3.Int("k!M")
        I.ctx.assume(z3.ForAll([k, k2], z3.Implies(z3.And(k >= 0, k <= k2), Lf(k) <= Lf(k2))))   # monotone (induction lemma)
        I.ctx.assume(Lf(n) <= 2 ** 31 - 1)      # the packed array fits a NumPy array / C int index
        if mn == 0:
            I.ctx.assume(z3.ForAll([k], z3.Implies(z3.And(k >= 0, k < n), z3.Select(data.arr, k) >= 0)))
        g = {"n": n, "D": data.arr, "mn": mn, "mx": mx}
        I.ghost["pack"] = g
        return {"args": [mk_encoder(I, packed), data, out_t], "ghost": g}
    return setup


def chunk_ok(g, Q, i):
    """chunk of element i in the packed array Q"""
    D, mn, mx = g["D"], g["mn"], g["mx"]
    x = z3.Select(D, i)
    lim = z3.If(x > 0, mx, mn)
    t = z3.Int("t!c")
    last = Lf(i + 1) - 1
    n_full = last - Lf(i)
    return z3.And(
        z3.ForAll([t], z3.Implies(z3.And(t >= Lf(i), t < last), z3.Select(Q, t) == lim)),
        z3.Select(Q, last) == x - n_full * lim,
        z3.Select(Q, last) != mx,
        z3.Select(Q, last) != (mn if mn != 0 else -1))


def inv_len(I, env):
    g = I.ghost["pack"]
    i = zint(I.unC(env.lookup("i")))
    return z3.And(zint(I.unC(env.lookup("length"))) == Lf(i), i >= 0, i <= g["n"])


def inv_fill(I, env):
    g = I.ghost["pack"]
    i = zint(I.unC(env.lookup("i")))
    j = zint(I.unC(env.lookup("j")))
    Q = env.lookup("output").arr
    k = z3.Int("k!f")
    return z3.And(j == Lf(i), i >= 0, i <= g["n"],
                  z3.ForAll([k], z3.Implies(z3.And(k >= 0, k < i), chunk_ok(g, Q, k))))


def inv_inner(sign):
    def inv(I, env):
        g = I.ghost["pack"]
        i = zint(I.unC(env.lookup("i")))
        j = zint(I.unC(env.lookup("j")))
        rem = zint(I.unC(env.lookup("remainder")))
        Q = env.lookup("output").arr
        D, mn, mx = g["D"], g["mn"], g["mx"]
        lim = mx if sign > 0 else mn
        k, t = z3.Ints("k!n t!n")
        x = z3.Select(D, i)
        return z3.And(i >= 0, i < g["n"], (x > 0) if sign > 0 else (x < 0),
                      j >= Lf(i), j < Lf(i + 1),
                      rem == x - (j - Lf(i)) * lim,
                      (rem >= 0) if sign > 0 else (rem <= 0),
                      z3.ForAll([t], z3.Implies(z3.And(t >= Lf(i), t < j), z3.Select(Q, t) == lim)),
                      z3.ForAll([k], z3.Implies(z3.And(k >= 0, k < i), chunk_ok(g, Q, k))))
    return inv


def ens_encode(I, env):
    g = I.ghost["pack"]
    res = env.vars["result"]
    k = I.ctx.fresh_int("k")
    return [("length", natives.eq(I, res.shape[0], Lf(g["n"]))),
            ("chunks", implies(z3.And(k >= 0, k < g["n"]), chunk_ok(g, res.arr, k)))]


def raises_encode(I, env):
    g = I.ghost["pack"]
    if g["mn"] != 0:
        return False
    k = z3.Int("k!r")
    return z3.Exists([k], z3.And(k >= 0, k < g["n"], z3.Select(g["D"], k) < 0))


def setup_encode_neg(packed):
    """unsigned target with possibly negative input: ValueError expected"""
    mn, mx = LIMITS[packed]

    def setup(I):
        n = sym_int(I, "n", 0, 2 ** 31 - 2)
        data = SymArr("data", "int32", [n], readonly=True).view(memview=True)
        out_t = SymArr("output_type", packed, [0]).view(memview=True)
        k = z3.Int("k!L")
        I.ctx.assume(Lf(0) == 0)
        I.ctx.assume(z3.ForAll([k], z3.Implies(k >= 0, Lf(k + 1) == Lf(k) + cnt(z3.Select(data.arr, k), mn, mx))))
        I.ctx.assume(z3.ForAll([k], z3.Implies(k >= 0, Lf(k + 1) > Lf(k))))
        k2 = z3.Int("k!M")
        I.ctx.assume(z3.ForAll([k, k2], z3.Implies(z3.And(k >= 0, k <= k2), Lf(k) <= Lf(k2))))
        I.ctx.assume(Lf(n) <= 2 ** 31 - 1)
        g = {"n": n, "D": data.arr, "mn": mn, "mx": mx}
        I.ghost["pack"] = g
        return {"args": [mk_encoder(I, packed), data, out_t], "ghost": g}
    return setup


# ---- decode ---------------------------------------------------------------

Tf = z3.Function("T", z3.IntSort(), z3.IntSort())
Gf = z3.Function("G", z3.IntSort(), z3.IntSort())


def setup_decode(packed):
    mn, mx = LIMITS[packed]
    mn_eff = mn if mn != 0 else -1

    def setup(I):
        m = sym_int(I, "m", 0, 2 ** 31 - 2)
        data = SymArr("data", packed, [m], readonly=True).view(memview=True)
        P = data.arr
        k = z3.Int("k!T")
        term = lambda kk: z3.And(z3.Select(P, kk) != mx, z3.Select(P, kk) != mn_eff)
        I.ctx.assume(Tf(0) == 0)
        I.ctx.assume(Gf(0) == 0)
        I.ctx.assume(z3.ForAll([k], z3.Implies(k >= 0, Tf(k + 1) == Tf(k) + z3.If(term(k), 1, 0))))
        I.ctx.assume(z3.ForAll([k], z3.Implies(k >= 0, Gf(k + 1) == z3.If(term(k), 0, Gf(k) + z3.Select(P, k)))))
        I.ctx.assume(z3.ForAll([k], z3.Implies(k >= 0, z3.And(Tf(k) >= 0, Tf(k) <= k))))
        # packed data stems from int32 values: every partial group sum fits an int32
        I.ctx.assume(z3.ForAll([k], z3.Implies(k >= 0, z3.And(Gf(k) >= -2 ** 31, Gf(k) <= 2 ** 31 - 1,
                                                              Gf(k) + z3.Select(P, k) >= -2 ** 31,
                                                              Gf(k) + z3.Select(P, k) <= 2 ** 31 - 1))))
        src = sym_int(I, "src_size", 0, 2 ** 31 - 2)
        # the stored source size matches the packed data (what encode() records)
        I.ctx.assume(src == Tf(m))
        k2 = z3.Int("k!m")
        I.ctx.assume(z3.ForAll([k, k2], z3.Implies(z3.And(k >= 0, k <= k2), Tf(k) <= Tf(k2))))   # monotone (lemma)
        enc = mk_encoder(I, packed)
        enc.attrs["src_size"] = src
        g = {"m": m, "P": P, "mn": mn_eff, "mx": mx, "src": src, "term": term}
        I.ghost["unpack"] = g
        return {"args": [enc, data], "ghost": g}
    return setup


def inv_decode(I, env):
    g = I.ghost["unpack"]
    i = zint(I.unC(env.lookup("i")))
    j = zint(I.unC(env.lookup("j")))
    acc = zint(I.unC(env.lookup("unpacked_val")))
    O = env.lookup("output").arr
    k = z3.Int("k!d")
    return z3.And(i >= 0, i <= g["m"], j == Tf(i), acc == Gf(i),
                  z3.ForAll([k], z3.Implies(z3.And(k >= 0, k < i, g["term"](k)),
                                            z3.Select(O, Tf(k)) == Gf(k) + z3.Select(g["P"], k))))


def ens_decode(I, env):
    g = I.ghost["unpack"]
    res = env.vars["result"]
    k = I.ctx.fresh_int("k")
    return [("length", natives.eq(I, res.shape[0], g["src"])),
            ("groups", implies(z3.And(k >= 0, k < g["m"], g["term"](k)),
                               z3.Select(res.arr, Tf(k)) == Gf(k) + z3.Select(g["P"], k)))]


CASES = []
for _p in ("int8", "uint8", "int16", "uint16"):
    loops = {0: {"invariant": [inv_len]}, 1: {"invariant": [inv_fill]},
             2: {"invariant": [inv_inner(-1)]}, 3: {"invariant": [inv_inner(+1)]}}
    CASES.append(Case(ENC + "::IntegerPackingEncoding._encode", f"packed={_p}", setup=setup_encode(_p), overflow=False,
                      loops=loops, ensures=[("pack", ens_encode)], timeout=30))
    CASES.append(Case(ENC + "::IntegerPackingEncoding.decode", f"packed={_p}", setup=setup_decode(_p), overflow=False,
                      loops={0: {"invariant": [inv_decode]}}, ensures=[("unpack", ens_decode)], timeout=30))
MIN_OBLIGATIONS = 20


from pyvc.api import bounded_via_script
bounded = bounded_via_script("C05")


# ==========================================================================
# RunLengthEncoding._encode / _decode  (encoding.pyx, re-extracted on every run)
#
#   NB(i) = number of run boundaries among positions 1 .. i-1   (D[p] != D[p-1])
#   RS(i) = start index of the run that contains position i-1
#   encode: pair number NB(p) of the output is (D[p-1], p - RS(p)) for every boundary p and for p = n
#   decode: PS(t) = sum of the run lengths of the pairs before t; out[q] == value of pair t
#           for PS(t) <= q < PS(t+1)

NB = z3.Function("NB", z3.IntSort(), z3.IntSort())
RS = z3.Function("RS", z3.IntSort(), z3.IntSort())
PS = z3.Function("PS", z3.IntSort(), z3.IntSort())


def mk_rle(I):
    cls = get_class(I, ENC, "RunLengthEncoding")
    return Obj(cls, {"src_size": None, "src_type": None})


def setup_rle_encode(dtype):
    def setup(I):
        # n == 0: recorded known finding C05-empty-array-rejected; n >= 2**30: the C int `j` (up to 2n) would overflow
        n = sym_int(I, "n", 1, 2 ** 30 - 1)
        data = SymArr("data", dtype, [n], readonly=True).view(memview=True)
        D = data.arr
        k, k2 = z3.Ints("k!N k2!N")
        bnd = lambda p: z3.And(p >= 1, z3.Select(D, p) != z3.Select(D, p - 1))
        A = I.ctx.assume
        A(z3.And(NB(0) == 0, NB(1) == 0, RS(0) == 0, RS(1) == 0))
        A(z3.ForAll([k], z3.Implies(k >= 1, NB(k + 1) == NB(k) + z3.If(bnd(k), 1, 0))))
        A(z3.ForAll([k], z3.Implies(k >= 1, RS(k + 1) == z3.If(bnd(k), k, RS(k)))))
        # induction lemmas of the recursion equations
        A(z3.ForAll([k], z3.Implies(k >= 1, z3.And(NB(k) >= 0, NB(k) <= k - 1, RS(k) >= 0, RS(k) < k))))
        A(z3.ForAll([k, k2], z3.Implies(z3.And(k >= 0, k <= k2), NB(k) <= NB(k2))))
        A(z3.ForAll([k, k2], z3.Implies(z3.And(k >= 1, k < k2, bnd(k)), NB(k) < NB(k2))))
        g = {"n": n, "D": D, "bnd": bnd}
        I.ghost["rle"] = g
        return {"args": [mk_rle(I), data], "ghost": g}
    return setup


def rle_pairs_done(g, Q, upto):
    """every run that ended before position `upto` has its (value, length) pair in place"""
    p = z3.Int("p!r")
    D = g["D"]
    return z3.ForAll([p], z3.Implies(z3.And(p >= 1, p < upto, g["bnd"](p)),
                                     z3.And(z3.Select(Q, 2 * NB(p)) == z3.Select(D, p - 1),
                                            z3.Select(Q, 2 * NB(p) + 1) == p - RS(p))))


def inv_rle_encode(I, env):
    g = I.ghost["rle"]
    i = zint(I.unC(env.lookup("i")))
    j = zint(I.unC(env.lookup("j")))
    val = zint(I.unC(env.lookup("val")))
    rl = zint(I.unC(env.lookup("run_length")))
    Q = env.lookup("output").arr
    D = g["D"]
    return z3.And(i >= 0, i <= g["n"], j == 2 * NB(i), rl == i - RS(i),
                  val == z3.Select(D, z3.If(i >= 1, i - 1, 0)), rle_pairs_done(g, Q, i))


def ens_rle_encode(I, env):
    g = I.ghost["rle"]
    res = env.vars["result"]
    n, D = g["n"], g["D"]
    p = I.ctx.fresh_int("p")
    Q = res.arr
    return [("length", natives.eq(I, res.shape[0], 2 * NB(n) + 2)),
            ("pair_of_every_finished_run", implies(z3.And(p >= 1, p < n, g["bnd"](p)),
                                                   z3.And(z3.Select(Q, 2 * NB(p)) == z3.Select(D, p - 1),
                                                          z3.Select(Q, 2 * NB(p) + 1) == p - RS(p)))),
            ("pair_of_the_last_run", z3.And(z3.Select(Q, 2 * NB(n)) == z3.Select(D, n - 1),
                                            z3.Select(Q, 2 * NB(n) + 1) == n - RS(n)))]


def setup_rle_decode(in_t, out_t, with_size):
    def setup(I):
        m = sym_int(I, "pairs", 0, 2 ** 29)
        data = SymArr("data", in_t, [2 * m], readonly=True).view(memview=True)
        out_type = SymArr("output_type", out_t, [0]).view(memview=True)
        P = data.arr
        t, t2 = z3.Ints("t!P t2!P")
        A = I.ctx.assume
        A(PS(0) == 0)
        A(z3.ForAll([t], z3.Implies(t >= 0, PS(t + 1) == PS(t) + z3.Select(P, 2 * t + 1))))
        # what encode() writes: positive run lengths; the decoded length fits a C int
        A(z3.ForAll([t], z3.Implies(z3.And(t >= 0, t < m), z3.Select(P, 2 * t + 1) >= 1)))
        A(z3.ForAll([t, t2], z3.Implies(z3.And(t >= 0, t <= t2, t2 <= m), PS(t) <= PS(t2))))      # induction lemma
        A(z3.And(PS(m) >= 0, PS(m) <= 2 ** 31 - 1))
        enc = mk_rle(I)
        if with_size:
            enc.attrs["src_size"] = PS(m)
        g = {"m": m, "P": P}
        I.ghost["rld"] = g
        return {"args": [enc, data, out_type], "ghost": g}
    return setup


def inv_rle_len(I, env):
    g = I.ghost["rld"]
    i = zint(I.unC(env.lookup("i")))
    return z3.And(i >= 1, i % 2 == 1, zint(I.unC(env.lookup("length"))) == PS((i - 1) / 2), (i - 1) / 2 <= g["m"])


def inv_rle_fill(I, env):
    g = I.ghost["rld"]
    i = zint(I.unC(env.lookup("i")))
    j = zint(I.unC(env.lookup("j")))
    out = env.lookup("output").arr
    t, q = z3.Ints("t!f q!f")
    return z3.And(i >= 0, i % 2 == 0, i / 2 <= g["m"], j == PS(i / 2),
                  z3.ForAll([t, q], z3.Implies(z3.And(t >= 0, t < i / 2, q >= PS(t), q < PS(t + 1)),
                                               z3.Select(out, q) == z3.Select(g["P"], 2 * t))))


def ens_rle_decode(I, env):
    g = I.ghost["rld"]
    res = env.vars["result"]
    t, q = I.ctx.fresh_int("t"), I.ctx.fresh_int("q")
    return [("length", natives.eq(I, res.shape[0], PS(g["m"]))),
            ("runs_expanded", implies(z3.And(t >= 0, t < g["m"], q >= PS(t), q < PS(t + 1)),
                                      z3.Select(res.arr, q) == z3.Select(g["P"], 2 * t)))]


for _dt in ("int32", "uint8"):
    CASES.append(Case(ENC + "::RunLengthEncoding._encode", f"Integer={_dt}", setup=setup_rle_encode(_dt),
                      loops={0: {"invariant": [inv_rle_encode]}},
                      ensures=[("runs", ens_rle_encode)]))
CASES.append(Case(ENC + "::RunLengthEncoding._decode", "src_size given", setup=setup_rle_decode("int32", "int32", True),
                  loops={0: {"invariant": [inv_rle_len]}, 1: {"invariant": [inv_rle_fill]}},
                  ensures=[("expansion", ens_rle_decode)]))
CASES.append(Case(ENC + "::RunLengthEncoding._decode", "src_size from the run lengths", setup=setup_rle_decode("int32", "int32", False),
                  loops={0: {"invariant": [inv_rle_len]}, 1: {"invariant": [inv_rle_fill]}},
                  ensures=[("expansion", ens_rle_decode)]))


# ---- compress.py: _to_smallest_integer_type ------------------------------------------------
COMP = "structure/io/pdbx/compress.py"
INT_DTYPES = ("uint8", "uint16", "uint32", "uint64", "int8", "int16", "int32", "int64")


def setup_smallest(src):
    def setup(I):
        n = sym_int(I, "n", 1, 2 ** 31 - 2)
        data = SymArr("array", src, [n], readonly=True)
        from pyvc.core import int_range
        lo, hi = int_range(src)
        k = z3.Int("k!r")
        I.ctx.assume(z3.ForAll([k], z3.Implies(z3.And(k >= 0, k < n), z3.And(z3.Select(data.arr, k) >= lo, z3.Select(data.arr, k) <= hi))))
        g = {"n": n, "D": data.arr}
        I.ghost["smallest"] = g
        return {"args": [data], "ghost": g}
    return setup


def ens_smallest(I, env):
    g = I.ghost["smallest"]
    res = env.vars["result"]
    k = I.ctx.fresh_int("k")
    return [("same_length", natives.eq(I, res.shape[0], g["n"])),
            ("integer_dtype", z3.BoolVal(res.ctype in INT_DTYPES)),
            ("every_value_kept", implies(z3.And(k >= 0, k < g["n"]), z3.Select(res.arr, k) == z3.Select(g["D"], k)))]


for _src in ("int64", "int32", "uint64", "int8"):
    CASES.append(Case(COMP + "::_to_smallest_integer_type", f"input={_src}", setup=setup_smallest(_src), overflow=False,
                      ensures=[("result", ens_smallest)], raises={}))


# ---- encoding.pyx: _safe_cast (the range check every integer encoding relies on) -----------
def setup_safe_cast(src, dst):
    def setup(I):
        from pyvc.core import int_range
        from pyvc.nplib import DType
        n = sym_int(I, "n", 0, 2 ** 31 - 2)
        data = SymArr("array", src, [n], readonly=True)
        lo, hi = int_range(src)
        k = z3.Int("k!r")
        I.ctx.assume(z3.ForAll([k], z3.Implies(z3.And(k >= 0, k < n), z3.And(z3.Select(data.arr, k) >= lo, z3.Select(data.arr, k) <= hi))))
        tlo, thi = int_range(dst)
        j = I.ctx.fresh_int("j")
        g = {"n": n, "D": data.arr, "tlo": tlo, "thi": thi, "data": data, "dst": dst,
             # some element lies outside the target range (as an existential over the immutable input)
             "outside": z3.Exists([k], z3.And(k >= 0, k < n, z3.Or(z3.Select(data.arr, k) < tlo, z3.Select(data.arr, k) > thi)))}
        I.ghost["cast"] = g
        return {"args": [data, DType(dst)], "ghost": g}
    return setup


def ens_safe_cast(I, env):
    g = I.ghost["cast"]
    res = env.vars["result"]
    k = I.ctx.fresh_int("k")
    return [("same_length", natives.eq(I, res.shape[0], g["n"])),
            ("target_dtype", z3.BoolVal(res.ctype == g["dst"])),
            ("every_value_kept", implies(z3.And(k >= 0, k < g["n"]), z3.Select(res.arr, k) == z3.Select(g["D"], k))),
            ("every_value_in_target_range", implies(z3.And(k >= 0, k < g["n"]),
                                                    z3.And(z3.Select(res.arr, k) >= g["tlo"], z3.Select(res.arr, k) <= g["thi"])))]


for _src, _dst in (("int64", "int32"), ("int32", "uint8"), ("uint32", "int8"), ("int32", "int32"), ("uint8", "int64"), ("int32", "uint16"),
                   ("uint64", "int64"), ("int16", "uint32")):
    CASES.append(Case(ENC + "::_safe_cast", f"{_src}->{_dst}", setup=setup_safe_cast(_src, _dst), overflow=False,
                      ensures=[("cast", ens_safe_cast)],
                      raises={"ValueError": lambda I, env: I.ghost["cast"]["outside"]}))
