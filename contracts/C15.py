"""C15 -- geometry is rigid-motion invariant; periodic helpers act by lattice vectors.

No function of geometry.py / box.py is proved in this build (vectorised float
arithmetic; the real-arithmetic idealisation planned in DESIGN.md is not
built).  The contracts are checked at run time in a labelled BOUNDED stand-in
(bounded/C15.py) against float64 textbook formulas and a brute-force minimum
image."""
from pyvc.api import bounded_via_script

PROPERTY = "C15"
CASES = []
MIN_OBLIGATIONS = 0
ASSUMPTIONS = ["bounded: seeded random point sets and boxes (orthorhombic, triclinic, and both rigidly rotated), 200 draws per contract "
               "(1000 thorough); tolerances 2e-3 (float32 results vs float64 oracle)"]
UNVERIFIED = ["everything in geometry.py / box.py / transform.py is unproved; transform.py functions and centroid are not exercised"]
EXPLANATION = "bounded run-time check of the C15 contracts through the public API; not a proof"
bounded = bounded_via_script("C15")
