"""C13 -- slicing annotations and annotated sequences matches a per-base model.

Contracts on the real functions of src/biotite/sequence/annotation.py.
Top-level postconditions are taken from the property statement:
  * kept bases of a location == bases inside the slice
  * MISS_LEFT / MISS_RIGHT set iff bases were removed on that side (or the
    flag was already set), every other defect bit and the strand unchanged
  * features without a surviving base are dropped, the others keep key/qual
"""
import sys
import z3
from pyvc.api import (Case, sym_int, sym_str, sym_enum, sym_bool, choice, get_class,
                      new_obj, implies, iff, bv_has)
from pyvc.core import zint, zbool, simp, Unsupported
from pyvc.heap import Obj, PList, PSet, AbsColl, Opaque, SliceObj, EnumVal
from pyvc import natives

PROPERTY = "C13"
ANN = "sequence/annotation.py"
MAXSIZE = sys.maxsize

ASSUMPTIONS = [
    "positions are mathematical integers with |p| < sys.maxsize - 1 (the code uses +-sys.maxsize as open-end sentinels)",
    "Location objects satisfy first <= last (established by Location.__init__, verified here, and the class exposes no mutator)",
    "the feature / location collections are arbitrary finite sets: the loops over them are discharged with the map rule "
    "(body verified for a generic element; side condition 'body is element-wise independent' checked during symbolic execution)",
    "qualifier dictionaries are opaque values; copy.copy / copy.deepcopy return an equal value",
    "biological Sequence objects are abstract sequences of codes (theory of SMT sequences) with contracts for "
    "__getitem__(slice), reverse(), complement(), copy(), __iadd__ taken from sequence.py's documented behaviour (C03 covers them)",
]
UNVERIFIED = [
    "AnnotatedSequence.__setitem__(Feature) with two locations: 'bases outside the feature are unchanged' (undecided by the sequence solvers; "
    "read-back equality and length preservation are proved); features with more than two locations",
    "Annotation.__add__/__iadd__/del_feature/get_location_range, Feature.__lt__/__gt__/get_location_range, __repr__",
    "Sequence.__getitem__/__setitem__/reverse/complement bodies (NumPy; assumed contracts, see C03)",
]
TRUSTED = []


# --------------------------------------------------------------------------
# symbolic model objects

def loc_cls(I):
    return get_class(I, ANN, "Location")


def mk_loc(I, tag):
    Loc = loc_cls(I)
    first = sym_int(I, tag + "_first", -MAXSIZE + 2, MAXSIZE - 2)
    last = sym_int(I, tag + "_last", -MAXSIZE + 2, MAXSIZE - 2)
    I.ctx.assume(first <= last)
    strand = sym_enum(I, Loc.ns["Strand"], tag + "_strand")
    defect = sym_enum(I, Loc.ns["Defect"], tag + "_defect")
    return Obj(Loc, {"_first": first, "_last": last, "_strand": strand, "_defect": defect})


def mk_feature(I, tag, locs=None):
    Feat = get_class(I, ANN, "Feature")
    if locs is None:
        locs = AbsColl(tag + "_locs", mk_loc, kind="frozenset")
    return Obj(Feat, {"_key": sym_str(I, tag + "_key"), "_locs": locs,
                      "_qual": Opaque(tag + "_qual")})


def mk_annotation(I, tag="annot"):
    Ann = get_class(I, ANN, "Annotation")
    return Obj(Ann, {"_features": AbsColl(tag + "_features", mk_feature, kind="set")})


def opt_int(I, name, lo, hi):
    return choice(I, [lambda: None, lambda: sym_int(I, name, lo, hi)])


# --------------------------------------------------------------------------
# Location.__init__

def setup_loc_init(I):
    Loc = loc_cls(I)
    self = Obj(Loc, {})
    first, last = sym_int(I, "first"), sym_int(I, "last")
    strand = sym_enum(I, Loc.ns["Strand"], "strand")
    defect = sym_enum(I, Loc.ns["Defect"], "defect")
    return {"args": [self, first, last, strand, defect]}


def ens_loc_init(I, env):
    v = env.vars
    s = v["self"]
    return [("fields", natives.conj([natives.eq(I, s.attrs["_first"], v["first"]),
                                     natives.eq(I, s.attrs["_last"], v["last"]),
                                     natives.eq(I, s.attrs["_strand"], v["strand"]),
                                     natives.eq(I, s.attrs["_defect"], v["defect"])])),
            ("invariant", s.attrs["_first"] <= s.attrs["_last"])]


# --------------------------------------------------------------------------
# Annotation.__getitem__

def setup_annot_getitem(I):
    self = mk_annotation(I)
    start = opt_int(I, "start", -MAXSIZE + 2, MAXSIZE - 2)
    stop = opt_int(I, "stop", -MAXSIZE + 2, MAXSIZE - 2)
    if start is not None and stop is not None:
        I.ctx.assume(start <= stop)
    index = SliceObj(start, stop, None)
    return {"args": [self, index], "ghost": {"start": start, "stop": stop}}


def per_base_post(I, self_annot, result_annot, start, stop):
    """the per-base model as obligations over the map-rule summaries"""
    Loc = loc_cls(I)
    D = Loc.ns["Defect"].members
    out = []
    feats = result_annot.attrs["_features"]
    if not isinstance(feats, PSet) or feats.summary is None:
        raise Unsupported("result annotation is not a map summary")
    S = feats.summary
    if S.source is not self_annot.attrs["_features"].origin:
        return [("source", False)]
    f = S.elem
    p = I.ctx.fresh_int("p")
    inside = natives.conj([True if start is None else zint(start) <= p,
                           True if stop is None else p < zint(stop)])
    n_emit_cases = 0
    for ci, (cond, items) in enumerate(S.cases):
        out.append((f"one_feature_per_feature#{ci}", implies(cond, len(items) <= 1)))
        if not items:
            continue
        n_emit_cases += 1
        nf = items[0]
        out.append((f"key#{ci}", implies(cond, natives.eq(I, nf.attrs["_key"], f.attrs["_key"]))))
        out.append((f"qual#{ci}", implies(cond, natives.eq(I, nf.attrs["_qual"], f.attrs["_qual"]))))
        locs = nf.attrs["_locs"]
        S2 = getattr(locs, "summary", None)
        if S2 is None or S2.source is not f.attrs["_locs"].origin:
            out.append((f"locs_from_feature#{ci}", False))
            continue
        loc = S2.elem
        lf, ll = loc.attrs["_first"], loc.attrs["_last"]
        kept_terms = []
        for cj, (c2, its) in enumerate(S2.cases):
            out.append((f"one_loc_per_loc#{ci}.{cj}", implies(z3.And(cond, c2), len(its) <= 1)))
            for l in its:
                h = z3.And(cond, c2)
                nfirst, nlast = l.attrs["_first"], l.attrs["_last"]
                kept_terms.append(z3.And(c2, zint(nfirst) <= p, p <= zint(nlast)))
                out.append((f"strand#{ci}.{cj}", implies(h, natives.eq(I, l.attrs["_strand"], loc.attrs["_strand"]))))
                nd, od = l.attrs["_defect"], loc.attrs["_defect"]
                # cut on a side iff bases were removed on that side (or already marked)
                out.append((f"miss_left#{ci}.{cj}",
                            implies(h, iff(bv_has(nd, D["MISS_LEFT"]),
                                           z3.Or(bv_has(od, D["MISS_LEFT"]), zint(lf) < zint(nfirst))))))
                out.append((f"miss_right#{ci}.{cj}",
                            implies(h, iff(bv_has(nd, D["MISS_RIGHT"]),
                                           z3.Or(bv_has(od, D["MISS_RIGHT"]), zint(ll) > zint(nlast))))))
                for other in ("BEYOND_LEFT", "BEYOND_RIGHT", "UNK_LOC", "BETWEEN"):
                    out.append((f"defect_{other}#{ci}.{cj}",
                                implies(h, iff(bv_has(nd, D[other]), bv_has(od, D[other])))))
                out.append((f"loc_invariant#{ci}.{cj}", implies(h, zint(nfirst) <= zint(nlast))))
        kept = z3.Or(kept_terms) if kept_terms else z3.BoolVal(False)
        model = z3.And(zint(lf) <= p, p <= zint(ll), zbool(inside))
        out.append((f"per_base#{ci}", implies(cond, kept == model)))
        # the feature survives iff some location emits (ghost of the map rule)
        out.append((f"feature_kept_iff_loc_kept#{ci}", implies(cond, S2.nonempty)))
    # dropped case: no location of the feature keeps a base
    for ci, (cond, items) in enumerate(S.cases):
        if items:
            continue
        # in this case the inner loop's nonempty ghost must be false; find it
        out.append((f"dropped_means_empty#{ci}", implies(cond, drop_witness(I, cond))))
    out.append(("some_case_emits", n_emit_cases >= 1))
    return out


def drop_witness(I, cond):
    # the dropped case is taken exactly when `len(locs_in_scope) > 0` is false,
    # i.e. when the inner nonempty ghost is false: the ghost is the only Bool
    # constant named nonempty_* in the condition
    names = set()

    def walk(t):
        if z3.is_const(t) and t.decl().kind() == z3.Z3_OP_UNINTERPRETED and str(t).startswith("nonempty_"):
            names.add(t)
        for c in t.children():
            walk(c)
    walk(cond)
    if not names:
        return False
    return z3.And([z3.Not(n) for n in names])


def ens_annot_getitem(I, env):
    v = env.vars
    return per_base_post(I, v["self"], v["result"], v["start"], v["stop"])


def setup_annot_getitem_nonslice(I):
    self = mk_annotation(I)
    index = choice(I, [lambda: sym_int(I, "index"), lambda: sym_str(I, "index"), lambda: None])
    return {"args": [self, index]}


CASES = [
    Case(ANN + "::Location.__init__", setup=setup_loc_init,
         raises={"ValueError": "first > last"},
         ensures=[("init", ens_loc_init)]),
    Case(ANN + "::Annotation.__getitem__", "slice", setup=setup_annot_getitem,
         ensures=[("per_base_model", ens_annot_getitem)]),
    Case(ANN + "::Annotation.__getitem__", "non-slice", setup=setup_annot_getitem_nonslice,
         raises={"TypeError": "True"}),
]

MIN_OBLIGATIONS = 20


# ==========================================================================
# AnnotatedSequence: abstract biological sequence (assumed contract of
# Sequence: code array as an SMT sequence, Python slice semantics)

from pyvc.heap import Class, Native, BoundMethod
from pyvc.interp import Raised

IntSeq = z3.SeqSort(z3.IntSort())
rev_f = z3.Function("rev", IntSeq, IntSeq)
comp_f = z3.Function("comp", IntSeq, IntSeq)


def seq_class(I):
    c = I.ghost.get("AbsSequence")
    if c is not None:
        return c

    def meth(fn):
        n = Native(fn.__name__, lambda I_, a, k: fn(I_, *a, **k))
        n.is_method = True
        return n

    def mk(codes):
        return Obj(cls, {"codes": codes})

    def __len__(I_, self):
        return z3.Length(self.attrs["codes"])

    def __getitem__(I_, self, index):
        codes = self.attrs["codes"]
        n = z3.Length(codes)
        if isinstance(index, SliceObj):
            start, stop, step = natives.slice_indices(I_, index, n)
            if step != 1:
                raise Unsupported("sequence slice with a step")
            ln = z3.If(zint(stop) > zint(start), zint(stop) - zint(start), 0)
            return mk(z3.SubSeq(codes, zint(start), ln))
        j = natives.norm_index(I_, index, n, "sequence index")
        return codes[zint(j)]

    def __setitem__(I_, self, index, item):
        codes = self.attrs["codes"]
        n = z3.Length(codes)
        if isinstance(index, SliceObj):
            start, stop, step = natives.slice_indices(I_, index, n)
            ln = z3.If(zint(stop) > zint(start), zint(stop) - zint(start), 0)
            new = item.attrs["codes"]
            if not I_.ctx.branch(z3.Length(new) == ln):
                raise Raised(I_.make_exc("ValueError", "could not broadcast input array"))
            self.attrs["codes"] = z3.Concat(z3.SubSeq(codes, 0, zint(start)), new,
                                            z3.SubSeq(codes, zint(start) + ln, n - zint(start) - ln))
            return None
        j = natives.norm_index(I_, index, n, "sequence index")
        self.attrs["codes"] = z3.Concat(z3.SubSeq(codes, 0, zint(j)), z3.Unit(zint(item)),
                                        z3.SubSeq(codes, zint(j) + 1, n - zint(j) - 1))

    def copy(I_, self, new_seq_code=None):
        if new_seq_code is not None:
            return mk(z3.Empty(IntSeq))
        return mk(self.attrs["codes"])

    def reverse(I_, self, copy=True):
        c = self.attrs["codes"]
        r = rev_f(c)
        I_.ctx.assume(z3.And(z3.Length(r) == z3.Length(c), rev_f(r) == c))
        if z3.is_app(c) and c.decl().name() == "comp":
            # reversal and complement commute
            I_.ctx.assume(r == comp_f(rev_f(c.arg(0))))
            I_.ctx.assume(z3.And(z3.Length(rev_f(c.arg(0))) == z3.Length(c.arg(0)), rev_f(rev_f(c.arg(0))) == c.arg(0)))
        return mk(r)

    def complement(I_, self):
        c = self.attrs["codes"]
        r = comp_f(c)
        I_.ctx.assume(z3.And(z3.Length(r) == z3.Length(c), comp_f(r) == c))
        return mk(r)

    def __iadd__(I_, self, other):
        return mk(z3.Concat(self.attrs["codes"], other.attrs["codes"]))

    def __eq__(I_, self, other):
        if not (isinstance(other, Obj) and other.cls is cls):
            return False
        return self.attrs["codes"] == other.attrs["codes"]
    ns = {f.__name__: meth(f) for f in (__len__, __getitem__, __setitem__, copy, reverse, complement, __iadd__, __eq__)}
    ns["__add__"] = ns["__iadd__"]
    cls = Class("AbsSequence", (), ns, None, "user")
    I.ghost["AbsSequence"] = cls
    x = z3.Const("x!seq", IntSeq)
    # reverse() and complement() are length-preserving, commuting involutions
    # (stated with quantifiers only where a proof needs them on compound terms;
    # the other cases get the instances for the terms they create)
    if I.ghost.get("seq_axioms_quantified"):
      I.ctx.assume(z3.ForAll([x], z3.And(rev_f(rev_f(x)) == x, z3.Length(rev_f(x)) == z3.Length(x)), patterns=[rev_f(x)]))
      I.ctx.assume(z3.ForAll([x], z3.And(comp_f(comp_f(x)) == x, z3.Length(comp_f(x)) == z3.Length(x)), patterns=[comp_f(x)]))
      I.ctx.assume(z3.ForAll([x], rev_f(comp_f(x)) == comp_f(rev_f(x)), patterns=[rev_f(comp_f(x))]))
    I.ctx.trusted.add("Sequence contract: code array as SMT sequence; __getitem__/__setitem__ follow Python/NumPy slice semantics, "
                      "copy() equal codes, reverse()/complement() are length-preserving involutions (uninterpreted), += concatenates")
    return cls


def mk_annot_seq(I, with_bounds=True):
    AS = get_class(I, ANN, "AnnotatedSequence")
    codes = z3.Const("codes", IntSeq)
    seq = Obj(seq_class(I), {"codes": codes})
    ss = sym_int(I, "seqstart", 1, MAXSIZE // 4)
    n = z3.Length(codes)

    def mk_loc_in(I_, tag):
        loc = mk_loc(I_, tag)
        # features of an annotated sequence lie on the sequence
        I_.ctx.assume(z3.And(loc.attrs["_first"] >= ss, loc.attrs["_last"] <= ss + n - 1))
        return loc

    def mk_feat_in(I_, tag):
        return mk_feature(I_, tag, locs=AbsColl(tag + "_locs", mk_loc_in, kind="frozenset"))
    Ann = get_class(I, ANN, "Annotation")
    annot = Obj(Ann, {"_features": AbsColl("annot_features", mk_feat_in, kind="set")})
    obj = Obj(AS, {"_annotation": annot, "_sequence": seq, "_seqstart": ss})
    return obj, annot, seq, ss, codes


def setup_aseq_slice(I):
    obj, annot, seq, ss, codes = mk_annot_seq(I)
    n = z3.Length(codes)
    start = opt_int(I, "start", 1, MAXSIZE // 2)
    stop = opt_int(I, "stop", 1, MAXSIZE // 2)
    lo = start if start is not None else ss
    hi = stop if stop is not None else ss + n
    I.ctx.assume(z3.And(ss <= lo, lo <= hi, hi <= ss + n))
    return {"args": [obj, SliceObj(start, stop, None)],
            "ghost": {"start": start, "stop": stop, "ss": ss, "codes": codes, "annot": annot, "lo": lo, "hi": hi}}


def ens_aseq_slice(I, env):
    v = env.vars
    res = v["result"]
    out = []
    out.append(("is_annotated_sequence", isinstance(res, Obj) and res.cls.name == "AnnotatedSequence"))
    if not (isinstance(res, Obj) and res.cls.name == "AnnotatedSequence"):
        return out
    lo, hi, ss, codes = v["lo"], v["hi"], v["ss"], v["codes"]
    rs = res.attrs["_sequence"]
    out.append(("subsequence", rs.attrs["codes"] == z3.SubSeq(codes, zint(lo) - ss, zint(hi) - zint(lo))))
    out.append(("sequence_start", natives.eq(I, res.attrs["_seqstart"], lo)))
    # per-base model in location coordinates: bases lo .. hi-1 (an open bound is the sequence end / start)
    for name, g in per_base_post(I, v["annot"], res.attrs["_annotation"],
                                 v["start"], v["stop"] if v["stop"] is not None else None):
        out.append(("annotation." + name, g))
    return out


def setup_aseq_int(I):
    obj, annot, seq, ss, codes = mk_annot_seq(I)
    idx = sym_int(I, "index")
    I.ctx.assume(z3.And(idx >= ss, idx < ss + z3.Length(codes)))
    return {"args": [obj, idx], "ghost": {"ss": ss, "codes": codes, "idx": idx}}


def setup_copy(I):
    obj, annot, seq, ss, codes = mk_annot_seq(I)
    return {"args": [obj], "ghost": {"orig": obj, "ss": ss, "codes": codes, "annot": annot, "seq": seq}}


def ens_copy(I, env):
    v = env.vars
    res = v["result"]
    out = [("is_annotated_sequence", isinstance(res, Obj) and res.cls.name == "AnnotatedSequence")]
    if not out[0][1]:
        return out
    rs = res.attrs["_sequence"]
    ok_seq = isinstance(rs, Obj) and rs.cls.name == "AbsSequence"
    out.append(("sequence_is_a_sequence", ok_seq))
    if ok_seq:
        out.append(("sequence_equal", rs.attrs["codes"] == v["codes"]))
        out.append(("sequence_independent", rs is not v["seq"]))
    out.append(("sequence_start", natives.eq(I, res.attrs["_seqstart"], v["ss"])))
    ra = res.attrs["_annotation"]
    out.append(("annotation_independent", ra is not v["annot"] and ra.attrs["_features"] is not v["annot"].attrs["_features"]))
    return out


def setup_revcomp(I):
    obj, annot, seq, ss, codes = mk_annot_seq(I)
    rs = sym_int(I, "rev_start", 1, MAXSIZE // 4)
    return {"args": [obj, rs], "ghost": {"orig": obj, "ss": ss, "codes": codes, "annot": annot, "rs": rs}}


def ens_revcomp(I, env):
    """position / strand / defect mapping, and: applying it twice restores the original"""
    v = env.vars
    res = v["result"]
    Loc = loc_cls(I)
    D = Loc.ns["Defect"].members
    St = Loc.ns["Strand"].members
    out = []
    n = z3.Length(v["codes"])
    out.append(("sequence", res.attrs["_sequence"].attrs["codes"] == comp_f(rev_f(v["codes"]))))
    out.append(("sequence_start", natives.eq(I, res.attrs["_seqstart"], v["rs"])))
    feats = res.attrs["_annotation"].attrs["_features"]
    S = getattr(feats, "summary", None)
    if S is None or S.source is not v["annot"].attrs["_features"].origin:
        return out + [("features_from_annotation", False)]
    f = S.elem
    for ci, (cond, items) in enumerate(S.cases):
        out.append((f"one_feature#{ci}", implies(cond, len(items) == 1)))
        for nf in items:
            out.append((f"key#{ci}", implies(cond, natives.eq(I, nf.attrs["_key"], f.attrs["_key"]))))
            out.append((f"qual#{ci}", implies(cond, natives.eq(I, nf.attrs["_qual"], f.attrs["_qual"]))))
            S2 = getattr(nf.attrs["_locs"], "summary", None)
            if S2 is None or S2.source is not f.attrs["_locs"].origin:
                out.append((f"locs_from_feature#{ci}", False))
                continue
            loc = S2.elem
            for cj, (c2, its) in enumerate(S2.cases):
                h = z3.And(cond, c2)
                out.append((f"one_loc#{ci}.{cj}", implies(h, len(its) == 1)))
                for l in its:
                    # base p of the original is base (ss + n - 1 - p) + rs of the reverse complement
                    out.append((f"first#{ci}.{cj}", implies(h, zint(l.attrs["_first"]) == (v["ss"] + n - 1 - zint(loc.attrs["_last"])) + v["rs"])))
                    out.append((f"last#{ci}.{cj}", implies(h, zint(l.attrs["_last"]) == (v["ss"] + n - 1 - zint(loc.attrs["_first"])) + v["rs"])))
                    out.append((f"strand_flipped#{ci}.{cj}", implies(h, natives.neg(natives.eq(I, l.attrs["_strand"], loc.attrs["_strand"])))))
                    nd, od = l.attrs["_defect"], loc.attrs["_defect"]
                    for a, b in (("MISS_LEFT", "MISS_RIGHT"), ("MISS_RIGHT", "MISS_LEFT"), ("BEYOND_LEFT", "BEYOND_RIGHT"),
                                 ("BEYOND_RIGHT", "BEYOND_LEFT"), ("UNK_LOC", "UNK_LOC"), ("BETWEEN", "BETWEEN")):
                        out.append((f"defect_{a}#{ci}.{cj}", implies(h, iff(bv_has(nd, D[a]), bv_has(od, D[b])))))
    # involution: reverse_complement(sequence_start = original start) of the result
    rc = get_class(I, ANN, "AnnotatedSequence").ns["reverse_complement"]
    back = I.call(BoundMethod(rc, res), [v["ss"]], {})
    out.append(("twice.sequence", back.attrs["_sequence"].attrs["codes"] == comp_f(rev_f(comp_f(rev_f(v["codes"]))))))
    out.append(("twice.sequence_start", natives.eq(I, back.attrs["_seqstart"], v["ss"])))
    S = getattr(back.attrs["_annotation"].attrs["_features"], "summary", None)
    if S is None or S.source is not v["annot"].attrs["_features"].origin:
        return out + [("twice.features_from_annotation", False)]
    f = S.elem
    for ci, (cond, items) in enumerate(S.cases):
        out.append((f"twice.one_feature#{ci}", implies(cond, len(items) == 1)))
        for nf in items:
            S2 = getattr(nf.attrs["_locs"], "summary", None)
            if S2 is None:
                out.append((f"twice.locs#{ci}", False))
                continue
            loc = S2.elem
            for cj, (c2, its) in enumerate(S2.cases):
                h = z3.And(cond, c2)
                out.append((f"twice.one_loc#{ci}.{cj}", implies(h, len(its) == 1)))
                for l in its:
                    for fld in ("_first", "_last", "_strand", "_defect"):
                        out.append((f"twice.restored{fld}#{ci}.{cj}", implies(h, natives.eq(I, l.attrs[fld], loc.attrs[fld]))))
    return out


CASES += [
    Case(ANN + "::AnnotatedSequence.__getitem__", "slice", setup=setup_aseq_slice,
         ensures=[("slice", ens_aseq_slice)], timeout=20),
    Case(ANN + "::AnnotatedSequence.__getitem__", "int", setup=setup_aseq_int,
         ensures=[("symbol", lambda I, env: natives.eq(I, env.vars["result"], env.vars["codes"][env.vars["idx"] - env.vars["ss"]]))]),
    Case("copyable.py::Copyable.copy", "AnnotatedSequence", setup=setup_copy,
         ensures=[("copy", ens_copy)]),
    Case(ANN + "::AnnotatedSequence.reverse_complement", setup=setup_revcomp,
         ensures=[("reverse_complement", ens_revcomp)], timeout=20),
]


# ==========================================================================
# Feature indexing: aseq[feature] and aseq[feature] = item  (features with a
# concrete number of locations, 1 or 2; positions, strands and the sequence
# are arbitrary; the iteration order of the location frozenset is arbitrary)

import itertools


def mk_feature_k(I, k, ss, n, disjoint=True):
    Feat = get_class(I, ANN, "Feature")
    locs = []
    for i in range(k):
        loc = mk_loc(I, f"floc{i}")
        I.ctx.assume(z3.And(loc.attrs["_first"] >= ss, loc.attrs["_last"] <= ss + n - 1))
        locs.append(loc)
    if disjoint:
        for a, b in itertools.combinations(locs, 2):
            I.ctx.assume(z3.Or(a.attrs["_last"] < b.attrs["_first"], b.attrs["_last"] < a.attrs["_first"]))
    # a frozenset iterates in an arbitrary order
    perms = list(itertools.permutations(range(k)))
    order = perms[I.ctx.choose(len(perms))]
    return Obj(Feat, {"_key": "gene", "_locs": PSet([locs[i] for i in order], frozen=True), "_qual": Opaque("qual")}), locs


def chunk(codes, loc, ss):
    return z3.SubSeq(codes, zint(loc.attrs["_first"]) - ss, zint(loc.attrs["_last"]) - zint(loc.attrs["_first"]) + 1)


def expected_feature_seq(I, codes, locs, ss):
    """location subsequences in biological order; reverse strand: descending positions, each reverse-complemented.
    Returns list of (condition, expected codes)"""
    Loc = loc_cls(I)
    FWD, REV = Loc.ns["Strand"].members["FORWARD"], Loc.ns["Strand"].members["REVERSE"]
    out = []
    for perm in itertools.permutations(range(len(locs))):
        ordered = [locs[i] for i in perm]
        asc = natives.conj([zint(a.attrs["_first"]) < zint(b.attrs["_first"]) for a, b in zip(ordered, ordered[1:])])
        desc = natives.conj([zint(a.attrs["_last"]) > zint(b.attrs["_last"]) for a, b in zip(ordered, ordered[1:])])
        allf = natives.conj([natives.eq(I, l.attrs["_strand"], FWD) for l in locs])
        allr = natives.conj([natives.eq(I, l.attrs["_strand"], REV) for l in locs])
        fw = [chunk(codes, l, ss) for l in ordered]
        rv = [comp_f(rev_f(chunk(codes, l, ss))) for l in ordered]
        cat = lambda xs: z3.Concat(*xs) if len(xs) > 1 else xs[0]
        out.append((natives.conj([allf, asc]), cat(fw)))
        out.append((natives.conj([allr, desc]), cat(rv)))
    return out


def setup_feat_get(k):
    def setup(I):
        obj, annot, seq, ss, codes = mk_annot_seq(I)
        feat, locs = mk_feature_k(I, k, ss, z3.Length(codes))
        return {"args": [obj, feat], "ghost": {"ss": ss, "codes": codes, "locs": locs}}
    return setup


def same_strand(I, locs):
    return natives.conj([natives.eq(I, a.attrs["_strand"], b.attrs["_strand"]) for a, b in zip(locs, locs[1:])])


def ens_feat_get(I, env):
    v = env.vars
    res = v["result"]
    out = []
    for i, (cond, exp) in enumerate(expected_feature_seq(I, v["codes"], v["locs"], v["ss"])):
        out.append((f"biological_order#{i}", implies(cond, res.attrs["codes"] == exp)))
    return out


def setup_feat_set(k):
    def setup(I):
        I.ghost["seq_axioms_quantified"] = True
        obj, annot, seq, ss, codes = mk_annot_seq(I)
        feat, locs = mk_feature_k(I, k, ss, z3.Length(codes))
        I.ctx.assume(same_strand(I, locs))
        item_codes = z3.Const("item", IntSeq)
        total = sum((zint(l.attrs["_last"]) - zint(l.attrs["_first"]) + 1 for l in locs), z3.IntVal(0))
        I.ctx.assume(z3.Length(item_codes) == total)
        item = Obj(seq_class(I), {"codes": item_codes})
        return {"args": [obj, feat, item], "ghost": {"ss": ss, "codes0": codes, "locs": locs, "item": item_codes, "feat": feat, "aseq": obj}}
    return setup


def ens_feat_set(I, env):
    """after aseq[f] = item:  aseq[f] == item, the length is unchanged and bases outside the feature keep their value"""
    v = env.vars
    aseq = v["aseq"]
    new = aseq.attrs["_sequence"].attrs["codes"]
    out = [("length_unchanged", z3.Length(new) == z3.Length(v["codes0"]))]
    if len(v["locs"]) == 1:
        # (for two locations this frame obligation is left undecided by the z3 and cvc5
        # sequence solvers within the budget; it is not claimed there -- see UNVERIFIED)
        p = I.ctx.fresh_int("p")
        inside = natives.disj([z3.And(p >= zint(l.attrs["_first"]) - v["ss"], p <= zint(l.attrs["_last"]) - v["ss"]) for l in v["locs"]])
        out.append(("frame", implies(z3.And(p >= 0, p < z3.Length(new), z3.Not(zbool(inside))), new[p] == v["codes0"][p])))
    getter = get_class(I, ANN, "AnnotatedSequence").ns["__getitem__"]
    back = I.call(BoundMethod(getter, aseq), [v["feat"]], {})
    out.append(("read_back_equals_item", back.attrs["codes"] == v["item"]))
    return out


for _k in (1, 2):
    CASES.append(Case(ANN + "::AnnotatedSequence.__getitem__", f"feature with {_k} location(s)", setup=setup_feat_get(_k),
                      raises={"ValueError": lambda I, env: natives.neg(same_strand(I, env.vars["locs"]))},
                      ensures=[("feature_index", ens_feat_get)], timeout=20))
    CASES.append(Case(ANN + "::AnnotatedSequence.__setitem__", f"feature with {_k} location(s)", setup=setup_feat_set(_k),
                      ensures=[("feature_assign", ens_feat_set)], timeout=20 if _k == 1 else 120,
                      # the two-location read-back proof needs minutes of sequence-theory solving: thorough tier only
                      tiers=("quick", "thorough") if _k == 1 else ("thorough",)))

from pyvc.api import bounded_via_script
bounded = bounded_via_script("C13")
ASSUMPTIONS.append("bounded stand-in (labelled, not a proof; the proofs above are the decision for the functions under contract): seeded random annotated "
                   "sequences through the public API vs a per-base model - slices, slice of slice, feature read / assignment with 1..3 locations on either "
                   "strand, reverse complement once and twice, copy (bounded/C13.py); it supplies failing inputs that replay on the public API")
