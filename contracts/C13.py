"""C13 -- slicing annotations and annotated sequences matches a per-base model.

Contracts on the real functions of src/biotite/sequence/annotation.py.
Top-level postconditions are taken from the property statement:
  * kept bases of a location == bases inside the slice
  * MISS_LEFT / MISS_RIGHT set iff bases were removed on that side (or the
    flag was already set), every other defect bit and the strand unchanged
  * features without a surviving base are dropped, the others keep key/qual
"""
import sys
import z3
from pyvc.api import (Case, sym_int, sym_str, sym_enum, sym_bool, choice, get_class,
                      new_obj, implies, iff, bv_has)
from pyvc.core import zint, zbool, simp, Unsupported
from pyvc.heap import Obj, PList, PSet, AbsColl, Opaque, SliceObj, EnumVal
from pyvc import natives

PROPERTY = "C13"
ANN = "sequence/annotation.py"
MAXSIZE = sys.maxsize

ASSUMPTIONS = [
    "positions are mathematical integers with |p| < sys.maxsize - 1 (the code uses +-sys.maxsize as open-end sentinels)",
    "Location objects satisfy first <= last (established by Location.__init__, verified here, and the class exposes no mutator)",
    "the feature / location collections are arbitrary finite sets: the loops over them are discharged with the map rule "
    "(body verified for a generic element; side condition 'body is element-wise independent' checked during symbolic execution)",
    "qualifier dictionaries are opaque values; copy.copy / copy.deepcopy return an equal value",
    "biological Sequence objects are abstract sequences of codes (theory of SMT sequences) with contracts for "
    "__getitem__(slice), reverse(), complement(), copy(), __iadd__ taken from sequence.py's documented behaviour (C03 covers them)",
]
UNVERIFIED = [
    "Annotation.__add__/__iadd__/del_feature/get_location_range, Feature.__lt__/__gt__/get_location_range, __repr__",
    "Sequence.__getitem__/__setitem__/reverse/complement bodies (NumPy; assumed contracts, see C03)",
]
TRUSTED = []


# --------------------------------------------------------------------------
# symbolic model objects

def loc_cls(I):
    return get_class(I, ANN, "Location")


def mk_loc(I, tag):
    Loc = loc_cls(I)
    first = sym_int(I, tag + "_first", -MAXSIZE + 2, MAXSIZE - 2)
    last = sym_int(I, tag + "_last", -MAXSIZE + 2, MAXSIZE - 2)
    I.ctx.assume(first <= last)
    strand = sym_enum(I, Loc.ns["Strand"], tag + "_strand")
    defect = sym_enum(I, Loc.ns["Defect"], tag + "_defect")
    return Obj(Loc, {"_first": first, "_last": last, "_strand": strand, "_defect": defect})


def mk_feature(I, tag, locs=None):
    Feat = get_class(I, ANN, "Feature")
    if locs is None:
        locs = AbsColl(tag + "_locs", mk_loc, kind="frozenset")
    return Obj(Feat, {"_key": sym_str(I, tag + "_key"), "_locs": locs,
                      "_qual": Opaque(tag + "_qual")})


def mk_annotation(I, tag="annot"):
    Ann = get_class(I, ANN, "Annotation")
    return Obj(Ann, {"_features": AbsColl(tag + "_features", mk_feature, kind="set")})


def opt_int(I, name, lo, hi):
    return choice(I, [lambda: None, lambda: sym_int(I, name, lo, hi)])


# --------------------------------------------------------------------------
# Location.__init__

def setup_loc_init(I):
    Loc = loc_cls(I)
    self = Obj(Loc, {})
    first, last = sym_int(I, "first"), sym_int(I, "last")
    strand = sym_enum(I, Loc.ns["Strand"], "strand")
    defect = sym_enum(I, Loc.ns["Defect"], "defect")
    return {"args": [self, first, last, strand, defect]}


def ens_loc_init(I, env):
    v = env.vars
    s = v["self"]
    return [("fields", natives.conj([natives.eq(I, s.attrs["_first"], v["first"]),
                                     natives.eq(I, s.attrs["_last"], v["last"]),
                                     natives.eq(I, s.attrs["_strand"], v["strand"]),
                                     natives.eq(I, s.attrs["_defect"], v["defect"])])),
            ("invariant", s.attrs["_first"] <= s.attrs["_last"])]


# --------------------------------------------------------------------------
# Annotation.__getitem__

def setup_annot_getitem(I):
    self = mk_annotation(I)
    start = opt_int(I, "start", -MAXSIZE + 2, MAXSIZE - 2)
    stop = opt_int(I, "stop", -MAXSIZE + 2, MAXSIZE - 2)
    if start is not None and stop is not None:
        I.ctx.assume(start <= stop)
    index = SliceObj(start, stop, None)
    return {"args": [self, index], "ghost": {"start": start, "stop": stop}}


def per_base_post(I, self_annot, result_annot, start, stop):
    """the per-base model as obligations over the map-rule summaries"""
    Loc = loc_cls(I)
    D = Loc.ns["Defect"].members
    out = []
    feats = result_annot.attrs["_features"]
    if not isinstance(feats, PSet) or feats.summary is None:
        raise Unsupported("result annotation is not a map summary")
    S = feats.summary
    if S.source is not self_annot.attrs["_features"]:
        return [("source", False)]
    f = S.elem
    p = I.ctx.fresh_int("p")
    inside = natives.conj([True if start is None else zint(start) <= p,
                           True if stop is None else p < zint(stop)])
    n_emit_cases = 0
    for ci, (cond, items) in enumerate(S.cases):
        out.append((f"one_feature_per_feature#{ci}", implies(cond, len(items) <= 1)))
        if not items:
            continue
        n_emit_cases += 1
        nf = items[0]
        out.append((f"key#{ci}", implies(cond, natives.eq(I, nf.attrs["_key"], f.attrs["_key"]))))
        out.append((f"qual#{ci}", implies(cond, natives.eq(I, nf.attrs["_qual"], f.attrs["_qual"]))))
        locs = nf.attrs["_locs"]
        S2 = getattr(locs, "summary", None)
        if S2 is None or S2.source is not f.attrs["_locs"]:
            out.append((f"locs_from_feature#{ci}", False))
            continue
        loc = S2.elem
        lf, ll = loc.attrs["_first"], loc.attrs["_last"]
        kept_terms = []
        for cj, (c2, its) in enumerate(S2.cases):
            out.append((f"one_loc_per_loc#{ci}.{cj}", implies(z3.And(cond, c2), len(its) <= 1)))
            for l in its:
                h = z3.And(cond, c2)
                nfirst, nlast = l.attrs["_first"], l.attrs["_last"]
                kept_terms.append(z3.And(c2, zint(nfirst) <= p, p <= zint(nlast)))
                out.append((f"strand#{ci}.{cj}", implies(h, natives.eq(I, l.attrs["_strand"], loc.attrs["_strand"]))))
                nd, od = l.attrs["_defect"], loc.attrs["_defect"]
                # cut on a side iff bases were removed on that side (or already marked)
                out.append((f"miss_left#{ci}.{cj}",
                            implies(h, iff(bv_has(nd, D["MISS_LEFT"]),
                                           z3.Or(bv_has(od, D["MISS_LEFT"]), zint(lf) < zint(nfirst))))))
                out.append((f"miss_right#{ci}.{cj}",
                            implies(h, iff(bv_has(nd, D["MISS_RIGHT"]),
                                           z3.Or(bv_has(od, D["MISS_RIGHT"]), zint(ll) > zint(nlast))))))
                for other in ("BEYOND_LEFT", "BEYOND_RIGHT", "UNK_LOC", "BETWEEN"):
                    out.append((f"defect_{other}#{ci}.{cj}",
                                implies(h, iff(bv_has(nd, D[other]), bv_has(od, D[other])))))
                out.append((f"loc_invariant#{ci}.{cj}", implies(h, zint(nfirst) <= zint(nlast))))
        kept = z3.Or(kept_terms) if kept_terms else z3.BoolVal(False)
        model = z3.And(zint(lf) <= p, p <= zint(ll), zbool(inside))
        out.append((f"per_base#{ci}", implies(cond, kept == model)))
        # the feature survives iff some location emits (ghost of the map rule)
        out.append((f"feature_kept_iff_loc_kept#{ci}", implies(cond, S2.nonempty)))
    # dropped case: no location of the feature keeps a base
    for ci, (cond, items) in enumerate(S.cases):
        if items:
            continue
        # in this case the inner loop's nonempty ghost must be false; find it
        out.append((f"dropped_means_empty#{ci}", implies(cond, drop_witness(I, cond))))
    out.append(("some_case_emits", n_emit_cases >= 1))
    return out


def drop_witness(I, cond):
    # the dropped case is taken exactly when `len(locs_in_scope) > 0` is false,
    # i.e. when the inner nonempty ghost is false: the ghost is the only Bool
    # constant named nonempty_* in the condition
    names = set()

    def walk(t):
        if z3.is_const(t) and t.decl().kind() == z3.Z3_OP_UNINTERPRETED and str(t).startswith("nonempty_"):
            names.add(t)
        for c in t.children():
            walk(c)
    walk(cond)
    if not names:
        return False
    return z3.And([z3.Not(n) for n in names])


def ens_annot_getitem(I, env):
    v = env.vars
    return per_base_post(I, v["self"], v["result"], v["start"], v["stop"])


def setup_annot_getitem_nonslice(I):
    self = mk_annotation(I)
    index = choice(I, [lambda: sym_int(I, "index"), lambda: sym_str(I, "index"), lambda: None])
    return {"args": [self, index]}


CASES = [
    Case(ANN + "::Location.__init__", setup=setup_loc_init,
         raises={"ValueError": "first > last"},
         ensures=[("init", ens_loc_init)]),
    Case(ANN + "::Annotation.__getitem__", "slice", setup=setup_annot_getitem,
         ensures=[("per_base_model", ens_annot_getitem)]),
    Case(ANN + "::Annotation.__getitem__", "non-slice", setup=setup_annot_getitem_nonslice,
         raises={"TypeError": "True"}),
]

MIN_OBLIGATIONS = 20
