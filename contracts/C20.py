"""C20 -- application wrappers follow their life cycle and always clean up.

Typestate contracts on the real methods of application/application.py,
localapp.py and msaapp.py.  The abstract hooks (run / is_finished /
wait_interval / evaluate / clean_up) and the operating system are replaced by
specification-only stubs with ghost counters:
   run()          returns or raises RunError             ghost runs += 1
   is_finished()  returns an arbitrary bool per call
   evaluate()     returns, raises EvalError, or raises AppStateError
                                                         ghost evals += 1
   clean_up()     ghost cleanups += 1
"""
import z3
from pyvc.api import Case, sym_int, sym_str, sym_bool, sym_enum, choice, get_class, implies, iff
from pyvc.core import zint, zbool, simp, Unsupported
from pyvc.heap import Obj, Class, Native, PList, PDict, EnumVal, Module, Opaque
from pyvc.interp import Raised
from pyvc import natives

PROPERTY = "C20"
APP = "application/application.py"
LOCAL = "application/localapp.py"
MSA = "application/msaapp.py"

ASSUMPTIONS = [
    "the abstract hooks run/is_finished/wait_interval/evaluate/clean_up of a concrete application are arbitrary: "
    "they may return or raise (RunError / EvalError / AppStateError) and have no effect on _state; "
    "clean_up is counted by a ghost counter",
    "time.time / time.sleep are havoc; termination of the polling loop in join() is not claimed (liveness of the external program)",
    "the operating system is a ghost record: os.getcwd/chdir act on a ghost working directory, chdir and Popen may raise OSError, "
    "Popen.communicate may raise TimeoutExpired, NamedTemporaryFile objects count close() calls, os.remove records the path",
    "AppState values handled by the methods are single members (class invariant: exactly one bit set), proved preserved by every method",
]
UNVERIFIED = [
    "WebApp and the concrete wrappers (clustalo, muscle, mafft, ...): command-line assembly only",
    "MSAApp.__init__/run/evaluate bodies (FASTA writing, trace_from_strings, NumPy order array) -- order restoration is not claimed",
    "map_sequence / map_matrix (NumPy)",
]


def members(I):
    return get_class(I, APP, "AppState").members


def single_state(I, name="state0"):
    cls = get_class(I, APP, "AppState")
    bv = I.ctx.fresh_bv(name)
    I.ctx.assume(z3.Or([bv == z3.BitVecVal(m.value, 16) for m in cls.members.values()]))
    return EnumVal(cls, bv)


def state_is(st, member):
    v = st.value if isinstance(st, EnumVal) else st
    if isinstance(v, int):
        return v == member.value
    return v == z3.BitVecVal(member.value, 16)


def state_in(st, *ms):
    return natives.disj([state_is(st, m) for m in ms])


def exc_class(I, name):
    c = I.ghost.get("exc_" + name)
    if c is None:
        c = Class(name, (I.builtins["Exception"],), {}, None, "exception")
        I.ghost["exc_" + name] = c
    return c


def spec_app_class(I, base_rel=APP, base_name="Application"):
    """specification-only subclass with havoc hooks and ghost counters"""
    base = get_class(I, base_rel, base_name)
    AppStateError = get_class(I, APP, "AppStateError")

    def meth(fn):
        n = Native(fn.__name__, lambda I_, a, k: fn(I_, *a, **k))
        n.is_method = True
        return n

    def run(I_, self):
        self.attrs["_g_runs"] = self.attrs["_g_runs"] + 1
        if I_.ctx.choose(2) == 1:
            raise Raised(Obj(exc_class(I_, "RunError"), {"args": ()}))

    def is_finished(I_, self):
        return I_.ctx.fresh_bool("finished")

    def wait_interval(I_, self):
        t = I_.ctx.fresh_real("interval")
        I_.ctx.assume(t >= 0)
        return t

    def evaluate(I_, self):
        # hook precondition: the results are read here, i.e. the application is FINISHED when evaluate() runs
        I_.ctx.oblige(f"{base_name}.join::hook_requires[evaluate() is called in state FINISHED]",
                      state_is(self.attrs["_state"], members(I_)["FINISHED"]), "pre")
        self.attrs["_g_evals"] = self.attrs["_g_evals"] + 1
        k = I_.ctx.choose(3)
        if k == 1:
            raise Raised(Obj(exc_class(I_, "EvalError"), {"args": ()}))
        if k == 2:
            raise Raised(Obj(AppStateError, {"args": ()}))

    def clean_up(I_, self):
        self.attrs["_g_cleanups"] = self.attrs["_g_cleanups"] + 1

    ns = {f.__name__: meth(f) for f in (run, is_finished, wait_interval, evaluate, clean_up)}
    return Class("SpecApp", (base,), ns, None, "user")


def mk_app(I, state=None):
    cls = spec_app_class(I)
    st = state if state is not None else single_state(I)
    app = Obj(cls, {"_state": st, "_start_time": I.ctx.fresh_real("t0"),
                    "_g_runs": sym_int(I, "runs0", 0), "_g_evals": sym_int(I, "evals0", 0),
                    "_g_cleanups": sym_int(I, "cleanups0", 0)})
    return app


def setup_app(extra_args=()):
    def setup(I):
        app = mk_app(I)
        args = [app] + [a(I) if callable(a) else a for a in extra_args]
        return {"args": args,
                "ghost": {"self": app, "state0": app.attrs["_state"], "runs0": app.attrs["_g_runs"],
                          "evals0": app.attrs["_g_evals"], "cleanups0": app.attrs["_g_cleanups"],
                          "M": members(I)}}
    return setup


def cur(env):
    s = env.vars["self"]
    return (s.attrs["_state"], s.attrs["_g_runs"], s.attrs["_g_evals"], s.attrs["_g_cleanups"])


def frame_only_refresh(I, env):
    """AppStateError path: no side effect -- counters unchanged; _state
    unchanged except for the RUNNING->FINISHED refresh that merely records
    that the external program ended"""
    M = members(I)
    st, runs, evals, cl = cur(env)
    s0 = env.vars["state0"]
    same = natives.eq(I, st, s0)
    refresh = natives.conj([state_is(s0, M["RUNNING"]), state_is(st, M["FINISHED"])])
    return [("state", natives.disj([same, refresh])),
            ("runs", runs == env.vars["runs0"]),
            ("evals", evals == env.vars["evals0"]),
            ("cleanups", cl == env.vars["cleanups0"])]


def single_bit(I, env):
    st = cur(env)[0]
    M = members(I)
    return state_in(st, *M.values())


# ---- start ---------------------------------------------------------------

def ens_start(I, env):
    M = members(I)
    st, runs, evals, cl = cur(env)
    return [("state", state_is(st, M["RUNNING"])), ("ran_once", runs == env.vars["runs0"] + 1),
            ("no_eval", evals == env.vars["evals0"]), ("no_cleanup", cl == env.vars["cleanups0"])]


def exc_start_runerror(I, env):
    # failure to launch: the run has ended -> clean-up exactly once, wrapper unusable afterwards
    M = members(I)
    st, runs, evals, cl = cur(env)
    return [("cleanup_once", cl == env.vars["cleanups0"] + 1),
            ("state_terminal", state_is(st, M["CANCELLED"]))]


# ---- join ----------------------------------------------------------------

def call_was_allowed(I, env):
    """join() gets past its state guard only from RUNNING or FINISHED: every outcome other than the
    state error of a refused call implies that the life cycle allowed the call"""
    M = members(I)
    return state_in(env.vars["state0"], M["RUNNING"], M["FINISHED"])


def ens_join(I, env):
    M = members(I)
    st, runs, evals, cl = cur(env)
    return [("call_was_allowed", call_was_allowed(I, env)),
            ("state", state_is(st, M["JOINED"])), ("cleanup_once", cl == env.vars["cleanups0"] + 1),
            ("evaluated_once", evals == env.vars["evals0"] + 1), ("no_rerun", runs == env.vars["runs0"])]


def exc_join_terminal(I, env):
    M = members(I)
    st, runs, evals, cl = cur(env)
    return [("call_was_allowed", call_was_allowed(I, env)),
            ("state", state_is(st, M["CANCELLED"])), ("cleanup_once", cl == env.vars["cleanups0"] + 1)]


def exc_join_stateerror(I, env):
    """AppStateError: either the call was not allowed (frame) or evaluate()
    itself raised it after the program finished (state FINISHED, nothing cleaned)"""
    M = members(I)
    st, runs, evals, cl = cur(env)
    s0 = env.vars["state0"]
    allowed = state_in(s0, M["RUNNING"], M["FINISHED"])
    fr = natives.conj([g for _, g in frame_only_refresh(I, env)])
    from_eval = natives.conj([state_is(st, M["FINISHED"]), cl == env.vars["cleanups0"],
                              evals == env.vars["evals0"] + 1])
    return [("not_allowed_frame", implies(natives.neg(allowed), fr)),
            ("allowed_only_from_evaluate", implies(allowed, from_eval))]


JOIN_LOOP = {0: {"invariant": [
    lambda I, env: state_in(env.lookup("self").attrs["_state"], members(I)["RUNNING"], members(I)["FINISHED"]),
    lambda I, env: env.lookup("self").attrs["_g_cleanups"] == env.lookup("cleanups0_") if False else True,
], "modifies": ["self._state"], "attrs_ok": True}}


def mk_join_loop():
    def inv_state(I, env):
        M = members(I)
        return state_in(env.lookup("self").attrs["_state"], M["RUNNING"], M["FINISHED"])

    def inv_counters(I, env):
        s = env.lookup("self")
        g = I.ghost["entry"]
        return natives.conj([s.attrs["_g_cleanups"] == g["cleanups0"], s.attrs["_g_evals"] == g["evals0"],
                             s.attrs["_g_runs"] == g["runs0"]])
    return {0: {"invariant": [inv_state, inv_counters], "modifies": ["self._state"], "attrs_ok": True}}


def setup_join(I):
    su = setup_app([lambda I_: choice(I_, [lambda: None, lambda: I_.ctx.fresh_real("timeout")])])(I)
    I.ghost["entry"] = su["ghost"]
    return su


# ---- cancel --------------------------------------------------------------

def ens_cancel(I, env):
    M = members(I)
    st, runs, evals, cl = cur(env)
    return [("state", state_is(st, M["CANCELLED"])), ("cleanup_once", cl == env.vars["cleanups0"] + 1),
            ("no_eval", evals == env.vars["evals0"])]


# ---- get_app_state -------------------------------------------------------

def ens_get_app_state(I, env):
    M = members(I)
    st, runs, evals, cl = cur(env)
    s0 = env.vars["state0"]
    res = env.vars["result"]
    return [("returns_state", natives.eq(I, res, st)),
            ("transition", natives.disj([natives.eq(I, st, s0),
                                         natives.conj([state_is(s0, M["RUNNING"]), state_is(st, M["FINISHED"])])])),
            ("counters", natives.conj([runs == env.vars["runs0"], evals == env.vars["evals0"],
                                       cl == env.vars["cleanups0"]])),
            ("single_bit", single_bit(I, env))]


def allowed(*names):
    def f(I, env):
        M = members(I)
        return natives.neg(state_in(env.vars["state0"], *[M[n] for n in names]))
    return f


CASES = [
    Case(APP + "::Application.start", setup=setup_app(),
         raises={"AppStateError": allowed("CREATED")},
         ensures=[("post", ens_start), ("single_bit", single_bit)],
         exc_ensures={"AppStateError": [("frame", frame_only_refresh)],
                      "RunError": [("launch_failure", exc_start_runerror)]}),
    Case(APP + "::Application.join", setup=setup_join, loops=mk_join_loop(),
         ensures=[("post", ens_join), ("single_bit", single_bit)],
         exc_ensures={"AppStateError": [("state_error", exc_join_stateerror)],
                      "TimeoutError": [("timeout", exc_join_terminal)],
                      "EvalError": [("failed_evaluate", exc_join_terminal)]}),
    Case(APP + "::Application.cancel", setup=setup_app(),
         raises={"AppStateError": allowed("RUNNING", "FINISHED")},
         ensures=[("post", ens_cancel), ("single_bit", single_bit)],
         exc_ensures={"AppStateError": [("frame", frame_only_refresh)]}),
    Case(APP + "::Application.get_app_state", setup=setup_app(),
         ensures=[("post", ens_get_app_state)]),
]

MIN_OBLIGATIONS = 20


# ==========================================================================
# LocalApp: operating-system ghost model

def os_lib(I):
    def N(name, fn):
        return Native(name, lambda I_, a, k: fn(I_, *a, **k))

    def getcwd(I_):
        return I_.ghost["cwd"]

    def chdir(I_, d):
        # changing back to the directory the process started in cannot fail
        # (assumption: it still exists); any other directory may be missing
        back = d is I_.ghost.get("entry", {}).get("cwd0")
        if not back and I_.ctx.choose(2) == 1:
            raise Raised(I_.make_exc("FileNotFoundError", "no such directory"))
        I_.ghost["cwd"] = d
        I_.ghost["chdirs"] = I_.ghost.get("chdirs", 0) + 1

    def remove(I_, path):
        I_.ghost.setdefault("removed", []).append(path)
        if I_.ctx.choose(2) == 1:
            raise Raised(I_.make_exc("FileNotFoundError", "already removed"))
    return Module("os", {"getcwd": N("getcwd", getcwd), "chdir": N("chdir", chdir), "remove": N("remove", remove)})


def subprocess_lib(I):
    exc = I.builtins["Exception"]
    SubprocessError = Class("SubprocessError", (exc,), {}, None, "exception")
    TimeoutExpired = Class("TimeoutExpired", (SubprocessError,), {}, None, "exception")
    from pyvc.interp import OpaqueStr

    def meth(fn):
        n = Native(fn.__name__, lambda I_, a, k: fn(I_, *a, **k))
        n.is_method = True
        return n

    def poll(I_, self):
        if self.attrs["returncode"] is not None:
            return self.attrs["returncode"]
        if I_.ctx.choose(2) == 1:
            code = I_.ctx.fresh_int("exit_code")
            self.attrs["returncode"] = code
            return code
        return None

    def communicate(I_, self, input=None, timeout=None):
        # (the first positional parameter of Popen.communicate is `input`, not the timeout)
        self.attrs["_g_wait_timeout"] = timeout          # ghost: the time limit this wait was given
        if timeout is not None and I_.ctx.choose(2) == 1:
            raise Raised(Obj(TimeoutExpired, {"args": ()}))
        if self.attrs["returncode"] is None:
            self.attrs["returncode"] = I_.ctx.fresh_int("exit_code")
        out, err = OpaqueStr(), OpaqueStr()
        out._from_communicate = err._from_communicate = True      # ghost: what the child wrote
        return (out, err)

    def wait(I_, self, timeout=None):
        # subprocess documentation: wait() "will deadlock when using stdout=PIPE or stderr=PIPE and the child process
        # generates enough output to a pipe such that it blocks waiting for the OS pipe buffer to accept more data.
        # Use Popen.communicate() when using pipes to avoid that" -- a precondition of the library method
        I_.ctx.oblige(I_.obname("library_requires[Popen.wait() is not used on a child with stdout/stderr pipes: a child that fills a pipe never exits]",
                                getattr(I_, "cur_node", None)),
                      z3.BoolVal(not self.attrs.get("_g_pipes", True)), "pre")
        if timeout is not None and I_.ctx.choose(2) == 1:
            raise Raised(Obj(TimeoutExpired, {"args": ()}))
        if self.attrs["returncode"] is None:
            self.attrs["returncode"] = I_.ctx.fresh_int("exit_code")
        return self.attrs["returncode"]

    def kill(I_, self):
        self.attrs["_g_kills"] = self.attrs["_g_kills"] + 1

    def terminate(I_, self):
        # SIGTERM is a request: the child may ignore it; only kill() is counted as ending the process
        self.attrs["_g_terms"] = self.attrs.get("_g_terms", 0) + 1

    def send_signal(I_, self, sig=None):
        self.attrs["_g_terms"] = self.attrs.get("_g_terms", 0) + 1

    Proc = Class("Popen", (), {"poll": meth(poll), "communicate": meth(communicate), "kill": meth(kill), "wait": meth(wait),
                               "terminate": meth(terminate), "send_signal": meth(send_signal)}, None, "user")

    def popen(I_, a, k):
        I_.ghost["popen_cwd"] = I_.ghost.get("cwd")
        if I_.ctx.choose(2) == 1:
            raise Raised(I_.make_exc("FileNotFoundError", "no such executable"))
        return Obj(Proc, {"returncode": None, "_g_kills": 0, "_g_pipes": k.get("stdout") == -1 or k.get("stderr") == -1})
    I.ghost["Proc"] = Proc
    I.ghost["SubprocessError"] = SubprocessError
    return Module("subprocess", {"PIPE": -1, "Popen": Native("Popen", popen),
                                 "SubprocessError": SubprocessError, "TimeoutExpired": TimeoutExpired,
                                 "run": Opaque("subprocess.run")})


LIBS = {"os": os_lib, "subprocess": subprocess_lib,
        "pathlib": lambda I: Module("pathlib", {"Path": Opaque("Path")}),
        "re": lambda I: Module("re", {"search": Opaque("re.search")})}


def spec_local_class(I):
    """subclass of the real LocalApp whose evaluate()/clean_up() behave like an
    arbitrary concrete wrapper: they call the LocalApp implementation and then
    do their own (havoc) work"""
    base = get_class(I, LOCAL, "LocalApp")
    AppStateError = get_class(I, APP, "AppStateError")

    def meth(fn):
        n = Native(fn.__name__, lambda I_, a, k: fn(I_, *a, **k))
        n.is_method = True
        return n

    def evaluate(I_, self):
        I_.ctx.oblige("LocalApp.join::hook_requires[evaluate() is called in state FINISHED]",
                      state_is(self.attrs["_state"], members(I_)["FINISHED"]), "pre")
        self.attrs["_g_evals"] = self.attrs["_g_evals"] + 1
        f, _ = base.lookup("evaluate")
        I_.call(f, [self], {})
        k = I_.ctx.choose(3)
        if k == 1:
            raise Raised(Obj(exc_class(I_, "EvalError"), {"args": ()}))
        if k == 2:
            # an evaluate() that calls a state-guarded method of its own too early
            raise Raised(Obj(AppStateError, {"args": ()}))

    def clean_up(I_, self):
        self.attrs["_g_cleanups"] = self.attrs["_g_cleanups"] + 1
        f, _ = base.lookup("clean_up")
        I_.call(f, [self], {})
    return Class("SpecLocalApp", (base,), {"evaluate": meth(evaluate), "clean_up": meth(clean_up)}, None, "user")


def mk_local(I, with_process=True):
    cls = spec_local_class(I)
    I.ghost["cwd"] = sym_str(I, "cwd0")
    I.loader.import_module(I, "subprocess")
    st = single_state(I)
    proc = Obj(I.ghost["Proc"], {"returncode": choice(I, [lambda: None, lambda: sym_int(I, "rc0")]), "_g_kills": 0})
    M = members(I)
    app = Obj(cls, {"_state": st, "_start_time": I.ctx.fresh_real("t0"),
                    "_bin_path": sym_str(I, "bin_path"), "_arguments": PList([]), "_options": PList([]),
                    "_exec_dir": sym_str(I, "exec_dir"), "_process": proc, "_command": None,
                    "_stdin_file": None,
                    "_g_runs": 0, "_g_evals": sym_int(I, "evals0", 0), "_g_cleanups": sym_int(I, "cleanups0", 0)})
    return app


def setup_local(extra_args=(), created_no_process=False):
    def setup(I):
        app = mk_local(I)
        M = members(I)
        if created_no_process:
            app.attrs["_process"] = None
        args = [app] + [a(I) if callable(a) else a for a in extra_args]
        g = {"self": app, "state0": app.attrs["_state"], "runs0": 0, "evals0": app.attrs["_g_evals"],
             "cleanups0": app.attrs["_g_cleanups"], "cwd0": I.ghost["cwd"], "proc0": app.attrs["_process"]}
        I.ghost["entry"] = g
        I.ghost["extra_args"] = args[1:]
        return {"args": args, "ghost": g}
    return setup


def cwd_restored(I, env):
    return natives.eq(I, I.ghost["cwd"], env.vars["cwd0"])


def ens_local_run(I, env):
    s = env.vars["self"]
    return [("cwd_restored", cwd_restored(I, env)),
            ("process_set", s.attrs["_process"] is not None),
            ("launched_in_exec_dir", natives.eq(I, I.ghost["popen_cwd"], s.attrs["_exec_dir"]))]


def ens_local_join(I, env):
    M = members(I)
    st, runs, evals, cl = cur(env)
    p = env.vars["self"].attrs["_process"]
    return [("call_was_allowed", call_was_allowed(I, env)),
            ("state", state_is(st, M["JOINED"])), ("cleanup_once", cl == env.vars["cleanups0"] + 1),
            ("evaluated_once", evals == env.vars["evals0"] + 1),
            ("exit_code_zero", natives.eq(I, p.attrs["returncode"], 0)),
            ("not_killed", p.attrs["_g_kills"] == 0),
            ("time_limit_handed_to_the_wait", time_limit_used(I, env))]


def time_limit_used(I, env):
    """join(timeout=t) waits for the program with that time limit (a wait without it never times out)"""
    extra = I.ghost.get("extra_args") or [None]
    t = extra[0]                                   # the `timeout` argument of this call
    p = env.vars["self"].attrs["_process"]
    if t is None:
        return True
    got = p.attrs.get("_g_wait_timeout")
    return got is not None and natives.eq(I, got, t)


def exc_local_join_failed(I, env):
    M = members(I)
    st, runs, evals, cl = cur(env)
    return [("call_was_allowed", call_was_allowed(I, env)),
            ("state", state_is(st, M["CANCELLED"])), ("cleanup_once", cl == env.vars["cleanups0"] + 1),
            ("time_limit_handed_to_the_wait", time_limit_used(I, env))]


def exc_local_join_timeout(I, env):
    M = members(I)
    st, runs, evals, cl = cur(env)
    p = env.vars["self"].attrs["_process"]
    return [("call_was_allowed", call_was_allowed(I, env)),
            ("state", state_is(st, M["CANCELLED"])), ("cleanup_once", cl == env.vars["cleanups0"] + 1),
            ("killed_once", p.attrs["_g_kills"] == 1)]


def ens_local_cleanup(I, env):
    M = members(I)
    st = env.vars["self"].attrs["_state"]
    p = env.vars["self"].attrs["_process"]
    return [("kill_iff_cancelled", iff(p.attrs["_g_kills"] == 1, state_is(st, M["CANCELLED"]))),
            ("at_most_one_kill", natives.disj([p.attrs["_g_kills"] == 0, p.attrs["_g_kills"] == 1]))]


def ens_is_finished(I, env):
    p = env.vars["self"].attrs["_process"]
    res = env.vars["result"]
    rc = p.attrs["returncode"]
    attrs = env.vars["self"].attrs
    captured = all(getattr(attrs.get(a), "_from_communicate", False) for a in ("_stdout", "_stderr"))
    # get_stdout() / get_stderr() are allowed from FINISHED on, and an application becomes FINISHED when is_finished()
    # reports the end of the program: the output of the child is stored by then
    return [("true_iff_exit_code", natives.eq(I, res, rc is not None)),
            ("output_captured_when_the_end_is_reported", z3.BoolVal(captured or res is not True))]


def state_method_case(rel, cls, meth, allowed_names, extra_args=(), setup_fn=None):
    return Case(f"{rel}::{cls}.{meth}", setup=(setup_fn or setup_local)(extra_args), libs=LIBS,
                raises={"AppStateError": allowed(*allowed_names)},
                exc_ensures={"AppStateError": [("frame", frame_only_refresh)]})


def frame_local(I, env):
    out = frame_only_refresh(I, env)
    out.append(("cwd", cwd_restored(I, env)))
    return out


CASES += [
    Case(LOCAL + "::LocalApp.run", setup=setup_local(), libs=LIBS,
         ensures=[("post", ens_local_run)],
         exc_ensures={"FileNotFoundError": [("cwd_restored", cwd_restored)]}),
    Case(LOCAL + "::LocalApp.join", setup=setup_local([lambda I_: choice(I_, [lambda: None, lambda: I_.ctx.fresh_real("timeout")])]),
         libs=LIBS,
         ensures=[("post", ens_local_join), ("single_bit", single_bit)],
         exc_ensures={"AppStateError": [("state_error", exc_join_stateerror)],
                      "TimeoutError": [("timeout", exc_local_join_timeout)],
                      "SubprocessError": [("failing_exit_code", exc_local_join_failed)],
                      "EvalError": [("failed_evaluate", exc_local_join_failed)]}),
    Case(LOCAL + "::LocalApp.clean_up", setup=setup_local(), libs=LIBS,
         ensures=[("post", ens_local_cleanup)]),
    Case(LOCAL + "::LocalApp.cancel", setup=setup_local(), libs=LIBS,
         raises={"AppStateError": allowed("RUNNING", "FINISHED")},
         ensures=[("post", ens_cancel), ("single_bit", single_bit),
                  ("child_killed_once", lambda I, env: env.vars["self"].attrs["_process"].attrs["_g_kills"] == 1)],
         exc_ensures={"AppStateError": [("frame", frame_local)]}),
    Case(LOCAL + "::LocalApp.clean_up", "launch-failed (no process)", setup=setup_local(created_no_process=True),
         libs=LIBS, requires=[lambda I, env: state_is(env.vars["state0"], members(I)["CANCELLED"])],
         ensures=[("returns", lambda I, env: True)]),
    Case(LOCAL + "::LocalApp.is_finished", setup=setup_local(), libs=LIBS,
         ensures=[("post", ens_is_finished)]),
    state_method_case(LOCAL, "LocalApp", "set_arguments", ["CREATED"], [lambda I_: PList([])]),
    state_method_case(LOCAL, "LocalApp", "set_stdin", ["CREATED"], [lambda I_: Opaque("file")]),
    state_method_case(LOCAL, "LocalApp", "add_additional_options", ["CREATED"], [lambda I_: PList([])]),
    state_method_case(LOCAL, "LocalApp", "set_exec_dir", ["CREATED"], [lambda I_: sym_str(I_, "d")]),
    state_method_case(LOCAL, "LocalApp", "get_process", ["RUNNING", "FINISHED"]),
    state_method_case(LOCAL, "LocalApp", "get_exit_code", ["FINISHED", "JOINED"]),
]

from pyvc.api import bounded_via_script
bounded = bounded_via_script("C20")
ASSUMPTIONS.append("bounded stand-in (labelled, not a proof) for the MSA wrappers (msaapp.py, clustalo, muscle 3/5, mafft: temp files, order restoration, "
                   "sequence-type mapping), which the proved Application/LocalApp contracts do not reach: real wrappers driven with fixtures/bin/fake_msa "
                   "over n in {2,3,12,13} x 4 output orders x 3 sequence types x 7 external behaviours (bounded/C20.py)")
