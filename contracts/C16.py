"""C16 -- superimposition minimises RMSD with a proper rotation.

No function is proved for this property in this build; the contracts are
checked at run time in a labelled BOUNDED stand-in (bounded/C16.py)."""
from pyvc.api import bounded_via_script

PROPERTY = "C16"
CASES = []
MIN_OBLIGATIONS = 0
ASSUMPTIONS = ["bounded: seeded random point sets of 3..8 points (generic/planar/collinear/mirror-symmetric), exact and noisy rigid copies, 150 draws (600 thorough); optimality vs 20 random perturbations and an independent float64 Kabsch fit"]
UNVERIFIED = ["superimpose.py is unproved; superimpose_without_outliers / superimpose_homologs are not exercised"]
EXPLANATION = "bounded run-time check of the C16 contracts through the public API; not a proof"
bounded = bounded_via_script("C16")
