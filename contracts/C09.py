"""C09 -- heuristic alignments are valid, honestly scored, never above optimal.

Under contract: the X-drop seed-extension kernels of
sequence/align/localungapped.pyx (score-only C variant and generic variant),
against the prefix-sum specification
    P(0) = 0,  P(k+1) = P(k) + matrix[code1[k], code2[k]]."""
import z3
from pyvc.api import Case, sym_int, sym_c, implies, iff
from pyvc.core import CV, zint, zbool, simp
from pyvc.heap import SymArr, Cell
from pyvc.interp import Env
from pyvc import natives

PROPERTY = "C09"
LU = "sequence/align/localungapped.pyx"

ASSUMPTIONS = [
    "int32 score sums do not overflow (no bound on scores is part of the API)",
    "sequence codes index the substitution matrix (align_local_ungapped checks the alphabets unless check_matrix=False)",
    "P is the prefix-sum function defined by the two recursion equations (definitional axioms)",
]
UNVERIFIED = [
    "align_local_ungapped driver: seed/offset arithmetic and reversed slices (NumPy views)",
    "banded.pyx and localgapped.pyx (band index map, X-drop table growth): not under contract in this build",
]


def sel2(a, r, c):
    return z3.Select(z3.Select(a, r), c)


P = z3.Function("P", z3.IntSort(), z3.IntSort())


def setup_extend(code_t, with_cell):
    def setup(I):
        n1 = sym_int(I, "len1", 0, 2 ** 31 - 1)
        n2 = sym_int(I, "len2", 0, 2 ** 31 - 1)
        asz = sym_int(I, "alph", 1, 2 ** 16)
        code1 = SymArr("code1", code_t, [n1]).view(memview=True)
        code2 = SymArr("code2", code_t, [n2]).view(memview=True)
        matrix = SymArr("matrix", "int32", [asz, asz], readonly=True).view(memview=True)
        thr = sym_c(I, "int32", "threshold")
        I.ctx.assume(thr.term >= 0)
        k = z3.Int("k!c")
        I.ctx.assume(z3.ForAll([k], z3.Implies(z3.And(k >= 0, k < n1), z3.And(z3.Select(code1.arr, k) >= 0, z3.Select(code1.arr, k) < asz))))
        I.ctx.assume(z3.ForAll([k], z3.Implies(z3.And(k >= 0, k < n2), z3.And(z3.Select(code2.arr, k) >= 0, z3.Select(code2.arr, k) < asz))))
        I.ctx.assume(P(0) == 0)
        I.ctx.assume(z3.ForAll([k], z3.Implies(k >= 0, P(k + 1) == P(k) + sel2(matrix.arr, z3.Select(code1.arr, k), z3.Select(code2.arr, k)))))
        n = z3.If(n1 < n2, n1, n2)
        g = {"n": n, "thr": thr.term}
        I.ghost["ext"] = g
        args = [code1, code2, matrix, thr]
        if with_cell:
            env = Env()
            env.vars["score"] = I.ctx.fresh_cv("int32", "score_in")
            env.ctypes["score"] = "int32"
            args.append(Cell(env, "score"))
            g["cell"] = env
        return {"args": args, "ghost": g}
    return setup


def inv_extend(I, env):
    g = I.ghost["ext"]
    i = zint(I.unC(env.lookup("i")))
    tot = zint(I.unC(env.lookup("total_score")))
    mx = zint(I.unC(env.lookup("max_score")))
    im = zint(I.unC(env.lookup("i_max_score")))
    k = z3.Int("k!v")
    return z3.And(tot == P(i), im >= -1, im < i, mx == P(im + 1),
                  z3.ForAll([k], z3.Implies(z3.And(k >= 0, k <= i), P(k) <= mx)),
                  z3.ForAll([k], z3.Implies(z3.And(k > im + 1, k <= i), P(k) < mx)),
                  i >= 0, i <= g["n"])


def post_extend(I, score, length, g):
    k, t = I.ctx.fresh_int("k"), I.ctx.fresh_int("t")
    n, thr = g["n"], g["thr"]
    return [("length_in_range", z3.And(length >= 0, length <= n)),
            ("score_is_prefix_sum", score == P(length)),
            ("score_nonnegative", score >= 0),
            ("kept_prefix_maximal", implies(z3.And(k >= 0, k <= length), P(k) <= score)),
            ("last_maximum", implies(z3.And(k > length, k <= n, P(k) >= score),
                                     # a later prefix at least as good can only be missed after an X-drop
                                     z3.Exists([t], z3.And(t > length, t < k, score - P(t) > thr))))]


def ens_generic(I, env):
    res = env.vars["result"]
    score, length = zint(I.unC(res[0])), zint(I.unC(res[1]))
    return post_extend(I, score, length, I.ghost["ext"])


def ens_uint8(I, env):
    g = I.ghost["ext"]
    length = zint(I.unC(env.vars["result"]))
    score = zint(I.unC(g["cell"].vars["score"]))
    return post_extend(I, score, length, g)


LOOP = {0: {"invariant": [inv_extend]}}
CASES = [
    Case(LU + "::_seed_extend_uint8", setup=setup_extend("uint8", True), overflow=False, loops=LOOP,
         ensures=[("xdrop", ens_uint8)], timeout=20),
    Case(LU + "::_seed_extend_generic", "CodeType=uint8", setup=setup_extend("uint8", False), overflow=False, loops=LOOP,
         ensures=[("xdrop", ens_generic)], timeout=20),
    Case(LU + "::_seed_extend_generic", "CodeType=uint32", setup=setup_extend("uint32", False), overflow=False, loops=LOOP,
         ensures=[("xdrop", ens_generic)], timeout=20),
]
MIN_OBLIGATIONS = 20

from pyvc.api import bounded_via_script
bounded = bounded_via_script("C09")
ASSUMPTIONS.append("bounded stand-in (labelled, not a proof) for the drivers around the proved kernels (band cropping, swap/transpose, traceback, "
                   "X-drop table growth, trace offsetting): align_banded / align_local_gapped / align_local_ungapped vs align_optimal and a brute-force "
                   "maximum on sequence pairs of length <= 4 (bounded/C09.py).  The upper bound used is the maximum over ALL alignments "
                   "(abutting gaps allowed for affine penalties too), the weakest reading of 'true optimum'")
