"""C09 -- heuristic alignments are valid, honestly scored, never above optimal.

Under contract: the X-drop seed-extension kernels of
sequence/align/localungapped.pyx (score-only C variant and generic variant),
against the prefix-sum specification
    P(0) = 0,  P(k+1) = P(k) + matrix[code1[k], code2[k]],
and the two table-filling kernels of sequence/align/banded.pyx on the
straightened band table (see below)."""
import z3
from pyvc.api import Case, sym_int, sym_c, implies, iff
from pyvc.core import CV, zint, zbool, simp
from pyvc.heap import SymArr, Cell
from pyvc.interp import Env
from pyvc import natives

PROPERTY = "C09"
LU = "sequence/align/localungapped.pyx"

ASSUMPTIONS = [
    "int32 score sums do not overflow (no bound on scores is part of the API)",
    "sequence codes index the substitution matrix (align_local_ungapped checks the alphabets unless check_matrix=False)",
    "P is the prefix-sum function defined by the two recursion equations (definitional axioms)",
]
UNVERIFIED = [
    "align_local_ungapped driver: seed/offset arithmetic and reversed slices (NumPy views)",
    "align_banded driver (band cropping, swap + transpose, get_global_trace_starts, follow_trace, trace post-processing) and localgapped.pyx (X-drop table growth): not under contract",
    "the precondition of the banded kernels (shorter sequence first, band cropped to the table and non-empty, table width = band width + 2) is what align_banded computes before the call; that computation is not verified",
]


def sel2(a, r, c):
    return z3.Select(z3.Select(a, r), c)


P = z3.Function("P", z3.IntSort(), z3.IntSort())


def setup_extend(code_t, with_cell):
    def setup(I):
        n1 = sym_int(I, "len1", 0, 2 ** 31 - 1)
        n2 = sym_int(I, "len2", 0, 2 ** 31 - 1)
        asz = sym_int(I, "alph", 1, 2 ** 16)
        code1 = SymArr("code1", code_t, [n1]).view(memview=True)
        code2 = SymArr("code2", code_t, [n2]).view(memview=True)
        matrix = SymArr("matrix", "int32", [asz, asz], readonly=True).view(memview=True)
        thr = sym_c(I, "int32", "threshold")
        I.ctx.assume(thr.term >= 0)
        k = z3.Int("k!c")
        I.ctx.assume(z3.ForAll([k], z3.Implies(z3.And(k >= 0, k < n1), z3.And(z3.Select(code1.arr, k) >= 0, z3.Select(code1.arr, k) < asz))))
        I.ctx.assume(z3.ForAll([k], z3.Implies(z3.And(k >= 0, k < n2), z3.And(z3.Select(code2.arr, k) >= 0, z3.Select(code2.arr, k) < asz))))
        I.ctx.assume(P(0) == 0)
        I.ctx.assume(z3.ForAll([k], z3.Implies(k >= 0, P(k + 1) == P(k) + sel2(matrix.arr, z3.Select(code1.arr, k), z3.Select(code2.arr, k)))))
        n = z3.If(n1 < n2, n1, n2)
        g = {"n": n, "thr": thr.term}
        I.ghost["ext"] = g
        args = [code1, code2, matrix, thr]
        if with_cell:
            env = Env()
            env.vars["score"] = I.ctx.fresh_cv("int32", "score_in")
            env.ctypes["score"] = "int32"
            args.append(Cell(env, "score"))
            g["cell"] = env
        return {"args": args, "ghost": g}
    return setup


def inv_extend(I, env):
    g = I.ghost["ext"]
    i = zint(I.unC(env.lookup("i")))
    tot = zint(I.unC(env.lookup("total_score")))
    mx = zint(I.unC(env.lookup("max_score")))
    im = zint(I.unC(env.lookup("i_max_score")))
    k = z3.Int("k!v")
    return z3.And(tot == P(i), im >= -1, im < i, mx == P(im + 1),
                  z3.ForAll([k], z3.Implies(z3.And(k >= 0, k <= i), P(k) <= mx)),
                  z3.ForAll([k], z3.Implies(z3.And(k > im + 1, k <= i), P(k) < mx)),
                  i >= 0, i <= g["n"])


def post_extend(I, score, length, g):
    k, t = I.ctx.fresh_int("k"), I.ctx.fresh_int("t")
    n, thr = g["n"], g["thr"]
    return [("length_in_range", z3.And(length >= 0, length <= n)),
            ("score_is_prefix_sum", score == P(length)),
            ("score_nonnegative", score >= 0),
            ("kept_prefix_maximal", implies(z3.And(k >= 0, k <= length), P(k) <= score)),
            ("last_maximum", implies(z3.And(k > length, k <= n, P(k) >= score),
                                     # a later prefix at least as good can only be missed after an X-drop
                                     z3.Exists([t], z3.And(t > length, t < k, score - P(t) > thr))))]


def ens_generic(I, env):
    res = env.vars["result"]
    score, length = zint(I.unC(res[0])), zint(I.unC(res[1]))
    return post_extend(I, score, length, I.ghost["ext"])


def ens_uint8(I, env):
    g = I.ghost["ext"]
    length = zint(I.unC(env.vars["result"]))
    score = zint(I.unC(g["cell"].vars["score"]))
    return post_extend(I, score, length, g)


LOOP = {0: {"invariant": [inv_extend]}}
CASES = [
    Case(LU + "::_seed_extend_uint8", setup=setup_extend("uint8", True), overflow=False, loops=LOOP,
         ensures=[("xdrop", ens_uint8)], timeout=20),
    Case(LU + "::_seed_extend_generic", "CodeType=uint8", setup=setup_extend("uint8", False), overflow=False, loops=LOOP,
         ensures=[("xdrop", ens_generic)], timeout=20),
    Case(LU + "::_seed_extend_generic", "CodeType=uint32", setup=setup_extend("uint32", False), overflow=False, loops=LOOP,
         ensures=[("xdrop", ens_generic)], timeout=20),
]
MIN_OBLIGATIONS = 20

from pyvc.api import bounded_via_script
bounded = bounded_via_script("C09")
ASSUMPTIONS.append("bounded stand-in (labelled, not a proof) for the drivers around the proved kernels (band cropping, swap/transpose, traceback, "
                   "X-drop table growth, trace offsetting): align_banded / align_local_gapped / align_local_ungapped vs align_optimal and a brute-force "
                   "maximum on sequence pairs of length <= 4 (bounded/C09.py).  The upper bound used is the maximum over ALL alignments "
                   "(abutting gaps allowed for affine penalties too), the weakest reading of 'true optimum'")


# ==========================================================================
# banded.pyx::_fill_align_table -- the 'straightened' band table.
# Cell (i, j) of the table stands for the sequence positions
#     seq_i = i - 1,   seq_j = j - 1 + seq_i + lower_diag
# The contract: every cell whose (seq_i, seq_j) lies inside both sequences and the band
# holds the Bellman maximum over its diagonal (i-1, j), left (i, j-1) and top (i-1, j+1)
# neighbours of the straightened table; everything else (incl. the two sentinel columns)
# is untouched; all memoryview accesses (boundscheck(False), wraparound(False)) are in bounds.

BD = "sequence/align/banded.pyx"
TT = "sequence/align/tracetable.pyx"


def zmax(*xs):
    m = xs[0]
    for x in xs[1:]:
        m = z3.If(x > m, x, m)
    return m


def bits_sum(pairs):
    return z3.Sum([z3.If(c, z3.IntVal(v), z3.IntVal(0)) for c, v in pairs])


def setup_band_fill(I):
    n1 = sym_int(I, "len1", 1, 2 ** 30)
    n2 = sym_int(I, "len2", 1, 2 ** 30)
    asz = sym_int(I, "alph", 1, 2 ** 16)
    lower, upper = sym_c(I, "int", "lower_diag"), sym_c(I, "int", "upper_diag")
    # what align_banded establishes before the call: seq1 is the shorter sequence, the band is
    # cropped to the table and not empty
    I.ctx.assume(z3.And(n1 <= n2, lower.term >= -n1 + 1, upper.term <= n2 - 1, lower.term <= upper.term))
    width = upper.term - lower.term + 1
    code1 = SymArr("code1", "uint8", [n1]).view(memview=True)
    code2 = SymArr("code2", "uint8", [n2]).view(memview=True)
    mat = SymArr("mat", "int32", [asz, asz], readonly=True).view(memview=True)
    trace_table = SymArr("trace_table", "uint8", [n1 + 1, width + 2]).view(memview=True)
    score_table = SymArr("score_table", "int32", [n1 + 1, width + 2]).view(memview=True)
    gap = sym_c(I, "int", "gap_penalty")
    local = sym_c(I, "bint", "local")
    k = z3.Int("k!c")
    I.ctx.assume(z3.ForAll([k], z3.Implies(z3.And(k >= 0, k < n1), z3.And(z3.Select(code1.arr, k) >= 0, z3.Select(code1.arr, k) < asz))))
    I.ctx.assume(z3.ForAll([k], z3.Implies(z3.And(k >= 0, k < n2), z3.And(z3.Select(code2.arr, k) >= 0, z3.Select(code2.arr, k) < asz))))
    g = {"S0": score_table.arr, "T0": trace_table.arr, "n1": n1, "n2": n2, "lo": lower.term, "up": upper.term, "w": width,
         "c1": code1.arr, "c2": code2.arr, "M": mat.arr, "gap": gap.term, "loc": local.term}
    I.ghost["band"] = g
    return {"args": [code1, code2, mat, trace_table, score_table, lower, upper, gap, local], "ghost": g}


def in_band(g, r, c):
    """table cell (r, c), r >= 1, is a cell the fill visits: its seq_j lies in both the sequence and the band"""
    sj = c - 1 + (r - 1) + g["lo"]
    return z3.And(c >= 1, c <= g["w"], sj >= 0, sj < g["n2"])


def bcell_ok(g, S, T, r, c):
    sj = c - 1 + (r - 1) + g["lo"]
    d = sel2(S, r - 1, c) + sel2(g["M"], z3.Select(g["c1"], r - 1), z3.Select(g["c2"], sj))
    left = sel2(S, r, c - 1) + g["gap"]
    top = sel2(S, r - 1, c + 1) + g["gap"]
    m = zmax(d, left, top)
    floor = z3.And(g["loc"] != 0, m <= 0)
    return z3.And(sel2(S, r, c) == z3.If(floor, 0, m),
                  sel2(T, r, c) == z3.If(floor, sel2(g["T0"], r, c), bits_sum([(d == m, 1), (left == m, 2), (top == m, 4)])))


def _bframe(g, S, T, r, c):
    return z3.And(sel2(S, r, c) == sel2(g["S0"], r, c), sel2(T, r, c) == sel2(g["T0"], r, c))


def binv_outer(I, env):
    g = I.ghost["band"]
    S, T = env.lookup("score_table").arr, env.lookup("trace_table").arr
    si = zint(I.unC(env.lookup("seq_i")))
    r, c = z3.Ints("r!o c!o")
    done = z3.ForAll([r, c], z3.Implies(z3.And(r >= 1, r <= si, in_band(g, r, c)), bcell_ok(g, S, T, r, c)))
    frame = z3.ForAll([r, c], z3.Implies(z3.Or(r > si, r <= 0, z3.Not(in_band(g, r, c))), _bframe(g, S, T, r, c)))
    return z3.And(done, frame, si >= 0, si <= g["n1"])


def binv_inner(I, env):
    g = I.ghost["band"]
    S, T = env.lookup("score_table").arr, env.lookup("trace_table").arr
    si = zint(I.unC(env.lookup("seq_i")))
    sj = zint(I.unC(env.lookup("seq_j")))
    i = zint(I.unC(env.lookup("i")))
    r, c = z3.Ints("r!i c!i")
    cj = sj - si - g["lo"] + 1          # table column of the next cell to be filled
    done_rows = z3.ForAll([r, c], z3.Implies(z3.And(r >= 1, r <= si, in_band(g, r, c)), bcell_ok(g, S, T, r, c)))
    done_row = z3.ForAll([c], z3.Implies(z3.And(in_band(g, i, c), c < cj), bcell_ok(g, S, T, i, c)))
    frame = z3.ForAll([r, c], z3.Implies(z3.Or(r > i, z3.And(r == i, c >= cj), r <= 0, z3.Not(in_band(g, r, c))), _bframe(g, S, T, r, c)))
    # (no upper bound on seq_j: the row's range may be empty, then the start already lies beyond the stop)
    return z3.And(done_rows, done_row, frame, i == si + 1, si >= 0, si < g["n1"], sj >= 0, sj >= si + g["lo"])


def ens_band_fill(I, env):
    g = I.ghost["band"]
    S, T = env.vars["score_table"].arr, env.vars["trace_table"].arr
    r, c = I.ctx.fresh_int("r"), I.ctx.fresh_int("c")
    return [("bellman_every_band_cell", implies(z3.And(r >= 1, r <= g["n1"], in_band(g, r, c)), bcell_ok(g, S, T, r, c))),
            ("cells_outside_the_band_untouched", implies(z3.Or(r <= 0, r > g["n1"], z3.Not(in_band(g, r, c))), _bframe(g, S, T, r, c)))]


def cc_trace_linear(I, f, args, kwargs):
    """call-site use of get_trace_linear's contract (proved in C08 against its body)"""
    a, b, c, cell = args
    at, bt, ct = (zint(I.unC(x)) for x in (a, b, c))
    m = zmax(at, bt, ct)
    mx = I.ctx.fresh_cv("int32", "max_score")
    I.ctx.assume(mx.term == m)
    natives.setitem(I, cell, 0, mx, None)
    tr = I.ctx.fresh_cv("uint8", "trace")
    I.ctx.assume(tr.term == bits_sum([(at == m, 1), (bt == m, 2), (ct == m, 4)]))
    return tr


CASES.append(Case(BD + "::_fill_align_table", "CodeType=uint8", setup=setup_band_fill, overflow=False,
                  call_contracts={TT + "::get_trace_linear": cc_trace_linear},
                  loops={0: {"invariant": [binv_outer]}, 1: {"invariant": [binv_inner]}},
                  ensures=[("band_recurrence", ens_band_fill)], timeout=30))


# ---- banded.pyx::_fill_align_table_affine: the three Gotoh tables on the straightened band ----

def setup_band_fill_affine(I):
    n1 = sym_int(I, "len1", 1, 2 ** 30)
    n2 = sym_int(I, "len2", 1, 2 ** 30)
    asz = sym_int(I, "alph", 1, 2 ** 16)
    lower, upper = sym_c(I, "int", "lower_diag"), sym_c(I, "int", "upper_diag")
    I.ctx.assume(z3.And(n1 <= n2, lower.term >= -n1 + 1, upper.term <= n2 - 1, lower.term <= upper.term))
    width = upper.term - lower.term + 1
    code1 = SymArr("code1", "uint8", [n1]).view(memview=True)
    code2 = SymArr("code2", "uint8", [n2]).view(memview=True)
    mat = SymArr("mat", "int32", [asz, asz], readonly=True).view(memview=True)
    trace_table = SymArr("trace_table", "uint8", [n1 + 1, width + 2]).view(memview=True)
    tabs = [SymArr(nm, "int32", [n1 + 1, width + 2]).view(memview=True) for nm in ("m_table", "g1_table", "g2_table")]
    go, ge = sym_c(I, "int", "gap_open"), sym_c(I, "int", "gap_ext")
    local = sym_c(I, "bint", "local")
    k = z3.Int("k!c")
    I.ctx.assume(z3.ForAll([k], z3.Implies(z3.And(k >= 0, k < n1), z3.And(z3.Select(code1.arr, k) >= 0, z3.Select(code1.arr, k) < asz))))
    I.ctx.assume(z3.ForAll([k], z3.Implies(z3.And(k >= 0, k < n2), z3.And(z3.Select(code2.arr, k) >= 0, z3.Select(code2.arr, k) < asz))))
    g = {"T0": trace_table.arr, "M0": tabs[0].arr, "A0": tabs[1].arr, "B0": tabs[2].arr, "n1": n1, "n2": n2,
         "lo": lower.term, "up": upper.term, "w": width, "c1": code1.arr, "c2": code2.arr, "M": mat.arr,
         "go": go.term, "ge": ge.term, "loc": local.term}
    I.ghost["band"] = g
    return {"args": [code1, code2, mat, trace_table] + tabs + [lower, upper, go, ge, local], "ghost": g}


def bacell_ok(g, Mt, A, B, T, r, c):
    sj = c - 1 + (r - 1) + g["lo"]
    local = g["loc"] != 0
    sim = sel2(g["M"], z3.Select(g["c1"], r - 1), z3.Select(g["c2"], sj))
    mm, am, bm = sel2(Mt, r - 1, c) + sim, sel2(A, r - 1, c) + sim, sel2(B, r - 1, c) + sim
    ma, aa = sel2(Mt, r, c - 1) + g["go"], sel2(A, r, c - 1) + g["ge"]
    mb, bb = sel2(Mt, r - 1, c + 1) + g["go"], sel2(B, r - 1, c + 1) + g["ge"]
    m1, m2, m3 = zmax(mm, am, bm), zmax(ma, aa), zmax(mb, bb)
    k1, k2, k3 = z3.Or(z3.Not(local), m1 > 0), z3.Or(z3.Not(local), m2 > 0), z3.Or(z3.Not(local), m3 > 0)
    bits = bits_sum([(z3.And(k1, mm == m1), 1), (z3.And(k1, am == m1), 2), (z3.And(k1, bm == m1), 4),
                     (z3.And(k2, ma == m2), 8), (z3.And(k2, aa == m2), 16), (z3.And(k3, mb == m3), 32), (z3.And(k3, bb == m3), 64)])
    return z3.And(sel2(Mt, r, c) == z3.If(k1, m1, sel2(g["M0"], r, c)), sel2(A, r, c) == z3.If(k2, m2, sel2(g["A0"], r, c)),
                  sel2(B, r, c) == z3.If(k3, m3, sel2(g["B0"], r, c)), sel2(T, r, c) == bits)


def _batabs(env):
    return [env.lookup(n).arr for n in ("m_table", "g1_table", "g2_table", "trace_table")]


def _baframe(g, Mt, A, B, T, r, c):
    return z3.And(sel2(Mt, r, c) == sel2(g["M0"], r, c), sel2(A, r, c) == sel2(g["A0"], r, c),
                  sel2(B, r, c) == sel2(g["B0"], r, c), sel2(T, r, c) == sel2(g["T0"], r, c))


def bainv_outer(I, env):
    g = I.ghost["band"]
    Mt, A, B, T = _batabs(env)
    si = zint(I.unC(env.lookup("seq_i")))
    r, c = z3.Ints("r!o c!o")
    done = z3.ForAll([r, c], z3.Implies(z3.And(r >= 1, r <= si, in_band(g, r, c)), bacell_ok(g, Mt, A, B, T, r, c)))
    frame = z3.ForAll([r, c], z3.Implies(z3.Or(r > si, r <= 0, z3.Not(in_band(g, r, c))), _baframe(g, Mt, A, B, T, r, c)))
    return z3.And(done, frame, si >= 0, si <= g["n1"])


def bainv_inner(I, env):
    g = I.ghost["band"]
    Mt, A, B, T = _batabs(env)
    si = zint(I.unC(env.lookup("seq_i")))
    sj = zint(I.unC(env.lookup("seq_j")))
    i = zint(I.unC(env.lookup("i")))
    r, c = z3.Ints("r!i c!i")
    cj = sj - si - g["lo"] + 1
    done_rows = z3.ForAll([r, c], z3.Implies(z3.And(r >= 1, r <= si, in_band(g, r, c)), bacell_ok(g, Mt, A, B, T, r, c)))
    done_row = z3.ForAll([c], z3.Implies(z3.And(in_band(g, i, c), c < cj), bacell_ok(g, Mt, A, B, T, i, c)))
    frame = z3.ForAll([r, c], z3.Implies(z3.Or(r > i, z3.And(r == i, c >= cj), r <= 0, z3.Not(in_band(g, r, c))), _baframe(g, Mt, A, B, T, r, c)))
    return z3.And(done_rows, done_row, frame, i == si + 1, si >= 0, si < g["n1"], sj >= 0, sj >= si + g["lo"])


def ens_band_fill_affine(I, env):
    g = I.ghost["band"]
    Mt, A, B, T = (env.vars[n].arr for n in ("m_table", "g1_table", "g2_table", "trace_table"))
    r, c = I.ctx.fresh_int("r"), I.ctx.fresh_int("c")
    return [("recurrences_every_band_cell", implies(z3.And(r >= 1, r <= g["n1"], in_band(g, r, c)), bacell_ok(g, Mt, A, B, T, r, c))),
            ("cells_outside_the_band_untouched", implies(z3.Or(r <= 0, r > g["n1"], z3.Not(in_band(g, r, c))), _baframe(g, Mt, A, B, T, r, c)))]


def cc_trace_affine(I, f, args, kwargs):
    """call-site use of get_trace_affine's contract (proved in C08 against its body): maxima through
    the out-parameters, the flag byte as a bit-vector whose bits are the proved bit_* postconditions"""
    ins = [zint(I.unC(x)) for x in args[:7]]
    mm, lm, tm, ml, ll, mt, tt = ins
    m1, m2, m3 = zmax(mm, lm, tm), zmax(ml, ll), zmax(mt, tt)
    for cell, m, nm in zip(args[7:], (m1, m2, m3), ("max_match", "max_gap_left", "max_gap_top")):
        v = I.ctx.fresh_cv("int32", nm)
        I.ctx.assume(v.term == m)
        natives.setitem(I, cell, 0, v, None)
    conds = [mm == m1, lm == m1, tm == m1, ml == m2, ll == m2, mt == m3, tt == m3]
    bv = z3.BitVec(I.ctx.fresh_name("trace_bits"), 8)
    for b, cnd in enumerate(conds):
        I.ctx.assume((z3.Extract(b, b, bv) == 1) == cnd)
    I.ctx.assume(z3.Extract(7, 7, bv) == 0)
    return CV("uint8", z3.BV2Int(bv, is_signed=False))


CASES.append(Case(BD + "::_fill_align_table_affine", "CodeType=uint8", setup=setup_band_fill_affine, overflow=False,
                  call_contracts={TT + "::get_trace_affine": cc_trace_affine},
                  loops={0: {"invariant": [bainv_outer]}, 1: {"invariant": [bainv_inner]}},
                  ensures=[("band_recurrence_affine", ens_band_fill_affine)], timeout=30))
