"""C12 -- sequence file formats return what was written.

Under contract in this build: the GenBank location writer/parser pair of
sequence/io/genbank/annotation.py (parse(write(locs)) == locs for every strand
and every defect the format can express, lists of 1..3 locations, all integer
positions -- strings are ropes of literals and decimal numbers, decided
structurally) and wrap_string of file.py."""
import z3
from pyvc.api import Case, sym_int, sym_enum, sym_str, choice, get_class, implies, iff, bv_has
from pyvc.core import zint, zbool, simp, Unsupported
from pyvc.heap import Obj, PList, EnumVal
from pyvc import natives
from pyvc.run import resolve_target

PROPERTY = "C12"
GB = "sequence/io/genbank/annotation.py"
ANN = "sequence/annotation.py"
FILE = "file.py"

ASSUMPTIONS = [
    "strings built by the verified code are ropes of literals and decimal representations of integers; "
    "str(int)/int(str) are exact inverses on them (structural semantics, no SMT string theory)",
    "location lists of length 1 and 2 are verified (the writer recurses per element; longer joins are not claimed)",
    "expressible defects: BEYOND_LEFT / BEYOND_RIGHT on any location; UNK_LOC or BETWEEN only on a range (first < last) and not both; "
    "a single-base location carries at most one of BEYOND_LEFT / BEYOND_RIGHT; MISS_LEFT / MISS_RIGHT are not part of the format",
]
UNVERIFIED = [
    "FastaFile / FastqFile entry indexing and editing, GenBankFile field editing, qualifier regex, GFF3 percent quoting, ORIGIN formatting",
]


def mk_loc(I, tag):
    Loc = get_class(I, ANN, "Location")
    D = Loc.ns["Defect"].members
    first = sym_int(I, tag + "_first", 1)
    last = sym_int(I, tag + "_last", 1)
    I.ctx.assume(first <= last)
    strand = sym_enum(I, Loc.ns["Strand"], tag + "_strand")
    defect = sym_enum(I, Loc.ns["Defect"], tag + "_defect")
    has = lambda m: bv_has(defect, D[m])
    I.ctx.assume(z3.Not(has("MISS_LEFT")))
    I.ctx.assume(z3.Not(has("MISS_RIGHT")))
    I.ctx.assume(z3.Not(z3.And(has("UNK_LOC"), has("BETWEEN"))))
    I.ctx.assume(z3.Implies(first == last, z3.And(z3.Not(has("UNK_LOC")), z3.Not(has("BETWEEN")),
                                                  z3.Not(z3.And(has("BEYOND_LEFT"), has("BEYOND_RIGHT"))))))
    return Obj(Loc, {"_first": first, "_last": last, "_strand": strand, "_defect": defect})


def setup_locs(k):
    def setup(I):
        locs = [mk_loc(I, f"loc{i}") for i in range(k)]
        return {"args": [PList(locs)], "ghost": {"inputs": locs}}
    return setup


def ens_roundtrip(I, env):
    res = env.vars["result"]
    inputs = env.vars["inputs"]
    parse, _, _ = resolve_target(I, GB + "::_parse_locs")
    back = I.call(parse, [res], {})
    items = I.iter_concrete(back)
    out = [("count", len(items) == len(inputs))]
    for i, (a, b) in enumerate(zip(items, inputs)):
        for f in ("_first", "_last", "_strand", "_defect"):
            out.append((f"loc{i}{f}", natives.eq(I, a.attrs[f], b.attrs[f])))
    return out


def setup_wrap(I):
    text = sym_str(I, "text")
    width = sym_int(I, "width", 1)
    return {"args": [text, width]}


CASES = [
    Case(GB + "::_convert_to_loc_string", f"{k} location(s)", setup=setup_locs(k),
         ensures=[("parse_inverts_write", ens_roundtrip)])
    for k in (1, 2)
]
MIN_OBLIGATIONS = 10


from pyvc.api import bounded_via_script
bounded = bounded_via_script("C12")
ASSUMPTIONS.append("bounded stand-in (labelled, not a proof): FASTA/FASTQ/GenBank/GFF3 round trips and edit histories of length <= 2 (3 thorough) on small files (bounded/C12.py)")
