#!/usr/bin/env python3
"""regenerate MANIFEST.json from the contract modules present"""
import json, os, importlib, sys
sys.path.insert(0, "/verif")
V = "/verif"
props = [json.loads(l) for l in open(f"{V}/properties.jsonl")]
meta = json.load(open(f"{V}/tools/manifest_meta.json"))
checks, na = [], []
for p in props:
    pid = p["id"]
    m = meta.get(pid, {})
    if m.get("claimed"):
        checks.append({
            "property_id": pid,
            "quick_cmd": f"./check {pid} --tier quick",
            "thorough_cmd": f"./check {pid} --tier thorough",
            "evidence_file": f"evidence/{pid}.json",
            "replay_cmd_template": f"./check {pid} --replay {{path}}",
            "engine": "pyvc",
            "level_claimed": {"category": m.get("category", "proof"), "text": m["text"], "design_ref": m.get("design_ref", f"DESIGN.md section 4.{pid}")},
            "level_note": m["note"],
            "technique": m.get("technique", "contracts on the real functions; VCs generated from the current source by symbolic execution; discharged by z3/cvc5"),
        })
    else:
        na.append({"property_id": pid, "reason": m.get("reason", "not yet under contract in this build")})
man = {
    "version": 1,
    "setup_cmd": "./setup.sh",
    "hooks": {"guard": "BIOTITE_VERIF", "enable": "no hooks: the verifier reads the sources of /repo's working tree; nothing is built or instrumented",
              "baseline_off_cmd": "cd /repo && /venv/bin/python -m pytest -ra -q -p no:cacheprovider --timeout=900 --continue-on-collection-errors",
              "source_commits": [], "add_only": True},
    "engines": [{"name": "pyvc", "path": "pyvc/", "serves_properties": [c["property_id"] for c in checks],
                 "kind_free_text": "contract-based deductive verifier built for this task: symbolic interpreter over the Python AST of the real functions (Cython de-sugared mechanically on every run), obligations discharged by z3 5.1 (API) with cvc5 fallback"}],
    "checks": checks,
    "not_applicable": na,
    "notes": "exit codes: 0 held / 1 VIOLATION / 2 undecided / 3 checker failure. See DESIGN.md.",
}
json.dump(man, open(f"{V}/MANIFEST.json", "w"), indent=1)
print("claimed:", [c["property_id"] for c in checks])
