#!/usr/bin/env python3
"""apply one textual mutation to a scratch copy of /repo/src/biotite and run a
property check against it:  mutate.py C13 sequence/annotation.py 'old' 'new' [--case N]"""
import os, shutil, subprocess, sys, tempfile
prop, rel, old, new = sys.argv[1:5]
extra = sys.argv[5:]
scratch = tempfile.mkdtemp(prefix="verif-mut-", dir="/var/tmp")
try:
    dst = os.path.join(scratch, "biotite")
    shutil.copytree("/repo/src/biotite", dst, ignore=shutil.ignore_patterns("*.so", "*.c", "__pycache__"))
    p = os.path.join(dst, rel)
    s = open(p).read()
    if s.count(old) < 1:
        print("MUTATION TARGET NOT FOUND"); sys.exit(9)
    s = s.replace(old, new, 1)
    open(p, "w").write(s)
    env = dict(os.environ, VERIF_OUT=os.path.join(scratch, "out"))
    r = subprocess.run(["python3-vt", "-m", "pyvc.run", prop, "--src-root", dst, "-v"] + extra,
                       cwd="/verif", capture_output=True, text=True, env=env)
    out = r.stdout.strip().split("\n")
    keep = [l for l in out if l.startswith(("VIOLATION", "  obligation", "UNDECIDED", "CHECKER", prop + ":")) or "refuted" in l or "undecided" in l]
    print("\n".join(keep[:25])); print("exit", r.returncode)
    if r.stderr.strip(): print(r.stderr[-800:])
finally:
    shutil.rmtree(scratch, ignore_errors=True)
