#!/bin/sh
# mk_worktree.sh <dir>: scratch git worktree of /repo HEAD with the (untracked) compiled
# extension modules copied in, so that tests can run there with PYTHONPATH=<dir>/src
set -e
d="$1"
git -C /repo worktree add --detach "$d" HEAD >/dev/null 2>&1
cd /repo
find src -name "*.so" -o -name "version.py" -o -name "components.bcif" | while read f; do
  mkdir -p "$d/$(dirname "$f")"; cp "$f" "$d/$f"
done
echo "$d ready"
