#!/bin/sh
# validate_seed.sh <id>: confirm a seeded change in a fresh scratch worktree:
# demo passes on HEAD, fails with the patch; listed tests give the same summary before/after
id="$1"
wt=/tmp/val/$id
rm -rf "$wt"; git -C /repo worktree prune
/verif/tools/mk_worktree.sh "$wt" >/dev/null || exit 9
cd "$wt"
mkdir -p seed; cp /verif/seeded/$id/demo.py seed/demo.py
sed -i "s#/tmp/wt/$id#$wt#g" seed/demo.py
run() { PYTHONPATH=$wt/src timeout 900 /venv/bin/python "$@"; }
tests=$(python3 -c "
import json,os
m=json.load(open('/verif/seeded/$id/meta.json'))
out=[]
for t in m.get('tests_run',[]):
    for w in str(t).replace(',',' ').split():
        w=w.split('::')[0]
        if w.startswith('tests/') and os.path.exists(w) and w not in out: out.append(w)
print(' '.join(out[:6]))")
run seed/demo.py >/tmp/val/$id.demo_before 2>&1; d0=$?
[ -n "$tests" ] && run -m pytest -q -p no:cacheprovider --continue-on-collection-errors -W ignore $tests 2>&1 | tail -1 > /tmp/val/$id.tests_before
git apply /verif/seeded/$id/patch.diff || { echo "$id PATCH DOES NOT APPLY"; exit 8; }
run seed/demo.py >/tmp/val/$id.demo_after 2>&1; d1=$?
[ -n "$tests" ] && run -m pytest -q -p no:cacheprovider --continue-on-collection-errors -W ignore $tests 2>&1 | tail -1 > /tmp/val/$id.tests_after
tb=$(sed -E 's/ in [0-9.]+s.*//' /tmp/val/$id.tests_before 2>/dev/null); ta=$(sed -E 's/ in [0-9.]+s.*//' /tmp/val/$id.tests_after 2>/dev/null)
echo "$id demo_before=$d0 demo_after=$d1 tests=[$tests] before=[$tb] after=[$ta]"
cd /; git -C /repo worktree remove --force "$wt"
