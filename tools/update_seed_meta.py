#!/usr/bin/env python3
"""update_seed_meta.py <validation-file> <seed-id>...: record in seeded/<id>/meta.json
  * confirmed_by_me: the line tools/validate_seed.sh printed for the seed (fresh scratch worktree)
  * detected_by / check_run: what ./check reported with the seed applied (log of tools/try_seed.sh)
Nothing is invented here: both inputs are outputs of those two scripts."""
import json
import os
import re
import sys

val = {}
for line in open(sys.argv[1]):
    m = re.match(r"(\S+) demo_before=(\d+) demo_after=(\d+) tests=\[(.*?)\] before=\[(.*?)\] after=\[(.*?)\]", line)
    if m:
        val[m.group(1)] = m.groups()
bad = 0
for sid in sys.argv[2:]:
    p = f"/verif/seeded/{sid}/meta.json"
    meta = json.load(open(p))
    prop = sid.split("-")[0]
    meta["breaks_property"] = prop
    if sid not in val:
        print(sid, "NOT VALIDATED")
        bad += 1
        continue
    _, d0, d1, tests, before, after = val[sid]
    ok = d0 == "0" and d1 != "0" and before == after
    meta["confirmed_by_me"] = {
        "how": "tools/validate_seed.sh in a fresh scratch worktree of /repo HEAD (removed afterwards): demo exit status before/after the patch and "
               "the summary line of the listed test files before/after (tests failing identically before and after need the CCD / network and "
               "are not in the baseline's stable set)",
        "result": f"{sid} demo_before={d0} demo_after={d1} tests before=[{before}] after=[{after}]",
    }
    log = f"/tmp/seedout_{sid}.log"
    det, rc = None, None
    if os.path.exists(log):
        lines = open(log).read().split("\n")
        viol = [l for l in lines if l.startswith("VIOLATION")]
        why = [l.strip() for l in lines if l.startswith("  replay") or l.startswith("  bounded")]
        tail = [l for l in lines if l.strip()][-1] if lines else ""
        m = re.search(r"exit=(\d+)", tail)
        rc = m.group(1) if m else None
        if viol:
            name = re.search(r"obligation=(\S+)", viol[0])
            if why and why[0].startswith("bounded"):
                det = f"bounded stand-in bounded/{prop}.py: " + why[0][:300]
            else:
                det = "proof obligation " + (name.group(1) if name else viol[0][:200]) + (": " + why[0][:300] if why else "")
    meta["detected_by"] = det
    meta["check_run"] = f"tools/try_seed.sh {sid}  (git -C /repo apply seeded/{sid}/patch.diff; ./check {prop}; git -C /repo checkout -- .)  -> exit {rc}"
    json.dump(meta, open(p, "w"), indent=1)
    print(sid, "validated" if ok else "VALIDATION FAILED", "| detected" if det else "| MISSED", "| exit", rc)
    bad += (not ok) or det is None or rc != "1"
sys.exit(1 if bad else 0)
