#!/opt/veriftools/pyvenv/bin/python
"""dump_vc.py PROP CASE_INDEX NAME_SUBSTRING [outdir]: write the ground / full SMT-LIB text of the
matching obligations of one case (debugging aid)."""
import importlib, os, sys
sys.path.insert(0, "/verif")
from pyvc import run
prop, idx, sub = sys.argv[1], int(sys.argv[2]), sys.argv[3]
out = sys.argv[4] if len(sys.argv) > 4 else "/tmp/vcdump"
os.makedirs(out, exist_ok=True)
mod = importlib.import_module("contracts." + prop)
case = mod.CASES[idx]
rec = run.run_case(case, "quick", None, run.load_findings(prop))
print(rec["status"], rec.get("error"), "paths", rec["paths"], "jobs", len(rec["jobs"]))
k = 0
for j in rec["jobs"]:
    names = [j.get("name")] if not j.get("batch") else [m["name"] for m in j["items"]]
    if any(sub in (n or "") for n in names):
        for kind in ("ground", "full"):
            if j.get(kind):
                p = f"{out}/{k}_{kind}.smt2"
                open(p, "w").write(j[kind] + "\n(check-sat)\n" if "(check-sat)" not in j[kind] else j[kind])
                print(p, names[:3], "path", j.get("path"), len(j[kind]))
        k += 1
