#!/usr/bin/env python3
"""mutation_sweep.py PROP REL FUNC [--case N ...] [--max M] [--jobs J]
Apply single-token mutations to the body of FUNC in /repo/src/biotite/REL (scratch copies under
/var/tmp, removed afterwards), run the PROP check restricted to the given cases on each mutant and
report which mutants survive (exit 0).  Measures how tightly the contracts pin the code down."""
import argparse, concurrent.futures as cf, os, re, shutil, subprocess, sys, tempfile

ap = argparse.ArgumentParser()
ap.add_argument("prop"); ap.add_argument("rel"); ap.add_argument("func")
ap.add_argument("--case", type=int, action="append", default=[])
ap.add_argument("--max", type=int, default=60)
ap.add_argument("--jobs", type=int, default=5)
ap.add_argument("--after", default=None, help="only look for FUNC after the first line containing this text (e.g. the class header)")
args = ap.parse_args()
SRC = "/repo/src/biotite"
lines = open(os.path.join(SRC, args.rel)).read().split("\n")
# extent of the function
first = next(i for i, l in enumerate(lines) if args.after in l) if args.after else 0
start = next(i for i, l in enumerate(lines) if i >= first and re.match(r"\s*(def|cdef|cpdef)\b[^=]*\b" + re.escape(args.func) + r"\s*\(", l))
ind = len(lines[start]) - len(lines[start].lstrip())
end = start + 1
while end < len(lines) and (not lines[end].strip() or len(lines[end]) - len(lines[end].lstrip()) > ind):
    end += 1
# skip the signature and the docstring
body = start + 1
while body < end and not lines[body - 1].rstrip().endswith(":"):
    body += 1
if lines[body].strip().startswith(('"""', "'''")):
    q = lines[body].strip()[:3]
    if lines[body].strip().count(q) < 2:
        body += 1
        while q not in lines[body]:
            body += 1
    body += 1
OPS = [(r" \+ ", " - "), (r" - ", " + "), (r"\+= ", "-= "), (r"-= ", "+= "), (r" < ", " <= "), (r" <= ", " < "), (r" > ", " >= "), (r" >= ", " > "),
       (r" == ", " != "), (r" != ", " == "), (r" and ", " or "), (r" or ", " and "), (r"\bTrue\b", "False"), (r"\bFalse\b", "True"),
       (r"\bmin\(", "max("), (r"\bmax\(", "min("), (r"\[i-1", "[i"), (r"\[i\+1", "[i"), (r"j-1\]", "j]"), (r"j\+1\]", "j]"),
       (r"(?<![\w.])0(?![\w.])", "1"), (r"(?<![\w.])1(?![\w.])", "2"), (r"(?<![\w.])2(?![\w.])", "1"), (r"\bbreak\b", "pass"), (r"\bnot ", "")]
mutants = []
for ln in range(body, end):
    l = lines[ln]
    code = l.split("#")[0]
    if not code.strip() or code.strip().startswith(("cdef ", "@", '"""')):
        continue
    for pat, rep in OPS:
        for m in re.finditer(pat, code):
            new = code[:m.start()] + rep + code[m.end():]
            mutants.append((ln, l.strip()[:70], new.strip()[:70], new))
    s = code.strip()
    if re.match(r"[\w\[\],. ]+(\[.*\])?\s*([+\-*&|]?=)[^=]", s) and not s.endswith((",", "(", "\\")) and s.count("(") == s.count(")"):
        mutants.append((ln, s[:70], "pass   # statement deleted", code[:len(code) - len(code.lstrip())] + "pass"))
# spread evenly
if len(mutants) > args.max:
    step = len(mutants) / args.max
    mutants = [mutants[int(k * step)] for k in range(args.max)]
print(f"{args.func}: lines {start + 1}-{end}, {len(mutants)} mutants", flush=True)


def run(mu):
    ln, old, newtxt, newline = mu
    scratch = tempfile.mkdtemp(prefix="verif-sweep-", dir="/var/tmp")
    try:
        dst = os.path.join(scratch, "biotite")
        shutil.copytree(SRC, dst, ignore=shutil.ignore_patterns("*.so", "*.c", "*.cpp", "__pycache__", "*.bcif"))
        ls = list(lines)
        ls[ln] = newline
        open(os.path.join(dst, args.rel), "w").write("\n".join(ls))
        rcs, viol = [], ""
        for c in (args.case or [None]):
            cmd = ["python3-vt", "-m", "pyvc.run", args.prop, "--src-root", dst, "--jobs", "3"] + (["--case", str(c)] if c is not None else [])
            r = subprocess.run(cmd, cwd="/verif", capture_output=True, text=True, env=dict(os.environ, VERIF_OUT=os.path.join(scratch, "out")), timeout=3000)
            rcs.append(r.returncode)
            if r.returncode == 1 and not viol:
                v = [l for l in r.stdout.split("\n") if l.startswith("VIOLATION")]
                viol = "no-failing-input" if v and v[0].endswith("no-failing-input-found") else "replayed"
            if r.returncode == 3 and not viol:
                viol = ([l for l in r.stdout.split("\n") if l.startswith("CHECKER")] or [""])[0][:120]
        return ln, old, newtxt, max(rcs) if 1 not in rcs else 1, viol
    finally:
        shutil.rmtree(scratch, ignore_errors=True)


res = []
with cf.ThreadPoolExecutor(args.jobs) as ex:
    for out in ex.map(run, mutants):
        res.append(out)
        print(f"  L{out[0] + 1} exit={out[3]} {out[4]:18s} | {out[1]}  ->  {out[2]}", flush=True)
k = sum(1 for r in res if r[3] == 1)
print(f"{args.func}: {k}/{len(res)} reported as VIOLATION, {sum(1 for r in res if r[3] == 2)} undecided, "
      f"{sum(1 for r in res if r[3] == 3)} checker failures, {sum(1 for r in res if r[3] == 0)} survived")
for r in res:
    if r[3] == 0:
        print(f"  SURVIVED L{r[0] + 1}: {r[1]}  ->  {r[2]}")
