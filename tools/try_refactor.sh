#!/bin/sh
# try_refactor.sh <patch.diff> <property-id>...: apply a behaviour-preserving patch to a scratch copy of the
# sources (under /var/tmp, removed afterwards) and run the PROOF cases of the given properties on it
# (--src-root).  Expected: exit 0 for each - anything else is a false alarm (exit 1) or a brittle proof (exit 2/3).
# (the scratch copy keeps the compiled modules, so the bounded stand-ins run on it too: patched .py + shipped .so)
patch="$1"; shift
s=$(mktemp -d /var/tmp/verif-refac-XXXXXX)
mkdir -p "$s/src"
cp -r /repo/src/biotite "$s/src/biotite"
( cd "$s" && patch -p1 -s < "$patch" ) || { echo "PATCH DOES NOT APPLY: $patch"; rm -rf "$s"; exit 9; }
for prop in "$@"; do
  ( cd /verif && VERIF_OUT="$s/out" python3-vt -m pyvc.run "$prop" --src-root "$s/src/biotite" --jobs 8 > "$s/$prop.log" 2>&1 ); rc=$?
  echo "$(basename "$patch") $prop exit=$rc $(tail -1 "$s/$prop.log" | cut -c1-160)"
  [ $rc -ne 0 ] && grep -E "^(VIOLATION|UNDECIDED|CHECKER)" "$s/$prop.log" | cut -c1-300 | head -5
done
rm -rf "$s"
