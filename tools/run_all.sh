#!/bin/sh
# run every claimed check (quick tier) and validate MANIFEST + evidence
cd /verif
rc=0
for id in $(python3 -c "import json; print(' '.join(c['property_id'] for c in json.load(open('MANIFEST.json'))['checks']))"); do
  ./check $id --tier ${1:-quick} > /tmp/verif_$id.out 2>&1; r=$?
  tail -1 /tmp/verif_$id.out
  [ $r -ne 0 ] && { rc=1; grep -E "^(VIOLATION|UNDECIDED|CHECKER)" /tmp/verif_$id.out | head -5; }
done
python3-vt - <<'PY'
import json, jsonschema
m=json.load(open('/verif/MANIFEST.json'))
jsonschema.validate(m, json.load(open('/root/.vp/MANIFEST.schema.json')))
es=json.load(open('/root/.vp/EVIDENCE.schema.json'))
for c in m['checks']:
    e=json.load(open('/verif/'+c['evidence_file']))
    jsonschema.validate(e, es)
    cv=e['coverage']
    assert cv.get("obligations", 0) == cv.get("discharged", 0), (c["property_id"], cv.get("obligations"), cv.get("discharged"))
print('manifest + evidence valid')
PY
exit $rc
