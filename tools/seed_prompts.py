#!/usr/bin/env python3
"""seed_prompts.py <round-dir> <suffix>: scratch worktrees + prompts for a round of sub-agent seeds.
The prompt contains the property text only (nothing from /verif) and names, in one sentence each,
the mechanisms earlier kept seeds already cover, so that new ones differ."""
import json, os, subprocess, sys
root, suffix = sys.argv[1], sys.argv[2]
props = {json.loads(l)['id']: json.loads(l) for l in open('/verif/properties.jsonl')}
PY = ['C01', 'C03', 'C04', 'C05', 'C06', 'C07', 'C08', 'C11', 'C12', 'C13', 'C15', 'C16', 'C17', 'C18', 'C20']
pyonly = {"C05": "Only .py files can be changed with runtime effect: look at src/biotite/structure/io/pdbx/compress.py and bcif.py (the encodings in encoding.pyx are compiled and cannot be changed).",
          "C08": "Only .py files can be changed with runtime effect: look at src/biotite/sequence/align/alignment.py (score, Alignment), matrix.py and the Python-level helpers (the dynamic programming kernels are compiled and cannot be changed)."}
os.makedirs(root, exist_ok=True)
for p in PY:
    wt = f"{root}/{p}"
    subprocess.run(["/verif/tools/mk_worktree.sh", wt], check=True, stdout=subprocess.DEVNULL)
    prev = []
    for d in sorted(os.listdir('/verif/seeded')):
        if d.split('-')[0] == p:
            m = json.load(open(f'/verif/seeded/{d}/meta.json'))
            prev.append("- " + m['summary'].split('. ')[0][:300] + " (" + ", ".join(m.get('files_changed', [])) + ")")
    d = props[p]
    av = ("\nIMPORTANT: other engineers have already produced changes concerning the following; yours must be about a DIFFERENT mechanism / function / clause of the property:\n" + "\n".join(prev) + "\n") if prev else ""
    open(f'{root}/{p}.prompt', 'w').write(f"""You are working in a scratch git worktree of the open-source Python/Cython bioinformatics library "biotite" at {wt}. Work ONLY inside {wt}. Do not read, list or modify /repo, /verif or /tmp/wt* directories other than your own (they are out of bounds for this task).

How to run code and tests in this worktree (the compiled extension modules are already copied in):
  cd {wt} && PYTHONPATH={wt}/src /venv/bin/python -m pytest -q -p no:cacheprovider tests/<some test file>
  cd {wt} && PYTHONPATH={wt}/src /venv/bin/python your_script.py
Cython is NOT installed: edits to .pyx files have no runtime effect, so change only .py files under src/biotite. {pyonly.get(p, "")} There is no network. Some tests fail even without any change (missing data files) - always compare test results before and after your change. Do NOT use `git stash` (the stash is shared with other worktrees): to test the original code use `git diff -- src > {wt}/my.diff; git apply -R {wt}/my.diff; ...; git apply {wt}/my.diff`.

A semantic property of the library (it should hold for all inputs / histories):

TITLE: {d['title']}
STATEMENT: {d['statement']}
RELEVANT FILES: {', '.join(d['anchors'].get('files', []))}
{av}
YOUR TASK: make ONE small, realistic change to the library source (something a developer could plausibly commit by mistake: an off-by-one, a dropped guard, a swapped argument, a wrong default, a refactoring that is almost equivalent, two sites that each look fine alone, ...) that BREAKS this property, while
  (a) the package still imports and runs, and
  (b) the existing tests that touch the changed code give exactly the same pass/fail results as before the change (run the relevant test files under tests/ before and after and compare).
Prefer a SUBTLE change that needs something specific to manifest - an unusual but legitimate input, a particular multi-step sequence of operations, a boundary value, a failure at a particular point, a rarely used option - rather than one that ordinary use would expose at once.

DELIVERABLES (create the directory {wt}/seed):
  1. {wt}/seed/patch.diff  - output of `git diff -- src` for your change
  2. {wt}/seed/demo.py     - a small self-contained program using the public API that exits with status 1 (and prints what went wrong) when the change is applied and exits 0 on the original code. It is run as: cd {wt} && PYTHONPATH={wt}/src /venv/bin/python seed/demo.py
  3. {wt}/seed/meta.json   - {{"property": "{p}", "summary": "...", "needs_to_manifest": "...", "files_changed": [...], "tests_run": ["tests/..."], "tests_same_before_after": true}}
Verify yourself: demo exits 1 with the change and 0 without it (toggle with git apply -R / git apply as described); leave the change applied in the worktree. Keep the change small (a few lines). Finish with a short report of what you changed and the commands you ran.
""")
print("prompts in", root)
