#!/usr/bin/env python3-vt
"""record_identifiers.py: write baseline/identifiers.json from /repo's (pinned) sources: for every function of
every file that holds a function under contract, the identifiers in order of first appearance and the hash of the
occurrence pattern (pyvc/renames.py).  Run on the pinned tree only, like --record-baseline."""
import glob
import importlib
import json
import os
import sys
sys.path.insert(0, "/verif")
from pyvc.loader import Loader
from pyvc import renames

files = set()
for p in sorted(glob.glob("/verif/contracts/C*.py")):
    mod = importlib.import_module("contracts." + os.path.basename(p)[:-3])
    for c in getattr(mod, "CASES", []):
        files.add(c.target.split("::")[0])
        for q in list(getattr(c, "helper_loops", {}) or {}) + list(getattr(c, "call_contracts", {}) or {}):
            if "::" in str(q):
                files.add(str(q).split("::")[0])
ld = Loader()
out = {}
for rel in sorted(files):
    tree, _ = ld.parse(rel)
    out[rel] = renames.module_signatures(tree)
json.dump({"note": "identifiers of every function of the files under contract, in order of first appearance, and the hash of "
                   "their occurrence pattern, on the pinned tree (see pyvc/renames.py)", "files": out},
          open(renames.FILE, "w"), indent=0)
print(len(out), "files,", sum(len(v) for v in out.values()), "functions")
