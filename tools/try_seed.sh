#!/bin/sh
# try_seed.sh <seed-id> [property-id]: apply a kept seeded change to /repo, run the check, undo it
id="$1"; prop="${2:-${1%%-*}}"
cd /repo && git apply /verif/seeded/$id/patch.diff || { echo "patch does not apply"; exit 9; }
cd /verif && VERIF_OUT=/tmp/seedout/$id ./check $prop > /tmp/seedout_$id.log 2>&1; rc=$?
git -C /repo checkout -- .
grep -E "^(VIOLATION|KNOWN|UNDECIDED|CHECKER)" /tmp/seedout_$id.log | cut -c1-260 | head -6
grep -E "^  (replay|bounded)" /tmp/seedout_$id.log | cut -c1-300 | head -3
tail -1 /tmp/seedout_$id.log | cut -c1-200
echo "seed $id check $prop exit=$rc"
