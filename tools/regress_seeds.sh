#!/bin/bash
# regress_seeds.sh [jobs]: run the checks against EVERY kept seed on scratch copies of the sources (under /var/tmp,
# removed afterwards; /repo is not touched), several at a time; prints one line per seed: "<id> exit=<rc> ...".
# Expected: exit=1 for every seed.
jobs="${1:-5}"
ls /verif/seeded | sort -V | xargs -P "$jobs" -I{} bash -c '
  id="{}"; prop="${id%%-*}"
  s=$(mktemp -d /var/tmp/verif-seedreg-XXXXXX)
  mkdir -p "$s/src"; cp -r /repo/src/biotite "$s/src/biotite"
  if ( cd "$s" && patch -p1 -s < "/verif/seeded/$id/patch.diff" ) >/dev/null 2>&1; then
    ( cd /verif && VERIF_OUT="$s/out" python3-vt -m pyvc.run "$prop" --src-root "$s/src/biotite" --jobs 3 > "$s/log" 2>&1 ); rc=$?
    echo "$id exit=$rc $(grep -c "^VIOLATION" "$s/log") violation line(s)"
  else
    echo "$id PATCH-DOES-NOT-APPLY"
  fi
  rm -rf "$s"'
