"""pyvc.report -- verdict aggregation, evidence file, exit code"""
import json
import os
import sys
import time

VERIF = os.path.dirname(os.path.dirname(os.path.abspath(__file__)))
OUT = os.environ.get("VERIF_OUT", VERIF)


def norm_name(name):
    """obligation name without source line numbers (stable under inserted / removed lines)"""
    import re
    return re.sub(r"@L\d+", "@L", name)


def load_baseline(prop, tier):
    """obligations discharged on the pinned tree (committed file written by
    `python3-vt -m pyvc.run <prop> --record-baseline`, never at check time)"""
    p = os.path.join(VERIF, "baseline", f"{prop}.{tier}.json")
    if not os.path.exists(p):
        return {}
    return json.load(open(p)).get("proved", {})


def finish(prop, mod, recs, tier, seed, t0, replay_fn, verbose=False, bounded=None, record_baseline=False):
    findings = []
    kf_path = os.path.join(VERIF, "known_findings.json")
    if os.path.exists(kf_path):
        findings = [f for f in json.load(open(kf_path)).get("findings", []) if f.get("property") == prop]
    kf_by_id = {f["id"]: f for f in findings}

    n_ob = n_proved = 0
    by_backend = {}
    solver_s = 0.0
    crashes, undecided, violations, known_hits, vacuous = [], [], [], {}, []
    cand = []
    samples = []
    functions = {}
    trusted = set()
    probes = canaries = 0
    dropped = {}
    renamed = {}
    sources = {}
    for rec in recs:
        if rec.get("status") == "crash":
            crashes.append((rec["case"], rec.get("error"), rec.get("trace")))
            continue
        if rec.get("status") == "unsupported":
            undecided.append((rec["case"], "unsupported: " + str(rec.get("error"))))
        trusted.update(rec.get("trusted", []))
        dropped.update(rec.get("dropped", {}))
        renamed.update(rec.get("renamed_identifiers", {}))
        sources.update(rec.get("sources", {}))
        fn = functions.setdefault(rec["target"], {"variants": [], "obligations": 0, "proved": 0,
                                                  "paths": 0, "level": rec.get("level", "proof")})
        fn["variants"].append(rec.get("variant", ""))
        fn["paths"] += rec.get("paths", 0)
        for o in rec["obligations"]:
            if o["kind"] == "vacuity":
                probes += 1
                if o["verdict"] != "proved":
                    vacuous.append((o["name"], o["verdict"]))
                continue
            if o["kind"] == "canary":
                canaries += 1
                if o["verdict"] != "proved":
                    vacuous.append((o["name"], o["verdict"]))
                continue
            n_ob += 1
            fn["obligations"] += 1
            solver_s += o.get("time", 0)
            b = by_backend.setdefault(o.get("backend") or "?", {"count": 0, "seconds": 0.0})
            b["count"] += 1
            b["seconds"] = round(b["seconds"] + o.get("time", 0), 3)
            if o["verdict"] == "proved":
                n_proved += 1
                fn["proved"] += 1
                if "smt2" in o and len(samples) < 3:
                    samples.append({"obligation": o["name"], "path": o["path"], "backend": o["backend"],
                                    "seconds": o["time"], "negated_vc_smt2": o["smt2"]})
            elif o["verdict"] == "refuted":
                if o.get("known_finding"):
                    known_hits.setdefault(o["known_finding"], []).append(o)
                else:
                    violations.append((rec, o))
            elif o.get("candidate_model") is not None:
                # ground instance satisfiable, full VC undecided: the candidate
                # counter-model counts only if it replays on the real code
                cand.append((rec, o))
            else:
                # undecided: a guided concrete search of the same contract on the
                # real code (in the replayer) may still find a failing input
                cand.append((rec, o))

    # a case that generated nothing is a checker failure, not a pass
    floor = getattr(mod, "MIN_OBLIGATIONS", 1)
    if os.environ.get("VERIF_SINGLE_CASE") == "1":
        floor = 1           # the floor is meant for whole-property runs
    bounded_only = not getattr(mod, "CASES", None)
    if bounded_only:
        floor = 0
    lines = []
    rc = 0
    viol_count = 0
    replay_paths = []
    for rec, o in violations:
        reproduced, detail, path = replay_fn(prop, o, rec, tier)
        viol_count += 1
        tail = "" if reproduced else " no-failing-input-found"
        lines.append(f"VIOLATION property={prop} replay={path}{tail}")
        lines.append(f"  obligation={o['name']} path={o['path']} model={json.dumps(o.get('model', {}), default=str)[:300]}")
        lines.append(f"  replay: {detail}")
        replay_paths.append(path)
        rc = 1
    tried = 0
    searched = {}
    baseline = load_baseline(prop, tier)
    regressed = 0
    for rec, o in cand:
        reproduced, detail, path = (None, "not replayed (limit)", None)
        key = (rec["case"])
        if key in searched:
            reproduced, detail, path = searched[key]
        elif tried < 6:
            tried += 1
            reproduced, detail, path = replay_fn(prop, o, rec, tier)
            searched[key] = (reproduced, detail, path)
        if reproduced:
            viol_count += 1
            lines.append(f"VIOLATION property={prop} replay={path}")
            lines.append(f"  obligation={o['name']} path={o['path']} (VC undecided by the solvers: {o.get('reason')}; failing input found by replay / guided search on the real code)")
            lines.append(f"  replay: {detail}")
            rc = 1
        elif norm_name(o["name"]) in baseline and os.environ.get("VERIF_NO_BASELINE") != "1":
            # the obligation was discharged on the pinned tree and is no longer: reported as the
            # violation although neither the solvers nor the guided search produced a failing input
            regressed += 1
            if path is None:
                out_root = os.environ.get("VERIF_OUT", VERIF)
                os.makedirs(os.path.join(out_root, "replays"), exist_ok=True)
                safe = "".join(c if c.isalnum() else "_" for c in o["name"])[:120]
                path = os.path.join(out_root, "replays", f"{prop}_{safe}_p{o['path']}.json")
                with open(path, "w") as f:
                    json.dump({"property": prop, "obligation": o["name"], "case": rec["case"], "kind": o["kind"],
                               "path": o["path"], "model": o.get("candidate_model") or {}, "goal": o.get("goal"),
                               "solver_output": o.get("reason"), "replay": {"reproduced": None, "detail": detail}},
                              f, indent=1, default=str)
            if regressed <= 12:
                viol_count += 1
                lines.append(f"VIOLATION property={prop} replay={path} no-failing-input-found")
                lines.append(f"  obligation={o['name']} path={o['path']} was discharged on the pinned tree "
                             f"(baseline/{prop}.{tier}.json) and is not on this tree: {o.get('reason')}")
                lines.append(f"  replay: {detail}")
            rc = 1
        else:
            undecided.append((o["name"], (o.get("reason") or "") + f" | candidate replay: {detail}"))
    if regressed > 12:
        lines.append(f"  ... and {regressed - 12} more obligations that were discharged on the pinned tree and are not now")
    for kid, obs in known_hits.items():
        kf = kf_by_id[kid]
        lines.append(f"KNOWN-FINDING: property={prop} {kf['what']} [obligations {', '.join(sorted(set(o['name'].split('::', 1)[1] for o in obs)))}; every witness in class: {kf['witness_class']}]")
    if rc == 0:
        if crashes:
            rc = 3
        elif vacuous:
            rc = 3
        elif n_ob < floor:
            rc = 3
        elif undecided:
            rc = 2
    for c in crashes:
        lines.append(f"CHECKER-FAILURE case={c[0]} {c[1]}")
        if verbose and c[2]:
            lines.append(c[2])
    for v in vacuous:
        lines.append(f"CHECKER-FAILURE vacuous {v[0]} ({v[1]})")
    if n_ob < floor:
        lines.append(f"CHECKER-FAILURE only {n_ob} obligations generated (floor {floor})")
    for u in undecided[:40]:
        lines.append(f"UNDECIDED obligation={u[0]} reason={u[1]}")

    b_cov = {}
    if bounded is not None:
        if bounded.get("status") == "crash":
            lines.append(f"CHECKER-FAILURE bounded stand-in crashed: {bounded.get('error')}")
            rc = rc or 3
        else:
            b_cov = {k: v for k, v in bounded.items() if k.startswith("bounded_")}
            for v in bounded.get("violations", []):
                lines.append(f"VIOLATION property={prop} replay={v['replay']}")
                lines.append(f"  bounded stand-in: {v['what']}")
                viol_count += 1
                rc = 1
            for kf in bounded.get("known", []):
                lines.append(f"KNOWN-FINDING: property={prop} {kf}")

    wall = round(time.time() - t0, 3)
    n_known = sum(len(v) for v in known_hits.values())
    coverage = {
        # obligations the run set out to prove; obligations refuted only by
        # witnesses of a recorded known finding are counted separately below
        "obligations": n_ob - n_known,
        "discharged": n_proved,
        "obligations_generated_total": n_ob,
        "obligations_refuted_by_known_findings": n_known,
        "checker_cmd": f"python3-vt -m pyvc.run {prop} --tier {tier}",
        "trusted_base": sorted(trusted) + list(getattr(mod, "TRUSTED", [])),
        "functions_under_contract": functions,
        "by_backend": by_backend,
        "solver_seconds": round(solver_s, 3),
        "vacuity_probes": probes,
        "canaries": canaries,
        "undecided": [list(u) for u in undecided],
        "refuted_known_findings": {k: [o["name"] for o in v] for k, v in known_hits.items()},
        "refuted_new": [o["name"] for _, o in violations],
        "unverified_surroundings": list(getattr(mod, "UNVERIFIED", [])),
        "out_of_reach": list(getattr(mod, "OUT_OF_REACH", [])),
        "source_sha256": sources,
        "cython_constructs_dropped": dropped,
        "identifiers_renamed_since_pinned_tree": renamed,
        "samples": samples or [{"note": "no proved obligation sampled"}],
        "paths_explored": sum(r.get("paths", 0) for r in recs),
        "explanation": getattr(mod, "EXPLANATION", ""),
    }
    if baseline:
        cur = set()
        for rec in recs:
            for o in rec["obligations"]:
                if o["kind"] not in ("vacuity", "canary"):
                    cur.add(norm_name(o["name"]))
        coverage["baseline"] = {"file": f"baseline/{prop}.{tier}.json", "names": len(baseline),
                                "names_generated_again": len(cur & set(baseline)),
                                "names_not_generated_this_run": sorted(set(baseline) - cur)[:20],
                                "rule": "an obligation discharged on the pinned tree that is undecided now (after a second attempt with "
                                        "a longer solver budget) is reported as VIOLATION ... no-failing-input-found"}
    coverage.update(b_cov)
    level = "proof"
    mostly_bounded = getattr(mod, "EVIDENCE_LEVEL", None) == "exploration"
    if bounded_only or mostly_bounded:
        # no function of this property is proved (or, EVIDENCE_LEVEL = "exploration": only a helper is, and the
        # property as a whole is decided by the stand-in): the evidence is the bounded run-time check of the
        # contracts, labelled as such; the obligations of a proved helper stay in the coverage as extra keys
        level = "exploration"
        coverage["evaluations"] = b_cov.get("bounded_evaluations", 0)
        coverage["distinct_nontrivial"] = b_cov.get("bounded_distinct_nontrivial", 0)
        coverage["rule"] = b_cov.get("bounded_rule", "")
        coverage["samples"] = b_cov.get("bounded_samples") or [{"note": "no sample"}]
        coverage["exhaustive"] = False
        if bounded_only:
            for k in ("obligations", "discharged"):
                coverage.pop(k, None)
        if rc == 0 and coverage["evaluations"] < 1:
            rc = 3
            lines.append("CHECKER-FAILURE bounded stand-in evaluated nothing")
    ev = {
        "property_id": prop, "tier": tier, "seed": seed, "level": level,
        "coverage": coverage,
        "assumptions": list(getattr(mod, "ASSUMPTIONS", [])),
        "wall_s": wall, "violations": viol_count,
    }
    os.makedirs(os.path.join(OUT, "evidence"), exist_ok=True)
    with open(os.path.join(OUT, "evidence", f"{prop}.json"), "w") as f:
        json.dump(ev, f, indent=1, default=str)
    if record_baseline:
        if rc != 0:
            lines.append("baseline NOT recorded: the run did not pass")
        else:
            proved, bad = {}, set()
            for rec in recs:
                for o in rec["obligations"]:
                    if o["kind"] in ("vacuity", "canary"):
                        continue
                    k = norm_name(o["name"])
                    if o["verdict"] == "proved":
                        proved[k] = max(proved.get(k, 0.0), o.get("time", 0.0))
                    else:
                        bad.add(k)
            for k in bad:
                proved.pop(k, None)
            os.makedirs(os.path.join(VERIF, "baseline"), exist_ok=True)
            with open(os.path.join(VERIF, "baseline", f"{prop}.{tier}.json"), "w") as f:
                json.dump({"property": prop, "tier": tier, "source_sha256": sources,
                           "note": "obligations (names without line numbers) all of whose instances were discharged on the pinned tree; "
                                   "value = longest solver time in seconds",
                           "proved": dict(sorted(proved.items()))}, f, indent=1)
            lines.append(f"baseline recorded: {len(proved)} obligation names")
    for ln in lines:
        print(ln)
    print(f"{prop}: obligations={n_ob} discharged={n_proved} known={sum(len(v) for v in known_hits.values())} "
          f"violations={viol_count} undecided={len(undecided)} probes={probes} canaries={canaries} "
          f"wall={wall}s exit={rc}")
    if verbose:
        for rec in recs:
            print(f"  case {rec['case']}: status={rec.get('status')} paths={rec.get('paths')} "
                  f"obs={len(rec['obligations'])} gen={rec.get('gen_s')}s err={rec.get('error')}")
            if rec.get("status") != "ok" and rec.get("trace"):
                print(rec["trace"])
            shown = 0
            for o in rec["obligations"]:
                if o["verdict"] not in ("proved",):
                    shown += 1
                    if shown > 12:
                        continue
                    print(f"    {o['verdict']:9s} {o['name']} path={o['path']} {o.get('reason') or ''} {json.dumps(o.get('model', {}), default=str)[:400]}")
    return rc
