"""pyvc.heap -- heap objects of the symbolic interpreter"""
import z3
from .core import Unsupported, CV

_alloc = [0]


def _stamp():
    _alloc[0] += 1
    return _alloc[0]


def reset_alloc():
    _alloc[0] = 0


def now():
    return _alloc[0]


class HeapObj:
    def __init__(self):
        self.stamp = _stamp()


class Class(HeapObj):
    def __init__(self, name, bases, ns, module=None, kind="user"):
        super().__init__()
        self.name = name
        self.bases = list(bases)
        self.ns = ns
        self.module = module
        self.kind = kind            # user | exception | enum | flag | builtin
        self.members = {}           # enum members name -> EnumVal
        self.mro = self._mro()

    def _mro(self):
        out = [self]
        for b in self.bases:
            for c in (b.mro if isinstance(b, Class) else []):
                if c not in out:
                    out.append(c)
        return out

    def lookup(self, name):
        for c in self.mro:
            if name in c.ns:
                return c.ns[name], c
        return None, None

    def issubclass(self, other):
        return other in self.mro

    def __repr__(self):
        return f"<class {self.name}>"


class Obj(HeapObj):
    def __init__(self, cls, attrs=None):
        super().__init__()
        self.cls = cls
        self.attrs = attrs if attrs is not None else {}

    def __repr__(self):
        return f"<{self.cls.name} obj #{self.stamp}>"


class Func(HeapObj):
    def __init__(self, node, env, qualname, module, cls=None):
        super().__init__()
        self.node = node
        self.env = env
        self.qualname = qualname
        self.module = module
        self.cls = cls
        self.attrs = {}

    def __repr__(self):
        return f"<func {self.qualname}>"


class BoundMethod:
    def __init__(self, func, self_obj):
        self.func = func
        self.self_obj = self_obj


class Native:
    """engine-implemented callable; fn(interp, args, kwargs)"""
    def __init__(self, name, fn):
        self.name = name
        self.fn = fn

    def __repr__(self):
        return f"<native {self.name}>"


class Property:
    def __init__(self, fget, fset=None):
        self.fget = fget
        self.fset = fset


class StaticMethod:
    def __init__(self, func):
        self.func = func


class ClassMethod:
    def __init__(self, func):
        self.func = func


class Module(HeapObj):
    def __init__(self, name, ns):
        super().__init__()
        self.name = name
        self.ns = ns

    def __repr__(self):
        return f"<module {self.name}>"


class EnumVal:
    """member of an Enum / Flag / IntEnum class; value may be symbolic
    (Int for Enum/IntEnum, BitVec for Flag)"""
    def __init__(self, cls, value, name=None):
        self.cls = cls
        self.value = value
        self.name = name

    def __repr__(self):
        return f"<{self.cls.name}.{self.name or self.value}>"


class PList(HeapObj):
    def __init__(self, items=None):
        super().__init__()
        self.items = list(items) if items is not None else []
        self.summary = None      # MapSummary once abstracted by the map rule

    def __repr__(self):
        return f"PList({self.items})"


class PSet(HeapObj):
    def __init__(self, items=None, frozen=False):
        super().__init__()
        self.items = list(items) if items is not None else []
        self.frozen = frozen
        self.summary = None


class PDict(HeapObj):
    def __init__(self, items=None):
        super().__init__()
        self.items = dict(items) if items is not None else {}
        self.order = list(self.items.keys())


class AbsColl(HeapObj):
    """abstract collection of unknown, unbounded size.  Iteration is only
    possible through the map rule.  `elem(cx, tag)` builds a generic
    element."""
    def __init__(self, name, elem, kind="set", origin=None):
        super().__init__()
        self.name = name
        self.elem = elem
        self.kind = kind
        self.origin = origin if origin is not None else self      # same elements

    def clone(self, kind=None):
        """a new container object holding the same elements (set(x), copy)"""
        return AbsColl(self.name, self.elem, kind or self.kind, origin=self.origin)


class MapSummary:
    """result of the map rule: for a generic element `elem` of `source`,
    `cases` lists (condition, emitted items) per body path"""
    def __init__(self, source, elem, cases, nonempty, raising):
        self.source = source
        self.elem = elem
        self.cases = cases
        self.nonempty = nonempty     # Bool ghost: some element emits
        self.raising = raising       # conditions of excluded (raising) cases


class Opaque(HeapObj):
    """opaque value (e.g. a qualifier dict); equality by `ident` term"""
    def __init__(self, name, ident=None):
        super().__init__()
        self.name = name
        self.ident = ident if ident is not None else z3.Int(f"opq!{name}!{self.stamp}")

    def __repr__(self):
        return f"<opaque {self.name}>"


class ArrStore:
    """storage shared by all views of one array"""
    def __init__(self, term):
        self.term = term
        self.version = 0


class SymArr(HeapObj):
    """symbolic n-d array / memoryview: z3 nested Array Int->...->elem,
    symbolic shape, C element type (None: Python ints).  `memview` marks a
    typed memoryview (C-level indexing: bounds per Cython directives)."""
    def __init__(self, name, ctype, shape, arr=None, readonly=False, store=None, memview=False):
        super().__init__()
        self.name = name
        self.ctype = ctype
        self.shape = list(shape)
        self.readonly = readonly
        self.memview = memview
        if store is not None:
            self.store = store
        else:
            self.store = ArrStore(None)
            self.store.term = arr if arr is not None else self.fresh_term()

    @property
    def arr(self):
        return self.store.term

    @arr.setter
    def arr(self, t):
        self.store.term = t

    def sort(self):
        from .core import is_float_ctype
        s = z3.RealSort() if (self.ctype and is_float_ctype(self.ctype)) else z3.IntSort()
        for _ in self.shape:
            s = z3.ArraySort(z3.IntSort(), s)
        return s

    def fresh_term(self):
        self.store.version += 1
        return z3.Const(f"{self.name}!{self.stamp}v{self.store.version}", self.sort())

    def view(self, memview=True, ctype=None):
        v = SymArr(self.name, ctype or self.ctype, self.shape, store=self.store,
                   readonly=self.readonly, memview=memview)
        return v

    def __repr__(self):
        return f"<SymArr {self.name}:{self.ctype}{self.shape}>"


class CTypeObj(HeapObj):
    """a C type used as a value (fused-type dispatch: `if Integer is int8:`)"""
    _interned = {}

    def __init__(self, name):
        super().__init__()
        self.name = name

    @classmethod
    def get(cls, name):
        if name not in cls._interned:
            cls._interned[name] = CTypeObj(name)
        return cls._interned[name]

    def __repr__(self):
        return f"<ctype {self.name}>"


class Cell:
    """one-cell reference (`&x` out-parameter in .pyx)"""
    def __init__(self, env, name):
        self.env = env
        self.name = name


class ElemCell:
    """pointer to an array element (`&a[i, j]`)"""
    def __init__(self, arr, idx):
        self.arr = arr
        self.idx = idx


class Poison:
    def __init__(self, why):
        self.why = why


class SliceObj:
    def __init__(self, start, stop, step):
        self.start = start
        self.stop = stop
        self.step = step

    def __repr__(self):
        return f"slice({self.start},{self.stop},{self.step})"


class RangeObj:
    def __init__(self, start, stop, step):
        self.start = start
        self.stop = stop
        self.step = step
