"""pyvc.nplib -- symbolic arrays (typed memoryviews and ndarrays) and
contracts for the NumPy operations used by the verified functions (trusted
library contracts)."""
import z3
from .core import (Unsupported, CV, zint, zbool, zreal, simp, is_int_ctype, is_float_ctype,
                   int_range, norm_ctype, wrap_int)
from .heap import Module, Native, Class, SymArr, SliceObj, PList, Obj, EnumVal, Opaque

DTYPES = {"int8", "uint8", "int16", "uint16", "int32", "uint32", "int64", "uint64",
          "float32", "float64", "bool_"}


class DType:
    def __init__(self, name):
        self.name = name


def dtype_attr(dt, name):
    """attributes of a NumPy dtype object (integer and floating dtypes of fixed width)"""
    bits = {"int8": 8, "uint8": 8, "int16": 16, "uint16": 16, "int32": 32, "uint32": 32, "int64": 64, "uint64": 64,
            "float32": 32, "float64": 64, "bool": 8}.get(dt.name)
    if bits is None:
        raise Unsupported(f"attribute {name} of dtype {dt.name}")
    if name == "itemsize":
        return bits // 8
    if name == "name":
        return dt.name
    if name == "kind":
        return "b" if dt.name == "bool" else ("f" if dt.name.startswith("float") else ("u" if dt.name.startswith("u") else "i"))
    raise Unsupported(f"attribute {name} of a dtype")


def elem_value(I, arr, term):
    """wrap a selected element; elements of a typed array are in range"""
    if arr.ctype is None:
        return term
    if is_int_ctype(arr.ctype):
        lo, hi = int_range(arr.ctype)
        t = simp(term)
        if not isinstance(t, int):
            I.ctx.assume(z3.And(term >= lo, term <= hi))
        return CV(arr.ctype, t)
    if is_float_ctype(arr.ctype):
        return CV(arr.ctype, term)
    return term


def _bounds(I, arr, k, i, env, what):
    """normalise index i for dimension k under the Cython directives in force
    (C-level memoryview access) or NumPy semantics (object access)"""
    n = arr.shape[k]
    i = I.unC(i)
    if isinstance(i, EnumVal):
        i = i.value
    iz = i if isinstance(i, int) else zint(i)
    nz = n if isinstance(n, int) else zint(n)
    c_level = arr.memview and env is not None and I.is_cy(env)
    wrap = True
    check = True
    if c_level:
        wrap = I.cyflag(env, "wraparound")
        check = I.cyflag(env, "boundscheck")
    j = iz
    if wrap:
        if isinstance(iz, int) and isinstance(nz, int):
            j = iz + nz if iz < 0 else iz
        else:
            j = simp(z3.If(zint(iz) < 0, zint(iz) + zint(nz), zint(iz)))
    inb = simp(z3.And(zint(j) >= 0, zint(j) < zint(nz)))
    if check:
        if not I.ctx.branch(inb):
            I.throw("IndexError", f"{what}: index out of bounds on axis {k}")
    else:
        node = getattr(I, "cur_node", None)
        I.ctx.oblige(I.obname(f"index_in_bounds[{arr.name}.{k}]", node), inb, "memory-safety",
                     {"why": "boundscheck(False): out of bounds is undefined behaviour"})
        I.ctx.assume(inb)
    return j


def arr_getitem(I, arr, idx, env):
    idx = idx if isinstance(idx, tuple) else (idx,)
    if any(x is Ellipsis for x in idx):
        raise Unsupported("ellipsis index on a symbolic array")
    if all(not isinstance(x, (SliceObj, SymArr, PList)) and x is not None for x in idx):
        if len(idx) == len(arr.shape):
            t = arr.arr
            for k, i in enumerate(idx):
                j = _bounds(I, arr, k, i, env, arr.name)
                t = z3.Select(t, zint(j))
            return elem_value(I, arr, t)
        if len(idx) < len(arr.shape):
            # leading integer indices select a sub-array (view semantics are
            # not modelled: the result is a snapshot, writes through it are unsupported)
            t = arr.arr
            for k, i in enumerate(idx):
                j = _bounds(I, arr, k, i, env, arr.name)
                t = z3.Select(t, zint(j))
            sub = SymArr(arr.name + "_row", arr.ctype, arr.shape[len(idx):], arr=t, readonly=True,
                         memview=arr.memview)
            return sub
    if len(idx) == 1 and isinstance(idx[0], SliceObj) and idx[0].step is None and not (arr.memview and env is not None and I.is_cy(env)):
        # ndarray[start:stop] on the first axis (NumPy slice semantics: indices clipped to the array);
        # the result is modelled as a snapshot (writes through the view are unsupported)
        n = zint(arr.shape[0])

        def norm(v, default):
            if v is None:
                return default
            v = zint(I.unC(v))
            v = z3.If(v < 0, v + n, v)
            return z3.If(v < 0, 0, z3.If(v > n, n, v))
        lo = norm(idx[0].start, z3.IntVal(0))
        hi = norm(idx[0].stop, n)
        length = simp(z3.If(hi > lo, hi - lo, 0))
        lo = simp(lo)
        if isinstance(lo, int) and lo == 0:
            t = arr.arr
        else:
            q = z3.Int("q!slice")
            t = z3.Lambda([q], z3.Select(arr.arr, q + zint(lo)))
        return SymArr(arr.name + "_slice", arr.ctype, [length] + list(arr.shape[1:]), arr=t, readonly=True)
    if len(idx) == 1 and isinstance(idx[0], SymArr) and idx[0].ctype == "bool" and len(idx[0].shape) == 1:
        return mask_select(I, arr, idx[0])
    if (len(idx) == 1 and isinstance(idx[0], SymArr) and idx[0].ctype and is_int_ctype(idx[0].ctype) and len(idx[0].shape) == 1
            and len(arr.shape) == 1 and not (arr.memview and env is not None and I.is_cy(env))):
        # a[index array]: element q of the result is a[index[q]]; negative indices count from the end; an index
        # outside [-n, n) raises IndexError
        ix = idx[0]
        n, m = zint(arr.shape[0]), zint(ix.shape[0])
        q = z3.Int("q!take")
        v = z3.Select(ix.arr, q)
        if I.ctx.branch(z3.Exists([q], z3.And(q >= 0, q < m, z3.Or(v < -n, v >= n)))):
            I.throw("IndexError", f"{arr.name}: index array element out of bounds")
        I.ctx.trusted.add("a[integer index array]: element q is a[index[q]] (negative indices from the end), IndexError when any index is outside [-n, n)")
        return SymArr(arr.name + "_take", arr.ctype, [ix.shape[0]], arr=z3.Lambda([q], z3.Select(arr.arr, z3.If(v < 0, v + n, v))))
    raise Unsupported(f"array subscript {idx!r}")


def mask_select(I, arr, mask):
    """library contract of ndarray[boolean mask] (first axis): the selected rows in order.
    RANK(k) = number of selected positions before k (fresh ghost function with its recursion
    equations); result[RANK(k)] == arr[k] for every selected k; len(result) == RANK(n)."""
    n = zint(arr.shape[0])
    nc = simp(n)
    if isinstance(nc, int) and nc <= 4096:
        ms = [simp(z3.Select(mask.arr, q)) for q in range(nc)]
        if all(isinstance(x, (int, bool)) for x in ms):
            # concrete mask (replay mode): build the selection directly
            res = SymArr(arr.name + "_sel", arr.ctype, [sum(1 for x in ms if x)] + list(arr.shape[1:]))
            t = res.arr
            r = 0
            for q, x in enumerate(ms):
                if x:
                    t = z3.Store(t, r, z3.Select(arr.arr, q))
                    r += 1
            res.arr = t
            return res
    rank = z3.Function(I.ctx.fresh_name("RANK"), z3.IntSort(), z3.IntSort())
    sel = lambda k: z3.Select(mask.arr, k) != 0
    k, k2 = z3.Ints("k!rk k2!rk")
    I.ctx.assume(rank(0) == 0)
    I.ctx.assume(z3.ForAll([k], z3.Implies(k >= 0, rank(k + 1) == rank(k) + z3.If(sel(k), 1, 0))))
    I.ctx.assume(z3.ForAll([k], z3.Implies(k >= 0, z3.And(rank(k) >= 0, rank(k) <= k))))                 # induction lemma
    I.ctx.assume(z3.ForAll([k, k2], z3.Implies(z3.And(k >= 0, k <= k2), rank(k) <= rank(k2))))           # induction lemma
    res = SymArr(arr.name + "_sel", arr.ctype, [rank(n)] + list(arr.shape[1:]))
    I.ctx.assume(z3.ForAll([k], z3.Implies(z3.And(k >= 0, k < n, sel(k)),
                                           z3.Select(res.arr, rank(k)) == z3.Select(arr.arr, k))))
    res.rank = rank
    res.rank_of = (arr, mask)
    I.ctx.trusted.add("numpy boolean-mask indexing: selected rows in order (ghost RANK with recursion equations and its monotonicity lemma)")
    return res


def arr_setitem(I, arr, idx, v, env):
    if arr.readonly:
        raise Unsupported("store through a read-only / snapshot array")
    I.check_mutation(arr, "array item store")
    idx = idx if isinstance(idx, tuple) else (idx,)
    if len(idx) == len(arr.shape) and all(not isinstance(x, (SliceObj, SymArr, PList)) and x is not None and x is not Ellipsis for x in idx):
        js = [zint(_bounds(I, arr, k, i, env, arr.name)) for k, i in enumerate(idx)]
        if arr.ctype is not None:
            v = I.convert(arr.ctype, v, f"store to {arr.name}")
            val = v.term if isinstance(v, CV) else v
            val = zreal(val) if is_float_ctype(arr.ctype) else zint(val)
        else:
            val = zint(I.unC(v))

        def store(t, js):
            if len(js) == 1:
                return z3.Store(t, js[0], val)
            return z3.Store(t, js[0], store(z3.Select(t, js[0]), js[1:]))
        arr.arr = store(arr.arr, js)
        return
    if (len(idx) == 2 and len(arr.shape) == 2 and isinstance(idx[1], SliceObj) and idx[1].step is None
            and not isinstance(idx[0], (SliceObj, SymArr, PList)) and idx[0] is not None and idx[0] is not Ellipsis
            and not isinstance(v, (SymArr, PList)) and not (arr.memview and env is not None and I.is_cy(env))):
        # a[i, lo:hi] = scalar: the slice of row i is filled (NumPy slice semantics: bounds clipped to the row)
        i = zint(_bounds(I, arr, 0, idx[0], env, arr.name))
        n = zint(arr.shape[1])

        def norm(b, default):
            if b is None:
                return default
            b = zint(I.unC(b))
            b = z3.If(b < 0, b + n, b)
            return z3.If(b < 0, 0, z3.If(b > n, n, b))
        lo, hi = norm(idx[1].start, z3.IntVal(0)), norm(idx[1].stop, n)
        if arr.ctype is not None:
            cv = I.convert(arr.ctype, v, f"store to {arr.name}")
            val = cv.term if isinstance(cv, CV) else cv
            val = zreal(val) if is_float_ctype(arr.ctype) else zint(val)
        else:
            val = zint(I.unC(v))
        q = z3.Int("q!fill")
        row = z3.Select(arr.arr, i)
        arr.arr = z3.Store(arr.arr, i, z3.Lambda([q], z3.If(z3.And(q >= lo, q < hi), val, z3.Select(row, q))))
        return
    if len(idx) == 1 and isinstance(idx[0], SliceObj) and len(arr.shape) == 1 \
            and idx[0].start is None and idx[0].stop is None and idx[0].step is None:
        # a[:] = value / list  (whole-array fill)
        if isinstance(v, PList):
            items = v.items
            n = simp(arr.shape[0])
            if isinstance(n, int) and len(items) != n:
                I.throw("ValueError", "could not broadcast input array")
            first = items[0] if items else 0
            if all(x is first for x in items):
                v = first
            else:
                t = arr.arr
                for k, x in enumerate(items):
                    c = I.convert(arr.ctype, x) if arr.ctype else x
                    t = z3.Store(t, k, zint(I.unC(c)))
                arr.arr = t
                return
        c = I.convert(arr.ctype, v, f"store to {arr.name}") if arr.ctype else v
        val = zreal(I.unC(c)) if (arr.ctype and is_float_ctype(arr.ctype)) else zint(I.unC(c))
        arr.arr = z3.K(z3.IntSort(), val)
        return
    if len(idx) == 1 and isinstance(idx[0], SliceObj) and len(arr.shape) == 1 and idx[0].step is None \
            and not isinstance(v, (SymArr, PList)):
        # a[lo:hi] = scalar  (slice bounds are clipped to the array, as for Python slices and
        # Cython memoryview slices; negative bounds count from the end)
        n = zint(arr.shape[0])

        def norm(b, default):
            if b is None:
                return default
            b = zint(I.unC(b))
            b = z3.If(b < 0, b + n, b)
            return z3.If(b < 0, 0, z3.If(b > n, n, b))
        lo, hi = norm(idx[0].start, z3.IntVal(0)), norm(idx[0].stop, n)
        c = I.convert(arr.ctype, v, f"store to {arr.name}") if arr.ctype else v
        val = zreal(I.unC(c)) if (arr.ctype and is_float_ctype(arr.ctype)) else zint(I.unC(c))
        q = z3.Int("q!fill")
        arr.arr = z3.Lambda([q], z3.If(z3.And(q >= lo, q < hi), val, z3.Select(arr.arr, q)))
        return
    raise Unsupported(f"array item store {idx!r}")


def arr_attr(I, arr, name):
    if name == "shape":
        if arr.memview:
            # memoryview.shape[k] is a C Py_ssize_t
            return tuple(CV("Py_ssize_t", s) for s in arr.shape)
        return tuple(arr.shape)
    if name == "ndim":
        return len(arr.shape)
    if name == "size":
        n = 1
        for s in arr.shape:
            n = n * s
        return n
    if name == "dtype":
        return DType(arr.ctype)
    if name == "copy":
        def copy(I_, a, k):
            return SymArr(arr.name + "_copy", arr.ctype, arr.shape, arr=arr.arr)
        return Native("ndarray.copy", copy)
    if name == "astype":
        def astype(I_, a, k):
            dt = a[0]
            if dt is I_.builtins.get("bool") or (isinstance(dt, DType) and dt.name == "bool"):
                # boolean view of an integer mask: element != 0 (used for mask indexing only)
                v = SymArr(arr.name + "_bool", "bool", arr.shape, arr=arr.arr, readonly=True)
                v.bool_of = arr
                return v
            name = dt.name if isinstance(dt, DType) else None
            if name and is_int_ctype(name) and arr.ctype and is_int_ctype(arr.ctype) and len(arr.shape) == 1:
                # integer -> integer: same length, every element converted as in C (wraps when out of range)
                q = z3.Int("q!cast")
                t = z3.Lambda([q], _wrap_to(name, z3.Select(arr.arr, q)))
                I_.ctx.trusted.add("ndarray.astype between integer dtypes: element-wise C conversion (two's complement wrap), a new array")
                return SymArr(arr.name + "_as_" + name, name, arr.shape, arr=t)
            raise Unsupported("ndarray.astype to this dtype")
        return Native("ndarray.astype", astype)
    if name in ("min", "max"):
        def extreme(I_, a, k, which=name):
            if a or k:
                raise Unsupported(f"ndarray.{which} with arguments")
            return _reduce_extreme(I_, arr, which)
        return Native("ndarray." + name, extreme)
    if name in ("any", "all"):
        def quant(I_, a, k, every=(name == "all")):
            if a or k:
                raise Unsupported(f"ndarray.{'all' if every else 'any'} with arguments")
            return _all(I_, [arr], {}, every=every)
        return Native("ndarray." + name, quant)
    if name == "base":
        return None
    if name == "__len__":
        return Native("ndarray.__len__", lambda I_, a, k: arr.shape[0])
    if name == "decode":
        # bytes / bytearray buffers: decode('ascii') -> string of the codes
        def decode(I_, a, k):
            return buffer_to_str(I_, arr)
        return Native("buffer.decode", decode)
    raise Unsupported("array attribute " + name)


def buffer_to_str(I, arr):
    n = simp(arr.shape[0])
    if isinstance(n, int):
        from .strlib import CStr
        codes = []
        for i in range(n):
            c = simp(z3.Select(arr.arr, i))
            if not isinstance(c, int):
                if not I.ctx.branch(c < 128):
                    I.throw("UnicodeDecodeError", "'ascii' codec can't decode byte")
            elif c >= 128:
                I.throw("UnicodeDecodeError", "'ascii' codec can't decode byte")
            codes.append(c)
        if all(isinstance(c, int) for c in codes):
            return "".join(chr(c) for c in codes)
        return CStr(codes)
    raise Unsupported("decode of a buffer with symbolic length")


def str_to_buffer(I, s):
    """str.encode('ascii') -> unsigned char buffer"""
    if isinstance(s, str):
        arr = SymArr("bytes", "unsigned char", [len(s)], readonly=True)
        t = z3.K(z3.IntSort(), z3.IntVal(0))
        for i, ch in enumerate(s):
            t = z3.Store(t, i, ord(ch))
        arr.arr = t
        return arr
    n = z3.Length(s)
    arr = SymArr("bytes", "unsigned char", [n], readonly=True)
    i = z3.Int("i!enc")
    f = arr.arr
    I.ctx.assume(z3.ForAll([i], z3.Implies(z3.And(i >= 0, i < n),
                                           z3.Select(f, i) == z3.StrToCode(z3.SubString(s, i, 1)))))
    return arr


def arr_binop(I, o, a, b):
    """1-d integer array + / - integer scalar: element-wise in the dtype of the array (C wrap); a new array"""
    if o in ("+", "-") and isinstance(a, SymArr) and len(a.shape) == 1 and a.ctype and is_int_ctype(a.ctype) and not isinstance(b, SymArr):
        sc = I.unC(b)
        if not isinstance(sc, bool) and (isinstance(sc, int) or (isinstance(sc, z3.ArithRef) and sc.is_int())):
            sc = zint(sc)
            lo, hi = int_range(a.ctype)
            if I.ctx.branch(z3.Or(sc < lo, sc > hi)):
                raise Unsupported("array operator with a scalar outside the array's dtype (NumPy promotes or raises)")
            q = z3.Int("q!op")
            x = z3.Select(a.arr, q)
            I.ctx.trusted.add("integer array +/- Python integer: element-wise in the array's dtype (two's complement wrap), a new array")
            val = x + sc if o == "+" else x - sc
            eb = getattr(a, "elem_bounds", None)
            nb = None
            if eb is not None:
                nb = (eb[0] + sc, eb[1] + sc) if o == "+" else (eb[0] - sc, eb[1] - sc)
                if I.ctx.feasible(z3.Or(zint(nb[0]) < lo, zint(nb[1]) > hi)):
                    nb = None
            r = SymArr(a.name + "_op", a.ctype, a.shape, arr=z3.Lambda([q], val if nb is not None else _wrap_to(a.ctype, val)))
            if nb is not None:       # the elements are known to stay inside the dtype: no wrap
                r.elem_bounds = nb
            return r
    if o in ("|", "&") and isinstance(a, SymArr) and isinstance(b, SymArr) and getattr(a, "pred", None) and getattr(b, "pred", None):
        # boolean arrays: element-wise or / and
        n = zint(a.shape[0])
        if I.ctx.branch(n != zint(b.shape[0])):
            I.throw("ValueError", "operands could not be broadcast together")
        pa, pb = a.pred, b.pred
        return _pred_array(a.name + "_" + ("or" if o == "|" else "and"), a.shape[0],
                           (lambda q: z3.Or(pa(q), pb(q))) if o == "|" else (lambda q: z3.And(pa(q), pb(q))))
    raise Unsupported("array operator " + o)


def arr_compare(I, o, a, b):
    """element-wise comparison of a 1-d integer array with an integer scalar: a boolean array whose
    element q is the (exact, mathematical) comparison of element q -- NumPy >= 2 compares integer arrays
    with Python integers exactly, also when the scalar lies outside the array's dtype"""
    flip = {"<": ">", "<=": ">=", ">": "<", ">=": "<=", "==": "==", "!=": "!="}
    if isinstance(a, SymArr) and isinstance(b, SymArr):
        return _arr_compare_arrays(I, o, a, b)
    if not isinstance(a, SymArr):
        a, b, o = b, a, flip[o]
    if isinstance(b, SymArr) or len(a.shape) != 1 or (a.ctype and is_float_ctype(a.ctype)) or o not in flip:
        raise Unsupported("array comparison " + o)
    sc = I.unC(b)
    if isinstance(sc, bool) or not isinstance(sc, (int, z3.ArithRef)) or (isinstance(sc, z3.ArithRef) and not sc.is_int()):
        raise Unsupported("array comparison with a non-integer scalar")
    sc = zint(sc)
    base = a.arr

    def pred(q):
        x = z3.Select(base, q)
        return {"<": x < sc, "<=": x <= sc, ">": x > sc, ">=": x >= sc, "==": x == sc, "!=": x != sc}[o]
    q = z3.Int("q!cmp")
    r = SymArr(a.name + "_cmp", "bool", a.shape, arr=z3.Lambda([q], z3.If(pred(q), 1, 0)), readonly=True)
    r.pred = pred
    I.ctx.trusted.add("NumPy compares an integer array with a Python integer exactly (element-wise, mathematical order)")
    return r


def _pred_array(name, n, pred):
    q = z3.Int("q!cmp")
    r = SymArr(name, "bool", [n], arr=z3.Lambda([q], z3.If(pred(q), 1, 0)), readonly=True)
    r.pred = pred
    return r


def _arr_compare_arrays(I, o, a, b):
    """element-wise comparison of two 1-d arrays of the same length and kind (integers; or strings, which the model
    holds as integer codes and compares for (in)equality only): a boolean array that carries its predicate"""
    if len(a.shape) != 1 or len(b.shape) != 1 or any(x.ctype and is_float_ctype(x.ctype) for x in (a, b)):
        raise Unsupported("array comparison of these operands")
    if (a.ctype is None or b.ctype is None) and (o not in ("==", "!=") or a.ctype != b.ctype):
        raise Unsupported("ordering comparison of string arrays")
    n = zint(a.shape[0])
    if I.ctx.branch(n != zint(b.shape[0])):
        I.throw("ValueError", "operands could not be broadcast together")
    A, B = a.arr, b.arr

    def pred(q):
        x, y = z3.Select(A, q), z3.Select(B, q)
        return {"<": x < y, "<=": x <= y, ">": x > y, ">=": x >= y, "==": x == y, "!=": x != y}[o]
    I.ctx.trusted.add("NumPy compares two 1-d arrays of equal length element-wise (integers exactly; strings for equality)")
    return _pred_array(a.name + "_cmp", a.shape[0], pred)


def _reduce_extreme(I, arr, which):
    """ndarray.min() / max(): an element of the array that bounds all others"""
    if not isinstance(arr, SymArr) or len(arr.shape) != 1:
        raise Unsupported(f"np.{which} of this operand")
    n = zint(arr.shape[0])
    if I.ctx.branch(n <= 0):
        I.throw("ValueError", f"zero-size array to reduction operation {which}imum which has no identity")
    nc = simp(n)
    if isinstance(nc, int) and nc <= 4096:
        vals = [simp(z3.Select(arr.arr, q)) for q in range(nc)]
        if all(isinstance(x, int) for x in vals):
            v = max(vals) if which == "max" else min(vals)
            return CV(arr.ctype, v) if arr.ctype else v
    r = I.ctx.fresh_int("np" + which)
    w = I.ctx.fresh_int("np" + which + "_at")
    q = z3.Int("q!" + which)
    sel = z3.Select(arr.arr, q)
    I.ctx.assume(z3.ForAll([q], z3.Implies(z3.And(q >= 0, q < n), sel <= r if which == "max" else sel >= r)))
    I.ctx.assume(z3.And(w >= 0, w < n, z3.Select(arr.arr, w) == r))
    I.ctx.trusted.add(f"np.{which}: an element of the array that no element " + ("exceeds" if which == "max" else "is below"))
    return CV(arr.ctype, r) if arr.ctype else r


def _all(I_, a, k, every=True):
    x = a[0]
    if isinstance(x, bool) or z3.is_bool(x):
        return x
    if not (isinstance(x, SymArr) and getattr(x, "pred", None) is not None) or k or len(a) > 1:
        raise Unsupported("np.all / np.any of this operand")
    n = zint(x.shape[0])
    nc = simp(n)
    if isinstance(nc, int) and nc <= 4096:
        vals = [simp(x.pred(z3.IntVal(i))) for i in range(nc)]
        if all(isinstance(v, bool) for v in vals):
            return all(vals) if every else any(vals)
    q = z3.Int("q!all")
    if every:
        return z3.ForAll([q], z3.Implies(z3.And(q >= 0, q < n), x.pred(q)))
    return z3.Exists([q], z3.And(q >= 0, q < n, x.pred(q)))


def _wrap_to(ctype, x):
    """C conversion of an integer to an integer type of another width (two's complement wrap)"""
    lo, hi = int_range(ctype)
    span = hi - lo + 1
    return (x - lo) % span + lo


def make_module(I):
    ns = {"ndarray": Class("ndarray", (), {}, None, "builtin"),
          "integer": Class("integer", (), {}, None, "builtin"),
          "floating": Class("floating", (), {}, None, "builtin")}
    for d in DTYPES:
        ns[d] = DType(d.rstrip("_"))
    ns["int"] = DType("int64")
    ns["ubyte"] = DType("uint8")
    ns["byte"] = DType("int8")
    ns["intc"] = DType("int32")
    ns["uintc"] = DType("uint32")
    ns["intp"] = DType("int64")
    ns["double"] = DType("float64")
    ns["single"] = DType("float32")

    def _asarray(I_, a, k):
        v = a[0]
        if isinstance(v, SymArr):
            return SymArr(v.name, v.ctype, v.shape, store=v.store, readonly=v.readonly, memview=False)
        return _array(I_, a, k)

    def _array(I_, a, k):
        src = a[0]
        items = I_.iter_concrete(src)
        dt = k.get("dtype")
        ct = dt.name if isinstance(dt, DType) else None
        if dt is not None and dt is I_.builtins.get("int"):
            ct = "int64"
        elif dt is None and not items:
            ct = "float64"          # np.array([]) without a dtype is an array of floats
        if items and all(isinstance(x, (tuple, PList)) for x in items):
            rows = [list(x.items) if isinstance(x, PList) else list(x) for x in items]
            w = len(rows[0])
            if any(len(r) != w for r in rows):
                raise Unsupported("np.array of ragged rows")
            arr = SymArr("array", ct, [len(rows), w])
            t = z3.K(z3.IntSort(), z3.K(z3.IntSort(), z3.IntVal(0)))
            for i, r in enumerate(rows):
                rt = z3.K(z3.IntSort(), z3.IntVal(0))
                for j, x in enumerate(r):
                    c = I_.convert(ct, x, "np.array element") if ct else x
                    rt = z3.Store(rt, j, zint(I_.unC(c)))
                t = z3.Store(t, i, rt)
            arr.arr = t
            return arr
        arr = SymArr("array", ct, [len(items)])
        t = z3.K(z3.IntSort(), z3.IntVal(0))
        for i, x in enumerate(items):
            t = z3.Store(t, i, zint(I_.unC(x)))
        arr.arr = t
        return arr
    def _iinfo(I_, a, k):
        dt = a[0]
        name = dt.name if isinstance(dt, DType) else None
        if name is None or not is_int_ctype(name):
            raise Unsupported("np.iinfo of a non-integer dtype")
        lo, hi = int_range(name)
        o = Opaque("iinfo")
        o.attrs = {"min": lo, "max": hi}
        return o
    ns["iinfo"] = Native("np.iinfo", _iinfo)

    def _dtype(I_, a, k):
        if len(a) == 1 and isinstance(a[0], DType) and not k:
            return a[0]
        raise Unsupported("np.dtype of this operand")
    ns["dtype"] = Native("np.dtype", _dtype)

    def _issubdtype(I_, a, k):
        dt, kind = a[0], a[1]
        if not isinstance(dt, DType) or not isinstance(kind, Class) or kind.name not in ("integer", "floating", "signedinteger", "unsignedinteger"):
            raise Unsupported("np.issubdtype of these operands")
        if kind.name == "integer":
            return is_int_ctype(dt.name)
        if kind.name == "floating":
            return is_float_ctype(dt.name)
        if kind.name == "unsignedinteger":
            return is_int_ctype(dt.name) and dt.name.startswith("u")
        return is_int_ctype(dt.name) and not dt.name.startswith("u")
    ns["issubdtype"] = Native("np.issubdtype", _issubdtype)
    ns["signedinteger"] = Class("signedinteger", (), {}, None, "builtin")
    ns["unsignedinteger"] = Class("unsignedinteger", (), {}, None, "builtin")
    ns["array"] = Native("np.array", _array)
    ns["asarray"] = Native("np.asarray", _asarray)

    def _zeros(I_, a, k):
        shape = a[0]
        shape = list(shape) if isinstance(shape, tuple) else [shape]
        shape = [I_.unC(s) for s in shape]
        dt = k.get("dtype", a[1] if len(a) > 1 else None)
        ct = dt.name if isinstance(dt, DType) else "float64"
        if dt is I_.builtins.get("int"):
            ct = "int64"
        if dt is I_.builtins.get("bool"):
            ct = "uint8"
        arr = SymArr("zeros", ct, shape)
        zero = z3.RealVal(0) if is_float_ctype(ct) else z3.IntVal(0)
        t = zero
        for _ in shape:
            t = z3.K(z3.IntSort(), t)
        arr.arr = t
        return arr
    ns["zeros"] = Native("np.zeros", _zeros)

    def _empty(I_, a, k):
        z = _zeros(I_, a, k)
        z.arr = z.fresh_term()
        return z
    ns["empty"] = Native("np.empty", _empty)

    def _full(I_, a, k):
        z = _zeros(I_, [a[0]], k)
        fill = zint(I_.unC(a[1])) if not is_float_ctype(z.ctype) else zreal(I_.unC(a[1]))
        t = fill
        for _ in z.shape:
            t = z3.K(z3.IntSort(), t)
        z.arr = t
        return z
    ns["full"] = Native("np.full", _full)

    def _ones(I_, a, k):
        z = _zeros(I_, a, k)
        one = z3.RealVal(1) if is_float_ctype(z.ctype) else z3.IntVal(1)
        t = one
        for _ in z.shape:
            t = z3.K(z3.IntSort(), t)
        z.arr = t
        return z
    ns["ones"] = Native("np.ones", _ones)

    def _max(I_, a, k):
        arr = a[0]
        if not isinstance(arr, SymArr) or len(arr.shape) != 1 or k.get("axis") is not None:
            raise Unsupported("np.max of this operand")
        n = zint(arr.shape[0])
        if I_.ctx.branch(n <= 0):
            I_.throw("ValueError", "zero-size array to reduction operation maximum which has no identity")
        nc = simp(n)
        if isinstance(nc, int) and nc <= 4096:
            vals = [simp(z3.Select(arr.arr, q)) for q in range(nc)]
            if all(isinstance(x, int) for x in vals):
                return CV(arr.ctype, max(vals)) if arr.ctype else max(vals)
        r = I_.ctx.fresh_int("npmax")
        w = I_.ctx.fresh_int("npmax_at")
        q = z3.Int("q!max")
        I_.ctx.assume(z3.ForAll([q], z3.Implies(z3.And(q >= 0, q < n), z3.Select(arr.arr, q) <= r)))
        I_.ctx.assume(z3.And(w >= 0, w < n, z3.Select(arr.arr, w) == r))
        I_.ctx.trusted.add("np.max: an element of the array that no element exceeds")
        return CV(arr.ctype, r) if arr.ctype else r
    ns["max"] = Native("np.max", _max)
    ns["amax"] = ns["max"]

    def _min(I_, a, k):
        if k.get("axis") is not None:
            raise Unsupported("np.min with axis")
        return _reduce_extreme(I_, a[0], "min")
    ns["min"] = Native("np.min", _min)
    ns["amin"] = ns["min"]

    def _abs(I_, a, k):
        x = a[0]
        if not (isinstance(x, SymArr) and len(x.shape) == 1 and x.ctype and is_int_ctype(x.ctype)) or k or len(a) > 1:
            raise Unsupported("np.abs of this operand")
        # element-wise, in the dtype of the array: |minimum of a signed type| wraps back to the minimum
        q = z3.Int("q!abs")
        v = z3.Select(x.arr, q)
        I_.ctx.trusted.add("np.abs of an integer array: element-wise absolute value in the array's dtype (the minimum of a signed type wraps to itself)")
        return SymArr(x.name + "_abs", x.ctype, x.shape, arr=z3.Lambda([q], _wrap_to(x.ctype, z3.If(v < 0, -v, v))))
    ns["abs"] = Native("np.abs", _abs)
    ns["absolute"] = ns["abs"]
    ns["all"] = Native("np.all", _all)
    ns["any"] = Native("np.any", lambda I_, a, k: _all(I_, a, k, every=False))

    def _append(I_, a, k):
        x, y = a[0], a[1]
        axis = k.get("axis", a[2] if len(a) > 2 else None)
        if not (isinstance(x, SymArr) and isinstance(y, SymArr) and axis == 0 and len(x.shape) == len(y.shape)):
            raise Unsupported("np.append of these operands")
        m = simp(zint(y.shape[0]))
        if not isinstance(m, int):
            raise Unsupported("np.append with a symbolic number of appended rows")
        n = zint(x.shape[0])
        t = x.arr
        for r in range(m):
            t = z3.Store(t, n + r, z3.Select(y.arr, r))
        return SymArr(x.name + "_app", x.ctype, [simp(n + m)] + list(x.shape[1:]), arr=t)
    ns["append"] = Native("np.append", _append)

    def _delete(I_, a, k):
        x, i = a[0], zint(I_.unC(a[1]))
        axis = k.get("axis", a[2] if len(a) > 2 else None)
        if not (isinstance(x, SymArr) and axis == 0):
            raise Unsupported("np.delete of these operands")
        n = zint(x.shape[0])
        if I_.ctx.branch(z3.Or(i < -n, i >= n)):
            I_.throw("IndexError", "index out of bounds for np.delete")
        i = z3.If(i < 0, i + n, i)
        q = z3.Int("q!del")
        t = z3.Lambda([q], z3.If(q < i, z3.Select(x.arr, q), z3.Select(x.arr, q + 1)))
        return SymArr(x.name + "_del", x.ctype, [simp(n - 1)] + list(x.shape[1:]), arr=t)
    ns["delete"] = Native("np.delete", _delete)

    def _where(I_, a, k):
        x = a[0]
        if len(a) != 1 or k or not (isinstance(x, SymArr) and getattr(x, "pred", None) is not None and len(x.shape) == 1):
            raise Unsupported("np.where of these operands")
        # np.where(condition) -> (indices,): the positions where the condition holds, ascending
        n = zint(x.shape[0])
        m = I_.ctx.fresh_int("nwhere")
        w = SymArr(I_.ctx.fresh_name("where"), "int64", [m], readonly=True)
        q = z3.Int("q!where")
        at = z3.Select(w.arr, q)
        w.elem_bounds = (z3.IntVal(0), n - 1)
        I_.ctx.assume(z3.And(m >= 0, m <= n))
        I_.ctx.assume((m > 0) == z3.Exists([q], z3.And(q >= 0, q < n, x.pred(q))))
        I_.ctx.assume(z3.ForAll([q], z3.Implies(z3.And(q >= 0, q < m), z3.And(at >= 0, at < n, x.pred(at)))))
        I_.ctx.assume(z3.ForAll([q], z3.Implies(z3.And(q >= 0, q < m - 1), at < z3.Select(w.arr, q + 1))))
        I_.ctx.assume(z3.Implies(m > 0, z3.ForAll([q], z3.Implies(z3.And(q >= 0, q < z3.Select(w.arr, 0)), z3.Not(x.pred(q))))))
        # ascending, pairwise; no position at which the condition holds lies between two listed neighbours or
        # after the last one (redundant with the rank function below, but in the form proofs need)
        q2 = z3.Int("q2!where")
        I_.ctx.assume(z3.ForAll([q, q2], z3.Implies(z3.And(q >= 0, q < q2, q2 < m), at < z3.Select(w.arr, q2))))
        I_.ctx.assume(z3.ForAll([q, q2], z3.Implies(z3.And(q >= 0, q < m - 1, at < q2, q2 < z3.Select(w.arr, q + 1)), z3.Not(x.pred(q2)))))
        I_.ctx.assume(z3.Implies(m > 0, z3.ForAll([q2], z3.Implies(z3.And(z3.Select(w.arr, m - 1) < q2, q2 < n), z3.Not(x.pred(q2))))))
        # every position at which the condition holds is listed (its rank among them is a ghost function)
        rank = z3.Function(I_.ctx.fresh_name("where_rank"), z3.IntSort(), z3.IntSort())
        I_.ctx.assume(z3.ForAll([q], z3.Implies(z3.And(q >= 0, q < n, x.pred(q)),
                                               z3.And(rank(q) >= 0, rank(q) < m, z3.Select(w.arr, rank(q)) == q))))
        I_.ctx.trusted.add("np.where(condition): a 1-tuple with the ascending positions at which the condition holds (all of them; none iff it holds nowhere; the first is the least)")
        return (w,)
    ns["where"] = Native("np.where", _where)
    ns["nonzero"] = ns["where"]

    def _searchsorted(I_, a, k):
        arr, v = a[0], a[1]
        side = k.get("side", a[2] if len(a) > 2 else "left")
        if not (isinstance(arr, SymArr) and isinstance(v, SymArr) and len(arr.shape) == 1 and len(v.shape) == 1 and side in ("left", "right")
                and arr.ctype and v.ctype and is_int_ctype(arr.ctype) and is_int_ctype(v.ctype)) or k.get("sorter") is not None:
            raise Unsupported("np.searchsorted of these operands")
        n, m = zint(arr.shape[0]), zint(v.shape[0])
        q, j = z3.Int("q!ss"), z3.Int("j!ss")
        # the result is only specified for an ascending array: a precondition of the library function, checked here
        node = getattr(I_, "cur_node", None)
        is_sorted = z3.ForAll([j], z3.Implies(z3.And(j >= 0, j < n - 1), z3.Select(arr.arr, j) <= z3.Select(arr.arr, j + 1)))
        I_.ctx.oblige(I_.obname(f"searchsorted_operand_is_sorted[{arr.name}]", node), is_sorted, "library-precondition",
                      {"why": "np.searchsorted on an array that is not ascending returns an unspecified position"})
        I_.ctx.assume(is_sorted)
        r = SymArr(I_.ctx.fresh_name("insertion"), "int64", [v.shape[0]])
        at, x = z3.Select(r.arr, q), z3.Select(v.arr, q)
        e = z3.Select(arr.arr, j)
        below, above = (e <= x, e > x) if side == "right" else (e < x, e >= x)
        I_.ctx.assume(z3.ForAll([q], z3.Implies(z3.And(q >= 0, q < m), z3.And(at >= 0, at <= n))))
        I_.ctx.assume(z3.ForAll([q, j], z3.Implies(z3.And(q >= 0, q < m, j >= 0, j < n), z3.If(j < at, below, above))))
        I_.ctx.trusted.add("np.searchsorted(a, v, side): for ascending a, position p[q] in [0, len(a)] with a[j] <= v[q] (side='right'; < for 'left') exactly for j < p[q]")
        return r
    ns["searchsorted"] = Native("np.searchsorted", _searchsorted)

    def _diff(I_, a, k):
        x = a[0]
        if len(a) != 1 or k or not (isinstance(x, SymArr) and len(x.shape) == 1 and x.ctype and is_int_ctype(x.ctype)):
            raise Unsupported("np.diff of these operands")
        n = zint(x.shape[0])
        q = z3.Int("q!diff")
        I_.ctx.trusted.add("np.diff of a 1-d integer array: a[q + 1] - a[q] in the array's dtype (wraps), one element fewer")
        d = z3.Select(x.arr, q + 1) - z3.Select(x.arr, q)
        eb = getattr(x, "elem_bounds", None)
        lo, hi = int_range(x.ctype)
        fits = eb is not None and not I_.ctx.feasible(z3.Or(zint(eb[0]) - zint(eb[1]) < lo, zint(eb[1]) - zint(eb[0]) > hi))
        return SymArr(x.name + "_diff", x.ctype, [simp(z3.If(n > 0, n - 1, 0))], arr=z3.Lambda([q], d if fits else _wrap_to(x.ctype, d)))
    ns["diff"] = Native("np.diff", _diff)

    def _concatenate(I_, a, k):
        parts = a[0].items if isinstance(a[0], PList) else a[0]
        if len(a) != 1 or k or not isinstance(parts, (tuple, list)):
            raise Unsupported("np.concatenate of these operands")
        # 1-d integer pieces: Python lists of integers and integer arrays, one after the other
        pieces, total = [], z3.IntVal(0)
        for part in parts:
            if isinstance(part, PList):
                vals = [I_.unC(v) for v in part.items]
                if any(isinstance(v, bool) or not isinstance(v, (int, z3.ArithRef)) for v in vals):
                    raise Unsupported("np.concatenate of a list of non-integers")
                pieces.append(("list", [zint(v) for v in vals], len(vals)))
                total = total + len(vals)
            elif isinstance(part, SymArr) and len(part.shape) == 1 and part.ctype and is_int_ctype(part.ctype):
                pieces.append(("arr", part, zint(part.shape[0])))
                total = total + zint(part.shape[0])
            else:
                raise Unsupported("np.concatenate of this piece")
        q = z3.Int("q!cat")
        body, off = z3.IntVal(0), z3.IntVal(0)
        clauses = []
        for kind, val, ln in pieces:
            if kind == "list":
                for j, v in enumerate(val):
                    clauses.append((q == off + j, v))
                off = off + ln
            else:
                clauses.append((z3.And(q >= off, q < off + ln), z3.Select(val.arr, q - off)))
                off = off + ln
        for cond, v in reversed(clauses):
            body = z3.If(cond, v, body)
        I_.ctx.trusted.add("np.concatenate of 1-d integer lists / arrays: the pieces one after the other (int64 result)")
        return SymArr(I_.ctx.fresh_name("concat"), "int64", [simp(total)], arr=z3.Lambda([q], body))
    ns["concatenate"] = Native("np.concatenate", _concatenate)

    def _logical(o):
        def two(I_, a, k):
            if len(a) != 2 or k:
                raise Unsupported("np.logical_* with these arguments")
            return arr_binop(I_, o, a[0], a[1])

        def reduce(I_, a, k):
            parts = a[0].items if isinstance(a[0], PList) else a[0]
            if len(a) != 1 or k or not isinstance(parts, (tuple, list)) or not parts:
                raise Unsupported("np.logical_*.reduce of these operands")
            r = parts[0]
            for x in parts[1:]:
                r = arr_binop(I_, o, r, x)
            return r
        f = Native("np.logical_" + ("or" if o == "|" else "and"), two)
        f.attrs = {"reduce": Native("np.logical_" + ("or" if o == "|" else "and") + ".reduce", reduce)}
        return f
    ns["logical_or"] = _logical("|")
    ns["logical_and"] = _logical("&")
    return Module("numpy", ns)
