"""pyvc.nplib -- contracts for the NumPy operations used by the verified
functions (trusted library contracts)."""
import z3
from .core import Unsupported
from .heap import Module, Native, Class, SymArr


def make_module(I):
    ns = {"ndarray": Class("ndarray", (), {}, None, "builtin"),
          "integer": Class("integer", (), {}, None, "builtin"),
          "floating": Class("floating", (), {}, None, "builtin")}
    return Module("numpy", ns)


def arr_binop(I, o, a, b):
    raise Unsupported("array operator " + o)


def arr_compare(I, o, a, b):
    raise Unsupported("array comparison " + o)


def arr_attr(I, arr, name):
    if name == "shape":
        return tuple(arr.shape)
    if name == "ndim":
        return len(arr.shape)
    raise Unsupported("array attribute " + name)


def arr_getitem(I, arr, idx, env):
    raise Unsupported("array subscript")


def arr_setitem(I, arr, idx, v, env):
    raise Unsupported("array item store")
