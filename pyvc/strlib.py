"""pyvc.strlib -- contracts for str methods, formatting and int()/str()
conversions over SMT strings (trusted library contracts, differentially
tested against CPython in thorough mode)."""
import z3
from .core import Unsupported, zint, zstr, zbool, simp, is_z3, CV
from .heap import Native, PList

WS = " \t\n\r\x0b\x0c"


class CStr:
    """string of concrete length whose character codes may be symbolic
    (result of decoding a fixed-size buffer); keeps per-character structure so
    that strip / encode / int() stay exact"""
    def __init__(self, codes):
        self.codes = list(codes)

    def to_z3(self):
        parts = [z3.StringVal(chr(c)) if isinstance(c, int) else z3.StrFromCode(c) for c in self.codes]
        if not parts:
            return z3.StringVal("")
        return z3.Concat(*parts) if len(parts) > 1 else parts[0]

    def __repr__(self):
        return f"CStr({self.codes})"


def cstr_of(s):
    if isinstance(s, CStr):
        return s
    if isinstance(s, str):
        return CStr([ord(c) for c in s])
    return None


def code_in(I, c, chars):
    if isinstance(c, int):
        return chr(c) in chars
    return simp(z3.Or([c == ord(ch) for ch in chars]))


def cstr_method(I, s, name):
    def N(fn):
        return Native("str." + name, fn)
    if name in ("strip", "lstrip", "rstrip"):
        def f(I_, a, k):
            chars = a[0] if a and a[0] is not None else WS
            if not isinstance(chars, str):
                raise Unsupported("strip with symbolic character set")
            codes = list(s.codes)
            if name in ("strip", "lstrip"):
                while codes and I_.ctx.branch(code_in(I_, codes[0], chars)):
                    codes.pop(0)
            if name in ("strip", "rstrip"):
                while codes and I_.ctx.branch(code_in(I_, codes[-1], chars)):
                    codes.pop()
            return CStr(codes)
        return N(f)
    if name == "encode":
        def f(I_, a, k):
            from .heap import SymArr
            arr = SymArr("bytes", "unsigned char", [len(s.codes)], readonly=True)
            t = z3.K(z3.IntSort(), z3.IntVal(0))
            for i, c in enumerate(s.codes):
                if not isinstance(c, int):
                    if not I_.ctx.branch(c < 128):
                        I_.throw("UnicodeEncodeError", "ordinal not in range(128)")
                t = z3.Store(t, i, c)
            arr.arr = t
            return arr
        return N(f)
    if name == "__len__":
        return N(lambda I_, a, k: len(s.codes))
    if name in ("startswith", "endswith") :
        def f(I_, a, k):
            pre = a[0]
            if not isinstance(pre, str):
                raise Unsupported("startswith with symbolic prefix")
            if len(pre) > len(s.codes):
                return False
            seg = s.codes[:len(pre)] if name == "startswith" else s.codes[len(s.codes) - len(pre):]
            from .natives import conj
            return conj([(c == ord(p)) if not isinstance(c, int) else c == ord(p) for c, p in zip(seg, pre)])
        return N(f)
    # anything else: fall back to the SMT string
    return None


def cstr_int(I, s):
    """int(s) for a CStr: optional surrounding whitespace, optional sign, digits"""
    codes = list(s.codes)
    while codes and I.ctx.branch(code_in(I, codes[0], WS)):
        codes.pop(0)
    while codes and I.ctx.branch(code_in(I, codes[-1], WS)):
        codes.pop()
    neg = False
    if codes and I.ctx.branch(code_in(I, codes[0], "+-")):
        neg = codes[0] == ord("-") if isinstance(codes[0], int) else I.ctx.branch(codes[0] == ord("-"))
        codes.pop(0)
    if not codes:
        I.throw("ValueError", "invalid literal for int()")
    val = 0
    for c in codes:
        isd = (48 <= c <= 57) if isinstance(c, int) else simp(z3.And(c >= 48, c <= 57))
        if not I.ctx.branch(isd):
            I.throw("ValueError", "invalid literal for int()")
        val = val * 10 + (c - 48)
    I.ctx.trusted.add("int(str) on fixed-length strings: [ws][+-]ASCII digits[ws]; '_' separators and non-ASCII digits are rejected by the model (CPython accepts them)")
    return simp(-val) if neg else simp(val) if not isinstance(val, int) else (-val if neg else val)


def _conc(v):
    return isinstance(v, (str, int, bool)) or v is None


def re_ws():
    return z3.Union(*[z3.Re(z3.StringVal(c)) for c in WS])


def re_digit():
    return z3.Range("0", "9")


def str_method(I, s, name):
    from .interp import OpaqueStr, ConcIter

    def N(fn):
        return Native("str." + name, fn)

    if isinstance(s, CStr):
        m = cstr_method(I, s, name)
        if m is not None:
            return m
        s = s.to_z3()
    if isinstance(s, Rope):
        m = rope_method(I, s, name)
        if m is not None:
            return m
        raise Unsupported(f"str.{name} on a rope")

    if isinstance(s, str):
        def conc_call(I_, a, k):
            if any(isinstance(x, Rope) for x in a) or (name == "join" and a and any(isinstance(x, Rope) for x in I_.iter_concrete(a[0]))):
                m = rope_method(I_, Rope([Lit(s)]), name)
                if m is None:
                    raise Unsupported(f"str.{name} with rope arguments")
                return m.fn(I_, a, k)
            a = [I_.unC(x) for x in a]
            if name == "join":
                items = I_.iter_concrete(a[0])
                if any(isinstance(x, OpaqueStr) for x in items):
                    return OpaqueStr()
                if all(isinstance(x, str) for x in items):
                    return s.join(items)
                if not items:
                    return ""
                parts = []
                for i, x in enumerate(items):
                    if i:
                        parts.append(s)
                    parts.append(x)
                parts = [p for p in parts if not (isinstance(p, str) and p == "")]
                return z3.Concat(*[zstr(p) for p in parts]) if len(parts) > 1 else zstr(parts[0])
            if name == "format":
                if all(_conc(x) for x in a) and all(_conc(x) for x in k.values()):
                    return s.format(*a, **k)
                return sym_format(I_, s, a, k)
            if all(isinstance(x, (str, int, bool, tuple)) or x is None for x in a):
                r = getattr(s, name)(*a, **{kk: I_.unC(v) for kk, v in k.items()})
                if isinstance(r, list):
                    return PList(r)
                return r
            # concrete receiver, symbolic argument
            return sym_method(I_, z3.StringVal(s), name, a, k)
        if not hasattr(s, name):
            raise Unsupported(f"str.{name}")
        return N(conc_call)
    return N(lambda I_, a, k: sym_method(I_, s, name, [I_.unC(x) for x in a], k))


def sym_method(I, s, name, a, k):
    cx = I.ctx
    s = zstr(s)
    if name == "startswith":
        if isinstance(a[0], tuple):
            return simp(z3.Or([z3.PrefixOf(zstr(x), s) for x in a[0]]))
        return simp(z3.PrefixOf(zstr(a[0]), s))
    if name == "endswith":
        if isinstance(a[0], tuple):
            return simp(z3.Or([z3.SuffixOf(zstr(x), s) for x in a[0]]))
        return simp(z3.SuffixOf(zstr(a[0]), s))
    if name in ("strip", "lstrip", "rstrip"):
        chars = a[0] if a and a[0] is not None else WS
        if not isinstance(chars, str):
            raise Unsupported("strip with symbolic character set")
        cset = z3.Union(*[z3.Re(z3.StringVal(c)) for c in chars]) if len(chars) > 1 else z3.Re(z3.StringVal(chars))
        pre = cx.fresh_str("lead") if name in ("strip", "lstrip") else z3.StringVal("")
        post = cx.fresh_str("trail") if name in ("strip", "rstrip") else z3.StringVal("")
        mid = cx.fresh_str("core")
        cx.assume(s == z3.Concat(pre, mid, post))
        if name in ("strip", "lstrip"):
            cx.assume(z3.InRe(pre, z3.Star(cset)))
            cx.assume(z3.Or(z3.Length(mid) == 0, z3.Not(z3.InRe(z3.SubString(mid, 0, 1), cset))))
        if name in ("strip", "rstrip"):
            cx.assume(z3.InRe(post, z3.Star(cset)))
            cx.assume(z3.Or(z3.Length(mid) == 0,
                            z3.Not(z3.InRe(z3.SubString(mid, z3.Length(mid) - 1, 1), cset))))
        cx.trusted.add("str.strip/lstrip/rstrip: s == lead ++ core ++ trail, lead/trail in chars*, core does not start/end with a char")
        return mid
    if name == "find":
        return z3.IndexOf(s, zstr(a[0]), zint(a[1]) if len(a) > 1 else 0)
    if name == "index":
        r = z3.IndexOf(s, zstr(a[0]), 0)
        if cx.branch(r < 0):
            I.throw("ValueError", "substring not found")
        return r
    if name == "replace":
        if len(a) > 2:
            raise Unsupported("str.replace with count")
        return replace_all(I, s, a[0], a[1])
    if name in ("ljust", "rjust"):
        w = a[0]
        fill = a[1] if len(a) > 1 else " "
        n = z3.Length(s)
        padlen = z3.If(zint(w) > n, zint(w) - n, 0)
        pad = cx.fresh_str("pad")
        cx.assume(z3.Length(pad) == padlen)
        cx.assume(z3.InRe(pad, z3.Star(z3.Re(z3.StringVal(fill)))))
        return z3.Concat(s, pad) if name == "ljust" else z3.Concat(pad, s)
    if name == "isdigit":
        return simp(z3.InRe(s, z3.Plus(re_digit())))
    if name == "isspace":
        return simp(z3.InRe(s, z3.Plus(re_ws())))
    if name == "upper" or name == "lower":
        raise Unsupported("case conversion of a symbolic string")
    if name == "partition":
        sep = zstr(a[0])
        i = z3.IndexOf(s, sep, 0)
        if cx.branch(i < 0):
            return (s, "", "")
        return (z3.SubString(s, 0, i), a[0], z3.SubString(s, i + z3.Length(sep), z3.Length(s)))
    if name == "encode":
        return s
    if name == "__len__":
        return z3.Length(s)
    if name == "count":
        raise Unsupported("str.count on a symbolic string")
    if name == "split":
        raise Unsupported("str.split on a symbolic string")
    if name == "join":
        items = I.iter_concrete(a[0])
        parts = []
        for i, x in enumerate(items):
            if i:
                parts.append(s)
            parts.append(zstr(x))
        if not parts:
            return ""
        return z3.Concat(*parts) if len(parts) > 1 else parts[0]
    raise Unsupported(f"str.{name} on a symbolic string")


def replace_all(I, s, old, new):
    """s.replace(old, new) for a single-character `old`"""
    if isinstance(old, str) and len(old) == 1:
        return z3.ReplaceAll(zstr(s), zstr(old), zstr(new)) if hasattr(z3, "ReplaceAll") else _unsup("replace_all")
    raise Unsupported("str.replace of a multi-character pattern on a symbolic string")


def _unsup(m):
    raise Unsupported(m)


def str_getitem(I, s, idx):
    from .heap import SliceObj
    from .natives import slice_indices, norm_index
    if isinstance(s, Rope) or isinstance(idx, RopePos) or (isinstance(idx, SliceObj) and (isinstance(idx.start, RopePos) or isinstance(idx.stop, RopePos))):
        r = rope_of(s)
        if r is None:
            raise Unsupported("rope position on a non-rope string")
        if isinstance(idx, SliceObj):
            if idx.step not in (None, 1):
                raise Unsupported("rope slice with step")
            return simple_norm(rope_slice(r, idx.start, idx.stop))
        i = I.unC(idx)
        if isinstance(i, int):
            seg = (r.segs[0] if i >= 0 else r.segs[-1]) if r.segs else None
            if seg is None:
                I.throw("IndexError", "string index out of range")
            if isinstance(seg, Lit) and (0 <= i < len(seg.s) or -len(seg.s) <= i < 0):
                return seg.s[i]
            if isinstance(seg, Dec) and i == 0:
                # first character of a number: '-' or a digit
                return FirstChar(seg.t)
        raise Unsupported("rope index")
    if isinstance(s, CStr):
        if isinstance(idx, SliceObj):
            a, b, c = (I.unC(x) for x in (idx.start, idx.stop, idx.step))
            if all(x is None or isinstance(x, int) for x in (a, b, c)):
                return CStr(s.codes[slice(a, b, c)])
        else:
            i = I.unC(idx)
            if isinstance(i, int):
                if not (-len(s.codes) <= i < len(s.codes)):
                    I.throw("IndexError", "string index out of range")
                return CStr([s.codes[i]])
        s = s.to_z3()
    if isinstance(s, str):
        if isinstance(idx, SliceObj):
            a, b, c = (I.unC(x) for x in (idx.start, idx.stop, idx.step))
            if all(x is None or isinstance(x, int) for x in (a, b, c)):
                return s[slice(a, b, c)]
        else:
            i = I.unC(idx)
            if isinstance(i, int):
                if not (-len(s) <= i < len(s)):
                    I.throw("IndexError", "string index out of range")
                return s[i]
    zs = zstr(s)
    n = len(s) if isinstance(s, str) else z3.Length(zs)
    if isinstance(idx, SliceObj):
        start, stop, step = slice_indices(I, idx, n)
        if step != 1:
            raise Unsupported("string slice with a step")
        ln = simp(z3.If(zint(stop) > zint(start), zint(stop) - zint(start), 0))
        return simp(z3.SubString(zs, zint(start), ln))
    j = norm_index(I, idx, n, "string index")
    return simp(z3.SubString(zs, zint(j), 1))


# --------------------------------------------------------------------------
# numbers <-> strings

def int_of_str(I, s, base=10):
    """int(s): optional surrounding whitespace, optional sign, digits
    (underscores are not modelled: strings containing '_' are outside the
    claim and listed in the trusted base)"""
    if base != 10:
        raise Unsupported("int() with base != 10")
    if isinstance(s, CStr):
        return cstr_int(I, s)
    if isinstance(s, Rope):
        return rope_int(I, s)
    if isinstance(s, str):
        try:
            return int(s)
        except ValueError:
            I.throw("ValueError", "invalid literal for int()")
    cx = I.ctx
    zs = zstr(s)
    ws = z3.Star(re_ws())
    sign = z3.Option(z3.Union(z3.Re(z3.StringVal("+")), z3.Re(z3.StringVal("-"))))
    pat = z3.Concat(ws, sign, z3.Plus(re_digit()), ws)
    ok = simp(z3.InRe(zs, pat))
    cx.trusted.add("int(str): accepts [ws][+-]digits[ws] (no '_' grouping, ASCII digits only), value by str.to_int")
    if not cx.branch(ok):
        I.throw("ValueError", "invalid literal for int()")
    lead, sg, dg, trail = (cx.fresh_str(n) for n in ("ws1", "sign", "digits", "ws2"))
    cx.assume(zs == z3.Concat(lead, sg, dg, trail))
    cx.assume(z3.InRe(lead, ws))
    cx.assume(z3.InRe(trail, ws))
    cx.assume(z3.InRe(sg, sign))
    cx.assume(z3.InRe(dg, z3.Plus(re_digit())))
    v = z3.StrToInt(dg)
    return simp(z3.If(sg == z3.StringVal("-"), -v, v))


def format_spec(I, val, spec):
    from .interp import OpaqueStr
    if isinstance(spec, str) and isinstance(val, (int, str)) and not isinstance(val, bool):
        try:
            return format(val, spec)
        except (ValueError, TypeError):
            I.throw("ValueError", "invalid format spec")
    if not isinstance(spec, str):
        raise Unsupported("symbolic format spec")
    # [[fill]align][width][d]
    import re
    m = re.fullmatch(r"(?:(.)?([<>^]))?(0)?(\d+)?(d|s)?", spec)
    if m:
        fill, align, zero, width, kind = m.groups()
        if isinstance(val, z3.ExprRef) or isinstance(val, (int, str)):
            from .natives import to_str
            body = to_str(I, val) if not (is_z3(val) and val.sort() == z3.StringSort()) else val
            is_num = not (isinstance(val, str) or (is_z3(val) and val.sort() == z3.StringSort()))
            if kind == "d" and not is_num:
                I.throw("ValueError", "format code 'd' for str")
            if width is None:
                return body
            if zero and not align:
                fill, align = "0", ">"
                if is_num:
                    raise Unsupported("zero-padded numeric format")
            w = int(width)
            fill = fill or " "
            align = align or (">" if is_num else "<")
            if align == "^":
                raise Unsupported("centered format")
            zb = zstr(body)
            n = z3.Length(zb)
            pad = I.ctx.fresh_str("pad")
            I.ctx.assume(z3.Length(pad) == z3.If(n < w, w - n, 0))
            I.ctx.assume(z3.InRe(pad, z3.Star(z3.Re(z3.StringVal(fill)))))
            I.ctx.trusted.add("format(x, '[fill][<>]width[d]') == padding ++ str(x) / str(x) ++ padding, len == max(width, len(str(x)))")
            return z3.Concat(pad, zb) if align == ">" else z3.Concat(zb, pad)
    raise Unsupported(f"format spec {spec!r}")


def sym_format(I, fmt, a, k):
    """'...{}...{:>5d}...'.format(args) with positional auto-numbered fields"""
    import string
    parts = []
    idx = 0
    for lit, field, spec, conv in string.Formatter().parse(fmt):
        if lit:
            parts.append(lit)
        if field is None:
            continue
        if field == "":
            v = a[idx]
            idx += 1
        elif field.isdigit():
            v = a[int(field)]
        else:
            v = k[field]
        from .natives import format_value
        parts.append(format_value(I, v, spec or None, ord(conv) if conv else -1))
    from .interp import OpaqueStr
    if any(isinstance(p, OpaqueStr) for p in parts):
        return OpaqueStr()
    if all(isinstance(p, str) for p in parts):
        return "".join(parts)
    return z3.Concat(*[zstr(p) for p in parts]) if len(parts) > 1 else zstr(parts[0])


def percent_format(I, fmt, arg):
    args = arg if isinstance(arg, tuple) else (arg,)
    args = tuple(I.unC(x) for x in args)
    if all(isinstance(x, (int, str, float)) for x in args):
        return fmt % args
    raise Unsupported("% formatting with symbolic arguments")


# ==========================================================================
# Rope: strings built from literals and decimal representations of integers.
# Exact structural semantics (no SMT string theory): a Dec segment is the
# decimal representation of an integer term -- non-empty, characters in
# [0-9] with an optional leading '-'.

class FirstChar:
    """first character of the decimal representation of t"""
    def __init__(self, t):
        self.t = t

    def to_z3(self):
        t = zint(self.t)
        return z3.SubString(z3.If(t >= 0, z3.IntToStr(t), z3.StringVal("-")), 0, 1)


class Lit:
    __slots__ = ("s",)

    def __init__(self, s):
        self.s = s


class Dec:
    __slots__ = ("t",)

    def __init__(self, t):
        self.t = t


DECCHARS = set("0123456789-")
_declen = None


def declen(t):
    """number of characters of str(t)"""
    global _declen
    if isinstance(t, int):
        return len(str(t))
    if _declen is None:
        _declen = z3.Function("declen", z3.IntSort(), z3.IntSort())
    return _declen(t)


class Rope:
    def __init__(self, segs):
        out = []
        for s in segs:
            if isinstance(s, Lit):
                if not s.s:
                    continue
                if out and isinstance(out[-1], Lit):
                    out[-1] = Lit(out[-1].s + s.s)
                else:
                    out.append(s)
            elif isinstance(s, Dec) and isinstance(simp(s.t), int):
                v = str(simp(s.t))
                if out and isinstance(out[-1], Lit):
                    out[-1] = Lit(out[-1].s + v)
                else:
                    out.append(Lit(v))
            else:
                out.append(s)
        self.segs = out

    def concrete(self):
        if not self.segs:
            return ""
        if len(self.segs) == 1 and isinstance(self.segs[0], Lit):
            return self.segs[0].s
        return None

    def to_z3(self):
        parts = []
        for s in self.segs:
            if isinstance(s, Lit):
                parts.append(z3.StringVal(s.s))
            else:
                t = zint(s.t)
                parts.append(z3.If(t >= 0, z3.IntToStr(t), z3.Concat(z3.StringVal("-"), z3.IntToStr(-t))))
        if not parts:
            return z3.StringVal("")
        return z3.Concat(*parts) if len(parts) > 1 else parts[0]

    def length(self):
        n = 0
        for s in self.segs:
            n = n + (len(s.s) if isinstance(s, Lit) else declen(s.t))
        return n

    def __repr__(self):
        return "Rope(" + " ".join(repr(s.s) if isinstance(s, Lit) else f"<{s.t}>" for s in self.segs) + ")"


class RopePos:
    """index into a rope: `off` characters into literal segment `seg`"""
    def __init__(self, rope, seg, off):
        self.rope, self.seg, self.off = rope, seg, off


def rope_of(v):
    from .interp import OpaqueStr
    if isinstance(v, Rope):
        return v
    if isinstance(v, str):
        return Rope([Lit(v)])
    return None


def simple_norm(r):
    c = r.concrete()
    return c if c is not None else r


def lit_safe(sub):
    """a literal that cannot overlap a Dec segment"""
    return isinstance(sub, str) and len(sub) > 0 and not (set(sub) & DECCHARS)


def rope_contains(r, sub):
    if not lit_safe(sub):
        raise Unsupported(f"substring test of {sub!r} against a rope")
    return any(isinstance(s, Lit) and sub in s.s for s in r.segs)


def rope_find(r, sub, reverse=False):
    if not lit_safe(sub):
        raise Unsupported(f"find of {sub!r} in a rope")
    idxs = range(len(r.segs) - 1, -1, -1) if reverse else range(len(r.segs))
    for k in idxs:
        s = r.segs[k]
        if isinstance(s, Lit):
            p = s.s.rfind(sub) if reverse else s.s.find(sub)
            if p >= 0:
                return RopePos(r, k, p)
    return None


def rope_slice(r, a, b):
    """r[a:b] with a, b None | int | RopePos"""
    def norm(p, default_end):
        if p is None:
            return None
        if isinstance(p, RopePos):
            if p.rope is not r:
                raise Unsupported("slice position of another string")
            return (p.seg, p.off)
        if isinstance(p, int):
            if p < 0:
                # from the end: only inside a trailing literal
                last = r.segs[-1] if r.segs else None
                if isinstance(last, Lit) and -p <= len(last.s):
                    return (len(r.segs) - 1, len(last.s) + p)
                raise Unsupported("negative slice bound reaching into a number")
            first = r.segs[0] if r.segs else None
            if p == 0:
                return (0, 0)
            if isinstance(first, Lit) and p <= len(first.s):
                return (0, p)
            raise Unsupported("integer slice bound reaching into a number")
        raise Unsupported("symbolic slice bound on a rope")
    sa = norm(a, False) or (0, 0)
    sb = norm(b, True)
    if sb is None:
        sb = (len(r.segs), 0)
    if sa > sb:
        return Rope([])
    out = []
    for k, s in enumerate(r.segs):
        if k < sa[0] or k > sb[0]:
            continue
        if isinstance(s, Lit):
            lo = sa[1] if k == sa[0] else 0
            hi = sb[1] if k == sb[0] else len(s.s)
            out.append(Lit(s.s[lo:hi]))
        else:
            if k == sa[0] and sa[1] != 0:
                raise Unsupported("slice starting inside a number")
            if k == sb[0]:
                continue        # (k, 0): ends before this segment
            out.append(s)
    return Rope(out)


def rope_split(r, sep, maxsplit=-1):
    if not lit_safe(sep):
        raise Unsupported(f"split of a rope at {sep!r}")
    parts, cur = [], []
    n = 0
    for s in r.segs:
        if isinstance(s, Lit):
            pieces = s.s.split(sep) if maxsplit < 0 else s.s.split(sep, maxsplit - n)
            for i, pc in enumerate(pieces):
                if i > 0:
                    parts.append(Rope(cur))
                    cur = []
                    n += 1
                cur.append(Lit(pc))
        else:
            cur.append(s)
    parts.append(Rope(cur))
    return parts


def rope_strip(r, chars, left=True, right=True):
    if set(chars) & DECCHARS:
        raise Unsupported("strip of digit characters from a rope")
    segs = list(r.segs)
    if left and segs and isinstance(segs[0], Lit):
        segs[0] = Lit(segs[0].s.lstrip(chars))
    if right and segs and isinstance(segs[-1], Lit):
        segs[-1] = Lit(segs[-1].s.rstrip(chars))
    return Rope(segs)


def rope_int(I, r):
    segs = r.segs
    if len(segs) == 1 and isinstance(segs[0], Dec):
        return segs[0].t
    c = r.concrete()
    if c is not None:
        try:
            return int(c)
        except ValueError:
            I.throw("ValueError", "invalid literal for int()")
    # whitespace / sign around one number
    if all(isinstance(s, Dec) or (isinstance(s, Lit)) for s in segs):
        lits = "".join(s.s for s in segs if isinstance(s, Lit))
        decs = [s for s in segs if isinstance(s, Dec)]
        if len(decs) == 1 and lits.strip() == "" and (isinstance(segs[0], Lit) or True):
            # only whitespace around the number
            if all(ch in WS for ch in lits):
                return decs[0].t
        if any(ch not in "0123456789+-_ \t\n\r" for ch in lits):
            I.throw("ValueError", "invalid literal for int()")
    raise Unsupported(f"int() of {r!r}")


def rope_eq(I, a, b):
    """structural equality of two ropes (None: cannot decide structurally)"""
    from .natives import conj
    if len(a.segs) != len(b.segs):
        # a literal can equal literal+number only if ... -> fall back
        return None
    conds = []
    for x, y in zip(a.segs, b.segs):
        if isinstance(x, Lit) and isinstance(y, Lit):
            if x.s != y.s:
                return False
        elif isinstance(x, Dec) and isinstance(y, Dec):
            conds.append(zint(x.t) == zint(y.t))
        else:
            return None
    # equal segment structure with literals that cannot be parts of numbers
    # at the junctions: numbers must be equal
    for k, s in enumerate(a.segs):
        if isinstance(s, Lit):
            prev_dec = k > 0 and isinstance(a.segs[k - 1], Dec)
            next_dec = k + 1 < len(a.segs) and isinstance(a.segs[k + 1], Dec)
            if (prev_dec and s.s[0] in DECCHARS) or (next_dec and s.s[-1] in "0123456789"):
                return None
    return conj(conds)


def rope_method(I, r, name):
    from .heap import PList as PL

    def N(fn):
        return Native("str." + name, fn)

    def nz(x):
        return simple_norm(x) if isinstance(x, Rope) else x
    if name in ("startswith", "endswith"):
        def f(I_, a, k):
            pre = a[0]
            pres = pre if isinstance(pre, tuple) else (pre,)
            res = False
            for p in pres:
                if not isinstance(p, str):
                    raise Unsupported("startswith with symbolic prefix")
                if p == "":
                    return True
                seg = (r.segs[0] if name == "startswith" else r.segs[-1]) if r.segs else Lit("")
                if isinstance(seg, Lit):
                    if len(seg.s) >= len(p) or len(r.segs) == 1:
                        res = res or (seg.s.startswith(p) if name == "startswith" else seg.s.endswith(p))
                        continue
                    # prefix longer than the first literal: needs number characters
                    if set(p[len(seg.s):]) & DECCHARS or set(p[:-len(seg.s) or None]) & DECCHARS:
                        raise Unsupported("prefix test reaching into a number")
                    continue
                # starts with a number
                if set(p) & DECCHARS:
                    raise Unsupported("prefix test against a number")
            return res
        return N(f)
    if name == "index" or name == "find" or name == "rindex" or name == "rfind":
        def f(I_, a, k):
            pos = rope_find(r, a[0], reverse=name.startswith("r"))
            if pos is None:
                if name in ("index", "rindex"):
                    I_.throw("ValueError", "substring not found")
                return -1
            return pos
        return N(f)
    if name == "split":
        def f(I_, a, k):
            if not a or a[0] is None:
                raise Unsupported("whitespace split of a rope")
            ms = a[1] if len(a) > 1 else k.get("maxsplit", -1)
            return PL([nz(x) for x in rope_split(r, a[0], ms)])
        return N(f)
    if name in ("strip", "lstrip", "rstrip"):
        def f(I_, a, k):
            chars = a[0] if a and a[0] is not None else WS
            return nz(rope_strip(r, chars, name != "rstrip", name != "lstrip"))
        return N(f)
    if name == "join":
        def f(I_, a, k):
            items = I_.iter_concrete(a[0])
            segs = []
            for i, x in enumerate(items):
                if i:
                    segs.extend(r.segs)
                rx = rope_of(x)
                if rx is None:
                    raise Unsupported("join of non-rope strings")
                segs.extend(rx.segs)
            return nz(Rope(segs))
        return N(f)
    if name == "replace":
        def f(I_, a, k):
            old, new = a[0], a[1]
            if not (lit_safe(old) and isinstance(new, str)):
                raise Unsupported("replace on a rope")
            return nz(Rope([Lit(s.s.replace(old, new)) if isinstance(s, Lit) else s for s in r.segs]))
        return N(f)
    if name == "__len__":
        return N(lambda I_, a, k: r.length())
    if name == "encode":
        return N(lambda I_, a, k: r)
    return None
