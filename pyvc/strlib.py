"""pyvc.strlib -- contracts for str methods, formatting and int()/str()
conversions over SMT strings (trusted library contracts, differentially
tested in thorough mode)."""
import z3
from .core import Unsupported, zint, zstr, simp, is_z3
from .heap import Native, PList


def str_method(I, s, name):
    raise Unsupported(f"str.{name}")


def str_getitem(I, s, idx):
    raise Unsupported("str subscript")


def format_spec(I, val, spec):
    raise Unsupported(f"format spec {spec!r}")


def percent_format(I, fmt, arg):
    raise Unsupported("% formatting")


def int_of_str(I, s, base=10):
    raise Unsupported("int(str)")
