"""pyvc.strlib -- contracts for str methods, formatting and int()/str()
conversions over SMT strings (trusted library contracts, differentially
tested against CPython in thorough mode)."""
import z3
from .core import Unsupported, zint, zstr, zbool, simp, is_z3, CV
from .heap import Native, PList

WS = " \t\n\r\x0b\x0c"


class CStr:
    """string of concrete length whose character codes may be symbolic
    (result of decoding a fixed-size buffer); keeps per-character structure so
    that strip / encode / int() stay exact"""
    def __init__(self, codes):
        self.codes = list(codes)

    def to_z3(self):
        parts = [z3.StringVal(chr(c)) if isinstance(c, int) else z3.StrFromCode(c) for c in self.codes]
        if not parts:
            return z3.StringVal("")
        return z3.Concat(*parts) if len(parts) > 1 else parts[0]

    def __repr__(self):
        return f"CStr({self.codes})"


def cstr_of(s):
    if isinstance(s, CStr):
        return s
    if isinstance(s, str):
        return CStr([ord(c) for c in s])
    return None


def code_in(I, c, chars):
    if isinstance(c, int):
        return chr(c) in chars
    return simp(z3.Or([c == ord(ch) for ch in chars]))


def cstr_method(I, s, name):
    def N(fn):
        return Native("str." + name, fn)
    if name in ("strip", "lstrip", "rstrip"):
        def f(I_, a, k):
            chars = a[0] if a and a[0] is not None else WS
            if not isinstance(chars, str):
                raise Unsupported("strip with symbolic character set")
            codes = list(s.codes)
            if name in ("strip", "lstrip"):
                while codes and I_.ctx.branch(code_in(I_, codes[0], chars)):
                    codes.pop(0)
            if name in ("strip", "rstrip"):
                while codes and I_.ctx.branch(code_in(I_, codes[-1], chars)):
                    codes.pop()
            return CStr(codes)
        return N(f)
    if name == "encode":
        def f(I_, a, k):
            from .heap import SymArr
            arr = SymArr("bytes", "unsigned char", [len(s.codes)], readonly=True)
            t = z3.K(z3.IntSort(), z3.IntVal(0))
            for i, c in enumerate(s.codes):
                if not isinstance(c, int):
                    if not I_.ctx.branch(c < 128):
                        I_.throw("UnicodeEncodeError", "ordinal not in range(128)")
                t = z3.Store(t, i, c)
            arr.arr = t
            return arr
        return N(f)
    if name == "__len__":
        return N(lambda I_, a, k: len(s.codes))
    if name in ("startswith", "endswith") :
        def f(I_, a, k):
            pre = a[0]
            if not isinstance(pre, str):
                raise Unsupported("startswith with symbolic prefix")
            if len(pre) > len(s.codes):
                return False
            seg = s.codes[:len(pre)] if name == "startswith" else s.codes[len(s.codes) - len(pre):]
            from .natives import conj
            return conj([(c == ord(p)) if not isinstance(c, int) else c == ord(p) for c, p in zip(seg, pre)])
        return N(f)
    # anything else: fall back to the SMT string
    return None


def cstr_int(I, s):
    """int(s) for a CStr: optional surrounding whitespace, optional sign, digits"""
    codes = list(s.codes)
    while codes and I.ctx.branch(code_in(I, codes[0], WS)):
        codes.pop(0)
    while codes and I.ctx.branch(code_in(I, codes[-1], WS)):
        codes.pop()
    neg = False
    if codes and I.ctx.branch(code_in(I, codes[0], "+-")):
        neg = codes[0] == ord("-") if isinstance(codes[0], int) else I.ctx.branch(codes[0] == ord("-"))
        codes.pop(0)
    if not codes:
        I.throw("ValueError", "invalid literal for int()")
    val = 0
    for c in codes:
        isd = (48 <= c <= 57) if isinstance(c, int) else simp(z3.And(c >= 48, c <= 57))
        if not I.ctx.branch(isd):
            I.throw("ValueError", "invalid literal for int()")
        val = val * 10 + (c - 48)
    I.ctx.trusted.add("int(str) on fixed-length strings: [ws][+-]ASCII digits[ws]; '_' separators and non-ASCII digits are rejected by the model (CPython accepts them)")
    return simp(-val) if neg else simp(val) if not isinstance(val, int) else (-val if neg else val)


def _conc(v):
    return isinstance(v, (str, int, bool)) or v is None


def re_ws():
    return z3.Union(*[z3.Re(z3.StringVal(c)) for c in WS])


def re_digit():
    return z3.Range("0", "9")


def str_method(I, s, name):
    from .interp import OpaqueStr, ConcIter

    def N(fn):
        return Native("str." + name, fn)

    if isinstance(s, CStr):
        m = cstr_method(I, s, name)
        if m is not None:
            return m
        s = s.to_z3()

    if isinstance(s, str):
        def conc_call(I_, a, k):
            a = [I_.unC(x) for x in a]
            if name == "join":
                items = I_.iter_concrete(a[0])
                if any(isinstance(x, OpaqueStr) for x in items):
                    return OpaqueStr()
                if all(isinstance(x, str) for x in items):
                    return s.join(items)
                if not items:
                    return ""
                parts = []
                for i, x in enumerate(items):
                    if i:
                        parts.append(s)
                    parts.append(x)
                parts = [p for p in parts if not (isinstance(p, str) and p == "")]
                return z3.Concat(*[zstr(p) for p in parts]) if len(parts) > 1 else zstr(parts[0])
            if name == "format":
                if all(_conc(x) for x in a) and all(_conc(x) for x in k.values()):
                    return s.format(*a, **k)
                return sym_format(I_, s, a, k)
            if all(isinstance(x, (str, int, bool, tuple)) or x is None for x in a):
                r = getattr(s, name)(*a, **{kk: I_.unC(v) for kk, v in k.items()})
                if isinstance(r, list):
                    return PList(r)
                return r
            # concrete receiver, symbolic argument
            return sym_method(I_, z3.StringVal(s), name, a, k)
        if not hasattr(s, name):
            raise Unsupported(f"str.{name}")
        return N(conc_call)
    return N(lambda I_, a, k: sym_method(I_, s, name, [I_.unC(x) for x in a], k))


def sym_method(I, s, name, a, k):
    cx = I.ctx
    s = zstr(s)
    if name == "startswith":
        if isinstance(a[0], tuple):
            return simp(z3.Or([z3.PrefixOf(zstr(x), s) for x in a[0]]))
        return simp(z3.PrefixOf(zstr(a[0]), s))
    if name == "endswith":
        if isinstance(a[0], tuple):
            return simp(z3.Or([z3.SuffixOf(zstr(x), s) for x in a[0]]))
        return simp(z3.SuffixOf(zstr(a[0]), s))
    if name in ("strip", "lstrip", "rstrip"):
        chars = a[0] if a and a[0] is not None else WS
        if not isinstance(chars, str):
            raise Unsupported("strip with symbolic character set")
        cset = z3.Union(*[z3.Re(z3.StringVal(c)) for c in chars]) if len(chars) > 1 else z3.Re(z3.StringVal(chars))
        pre = cx.fresh_str("lead") if name in ("strip", "lstrip") else z3.StringVal("")
        post = cx.fresh_str("trail") if name in ("strip", "rstrip") else z3.StringVal("")
        mid = cx.fresh_str("core")
        cx.assume(s == z3.Concat(pre, mid, post))
        if name in ("strip", "lstrip"):
            cx.assume(z3.InRe(pre, z3.Star(cset)))
            cx.assume(z3.Or(z3.Length(mid) == 0, z3.Not(z3.InRe(z3.SubString(mid, 0, 1), cset))))
        if name in ("strip", "rstrip"):
            cx.assume(z3.InRe(post, z3.Star(cset)))
            cx.assume(z3.Or(z3.Length(mid) == 0,
                            z3.Not(z3.InRe(z3.SubString(mid, z3.Length(mid) - 1, 1), cset))))
        cx.trusted.add("str.strip/lstrip/rstrip: s == lead ++ core ++ trail, lead/trail in chars*, core does not start/end with a char")
        return mid
    if name == "find":
        return z3.IndexOf(s, zstr(a[0]), zint(a[1]) if len(a) > 1 else 0)
    if name == "index":
        r = z3.IndexOf(s, zstr(a[0]), 0)
        if cx.branch(r < 0):
            I.throw("ValueError", "substring not found")
        return r
    if name == "replace":
        if len(a) > 2:
            raise Unsupported("str.replace with count")
        return replace_all(I, s, a[0], a[1])
    if name in ("ljust", "rjust"):
        w = a[0]
        fill = a[1] if len(a) > 1 else " "
        n = z3.Length(s)
        padlen = z3.If(zint(w) > n, zint(w) - n, 0)
        pad = cx.fresh_str("pad")
        cx.assume(z3.Length(pad) == padlen)
        cx.assume(z3.InRe(pad, z3.Star(z3.Re(z3.StringVal(fill)))))
        return z3.Concat(s, pad) if name == "ljust" else z3.Concat(pad, s)
    if name == "isdigit":
        return simp(z3.InRe(s, z3.Plus(re_digit())))
    if name == "isspace":
        return simp(z3.InRe(s, z3.Plus(re_ws())))
    if name == "upper" or name == "lower":
        raise Unsupported("case conversion of a symbolic string")
    if name == "partition":
        sep = zstr(a[0])
        i = z3.IndexOf(s, sep, 0)
        if cx.branch(i < 0):
            return (s, "", "")
        return (z3.SubString(s, 0, i), a[0], z3.SubString(s, i + z3.Length(sep), z3.Length(s)))
    if name == "encode":
        return s
    if name == "__len__":
        return z3.Length(s)
    if name == "count":
        raise Unsupported("str.count on a symbolic string")
    if name == "split":
        raise Unsupported("str.split on a symbolic string")
    if name == "join":
        items = I.iter_concrete(a[0])
        parts = []
        for i, x in enumerate(items):
            if i:
                parts.append(s)
            parts.append(zstr(x))
        if not parts:
            return ""
        return z3.Concat(*parts) if len(parts) > 1 else parts[0]
    raise Unsupported(f"str.{name} on a symbolic string")


def replace_all(I, s, old, new):
    """s.replace(old, new) for a single-character `old`"""
    if isinstance(old, str) and len(old) == 1:
        return z3.ReplaceAll(zstr(s), zstr(old), zstr(new)) if hasattr(z3, "ReplaceAll") else _unsup("replace_all")
    raise Unsupported("str.replace of a multi-character pattern on a symbolic string")


def _unsup(m):
    raise Unsupported(m)


def str_getitem(I, s, idx):
    from .heap import SliceObj
    from .natives import slice_indices, norm_index
    if isinstance(s, CStr):
        if isinstance(idx, SliceObj):
            a, b, c = (I.unC(x) for x in (idx.start, idx.stop, idx.step))
            if all(x is None or isinstance(x, int) for x in (a, b, c)):
                return CStr(s.codes[slice(a, b, c)])
        else:
            i = I.unC(idx)
            if isinstance(i, int):
                if not (-len(s.codes) <= i < len(s.codes)):
                    I.throw("IndexError", "string index out of range")
                return CStr([s.codes[i]])
        s = s.to_z3()
    if isinstance(s, str):
        if isinstance(idx, SliceObj):
            a, b, c = (I.unC(x) for x in (idx.start, idx.stop, idx.step))
            if all(x is None or isinstance(x, int) for x in (a, b, c)):
                return s[slice(a, b, c)]
        else:
            i = I.unC(idx)
            if isinstance(i, int):
                if not (-len(s) <= i < len(s)):
                    I.throw("IndexError", "string index out of range")
                return s[i]
    zs = zstr(s)
    n = len(s) if isinstance(s, str) else z3.Length(zs)
    if isinstance(idx, SliceObj):
        start, stop, step = slice_indices(I, idx, n)
        if step != 1:
            raise Unsupported("string slice with a step")
        ln = simp(z3.If(zint(stop) > zint(start), zint(stop) - zint(start), 0))
        return simp(z3.SubString(zs, zint(start), ln))
    j = norm_index(I, idx, n, "string index")
    return simp(z3.SubString(zs, zint(j), 1))


# --------------------------------------------------------------------------
# numbers <-> strings

def int_of_str(I, s, base=10):
    """int(s): optional surrounding whitespace, optional sign, digits
    (underscores are not modelled: strings containing '_' are outside the
    claim and listed in the trusted base)"""
    if base != 10:
        raise Unsupported("int() with base != 10")
    if isinstance(s, CStr):
        return cstr_int(I, s)
    if isinstance(s, str):
        try:
            return int(s)
        except ValueError:
            I.throw("ValueError", "invalid literal for int()")
    cx = I.ctx
    zs = zstr(s)
    ws = z3.Star(re_ws())
    sign = z3.Option(z3.Union(z3.Re(z3.StringVal("+")), z3.Re(z3.StringVal("-"))))
    pat = z3.Concat(ws, sign, z3.Plus(re_digit()), ws)
    ok = simp(z3.InRe(zs, pat))
    cx.trusted.add("int(str): accepts [ws][+-]digits[ws] (no '_' grouping, ASCII digits only), value by str.to_int")
    if not cx.branch(ok):
        I.throw("ValueError", "invalid literal for int()")
    lead, sg, dg, trail = (cx.fresh_str(n) for n in ("ws1", "sign", "digits", "ws2"))
    cx.assume(zs == z3.Concat(lead, sg, dg, trail))
    cx.assume(z3.InRe(lead, ws))
    cx.assume(z3.InRe(trail, ws))
    cx.assume(z3.InRe(sg, sign))
    cx.assume(z3.InRe(dg, z3.Plus(re_digit())))
    v = z3.StrToInt(dg)
    return simp(z3.If(sg == z3.StringVal("-"), -v, v))


def format_spec(I, val, spec):
    from .interp import OpaqueStr
    if isinstance(spec, str) and isinstance(val, (int, str)) and not isinstance(val, bool):
        try:
            return format(val, spec)
        except (ValueError, TypeError):
            I.throw("ValueError", "invalid format spec")
    if not isinstance(spec, str):
        raise Unsupported("symbolic format spec")
    # [[fill]align][width][d]
    import re
    m = re.fullmatch(r"(?:(.)?([<>^]))?(0)?(\d+)?(d|s)?", spec)
    if m:
        fill, align, zero, width, kind = m.groups()
        if isinstance(val, z3.ExprRef) or isinstance(val, (int, str)):
            from .natives import to_str
            body = to_str(I, val) if not (is_z3(val) and val.sort() == z3.StringSort()) else val
            is_num = not (isinstance(val, str) or (is_z3(val) and val.sort() == z3.StringSort()))
            if kind == "d" and not is_num:
                I.throw("ValueError", "format code 'd' for str")
            if width is None:
                return body
            if zero and not align:
                fill, align = "0", ">"
                if is_num:
                    raise Unsupported("zero-padded numeric format")
            w = int(width)
            fill = fill or " "
            align = align or (">" if is_num else "<")
            if align == "^":
                raise Unsupported("centered format")
            zb = zstr(body)
            n = z3.Length(zb)
            pad = I.ctx.fresh_str("pad")
            I.ctx.assume(z3.Length(pad) == z3.If(n < w, w - n, 0))
            I.ctx.assume(z3.InRe(pad, z3.Star(z3.Re(z3.StringVal(fill)))))
            I.ctx.trusted.add("format(x, '[fill][<>]width[d]') == padding ++ str(x) / str(x) ++ padding, len == max(width, len(str(x)))")
            return z3.Concat(pad, zb) if align == ">" else z3.Concat(zb, pad)
    raise Unsupported(f"format spec {spec!r}")


def sym_format(I, fmt, a, k):
    """'...{}...{:>5d}...'.format(args) with positional auto-numbered fields"""
    import string
    parts = []
    idx = 0
    for lit, field, spec, conv in string.Formatter().parse(fmt):
        if lit:
            parts.append(lit)
        if field is None:
            continue
        if field == "":
            v = a[idx]
            idx += 1
        elif field.isdigit():
            v = a[int(field)]
        else:
            v = k[field]
        from .natives import format_value
        parts.append(format_value(I, v, spec or None, ord(conv) if conv else -1))
    from .interp import OpaqueStr
    if any(isinstance(p, OpaqueStr) for p in parts):
        return OpaqueStr()
    if all(isinstance(p, str) for p in parts):
        return "".join(parts)
    return z3.Concat(*[zstr(p) for p in parts]) if len(parts) > 1 else zstr(parts[0])


def percent_format(I, fmt, arg):
    args = arg if isinstance(arg, tuple) else (arg,)
    args = tuple(I.unC(x) for x in args)
    if all(isinstance(x, (int, str, float)) for x in args):
        return fmt % args
    raise Unsupported("% formatting with symbolic arguments")
