"""Consistent renames of identifiers between the pinned tree and the tree under check.

Loop invariants and postconditions name program variables (`env.lookup("mask_v")`).  A maintainer who renames a
local consistently changes nothing about the program, but such a contract would no longer find its variable.  For
every function of the files under contract, `tools/record_identifiers.py` stores (on the pinned tree) the list of
identifiers in order of first appearance and a hash of the *occurrence pattern* (for each identifier occurrence, the
index of the identifier in that list, together with the kind of AST node around it).  When the current text of a
function has the same pattern but other identifiers at some positions, the function is the pinned one up to a
consistent renaming, and the contract's names are translated old -> new.  A partial rename (one use forgotten)
changes the pattern, so no translation is made and the contract fails to find its variable as before.
"""
import ast
import hashlib
import json
import os

VERIF = os.path.dirname(os.path.dirname(os.path.abspath(__file__)))
FILE = os.path.join(VERIF, "baseline", "identifiers.json")


def signature(fn_node):
    """(identifiers in order of first appearance, hash of the occurrence pattern) of one function definition"""
    first, index, pattern = [], {}, []

    def note(name, kind):
        if name not in index:
            index[name] = len(first)
            first.append(name)
        pattern.append(f"{kind}{index[name]}")
    for node in ast.walk(fn_node):
        # ast.walk is breadth-first but deterministic for equal shapes, which is all that is needed
        if isinstance(node, ast.Name):
            note(node.id, "n" + type(node.ctx).__name__[0])
        elif isinstance(node, ast.arg):
            note(node.arg, "a")
        elif isinstance(node, (ast.FunctionDef, ast.AsyncFunctionDef, ast.ClassDef)) and node is not fn_node:
            note(node.name, "d")
        else:
            pattern.append(type(node).__name__)
    return first, hashlib.sha1(" ".join(pattern).encode()).hexdigest()


def functions(tree):
    """{qualified name: FunctionDef} for module-level functions and methods (one class level)"""
    out = {}
    for node in tree.body:
        if isinstance(node, (ast.FunctionDef, ast.AsyncFunctionDef)):
            out[node.name] = node
        elif isinstance(node, ast.ClassDef):
            for sub in node.body:
                if isinstance(sub, (ast.FunctionDef, ast.AsyncFunctionDef)):
                    out[f"{node.name}.{sub.name}"] = sub
    return out


def module_signatures(tree):
    return {q: list(signature(n)) for q, n in functions(tree).items()}


_pinned = None


def pinned():
    global _pinned
    if _pinned is None:
        _pinned = json.load(open(FILE)).get("files", {}) if os.path.exists(FILE) else {}
    return _pinned


def rename_maps(relpath, tree):
    """{function qualname: {old identifier: new identifier}} for the functions of this file that equal their
    pinned text up to a consistent renaming of identifiers"""
    base = pinned().get(relpath)
    if not base:
        return {}
    out = {}
    for q, (first, pat) in module_signatures(tree).items():
        old = base.get(q)
        if not old or old[1] != pat or old[0] == first or len(old[0]) != len(first):
            continue
        m = {o: n for o, n in zip(old[0], first) if o != n}
        # a renaming must be injective on the identifiers of the function
        if len(set(m.values())) == len(m) and not (set(m.values()) & (set(old[0]) - set(m))):
            out[q] = m
    return out
