"""pyvc.concrete -- run a function of the current source text in the
interpreter with concrete arguments (replay on the extracted text).
stdin: {"target": "rel::qual", "args": [...], "kwargs": {...}}
Arguments: ints / strings / bools / None / lists (lists become arrays when
the parameter is a typed memoryview: {"array": [...], "ctype": "int32"})."""
import json
import sys
import z3
from .core import CV, Unsupported
from .heap import SymArr, PList, Obj
from .interp import Ctx, Interp, Raised, PathEnd, Explorer
from .loader import Loader
from .run import resolve_target


def to_value(v):
    if isinstance(v, dict) and "array" in v:
        data = v["array"]
        shape = v.get("shape", [len(data)])
        arr = SymArr("arg", v.get("ctype"), shape)
        if len(shape) == 1:
            t = z3.K(z3.IntSort(), z3.IntVal(0))
            for i, x in enumerate(data):
                t = z3.Store(t, i, int(x))
        else:
            t = z3.K(z3.IntSort(), z3.K(z3.IntSort(), z3.IntVal(0)))
            for i, row in enumerate(data):
                r = z3.K(z3.IntSort(), z3.IntVal(0))
                for j, x in enumerate(row):
                    r = z3.Store(r, j, int(x))
                t = z3.Store(t, i, r)
        arr.arr = t
        return arr
    if isinstance(v, dict) and "cv" in v:
        return CV(v["ctype"], v["cv"])
    if isinstance(v, list):
        return PList([to_value(x) for x in v])
    return v


def from_value(v):
    from .core import simp
    from .strlib import CStr
    if isinstance(v, CV):
        v = v.term
    if isinstance(v, z3.ExprRef):
        v = simp(v)
        if isinstance(v, z3.ExprRef):
            return str(v)
    if isinstance(v, CStr):
        return "".join(chr(c) if isinstance(c, int) else "?" for c in v.codes)
    if isinstance(v, SymArr):
        from .core import simp as s2
        n = s2(v.shape[0])
        if isinstance(n, int) and len(v.shape) == 1:
            return [from_value(z3.Select(v.arr, i)) for i in range(min(n, 64))]
        return f"<array shape {v.shape}>"
    if isinstance(v, tuple):
        return [from_value(x) for x in v]
    if isinstance(v, PList):
        return [from_value(x) for x in v.items]
    if isinstance(v, (int, str, bool)) or v is None:
        return v
    return repr(v)


def main():
    req = json.load(sys.stdin)
    cx = Ctx("concrete")
    cx.explorers.append(Explorer())
    I = Interp(cx, Loader())
    I.overflow_checks = False
    try:
        f, owner, mod = resolve_target(I, req["target"])
        res = I.call(f, [to_value(a) for a in req["args"]], {k: to_value(v) for k, v in req.get("kwargs", {}).items()})
        out = {"outcome": "return", "value": from_value(res)}
    except Raised as r:
        out = {"outcome": "raise", "exception": r.exc.cls.name}
    except Unsupported as e:
        out = {"outcome": "unsupported", "error": str(e)}
    failed = [o.name for o in cx.obligations if z3.is_false(z3.simplify(o.goal))]
    out["failed_safety_obligations"] = failed
    print(json.dumps(out))


if __name__ == "__main__":
    main()
