"""pyvc.concrete -- run a function of the current source text in the
interpreter with concrete arguments (replay on the extracted text).

stdin: {"target": "rel::qual", "args": [...], "kwargs": {...}}
   or  {"target": ..., "batch": [{"args": [...], "kwargs": {...}}, ...]}
Argument encodings: ints / strings / bools / None;
  {"cv": 5, "ctype": "int32"}                       C-typed scalar
  {"array": [[...]], "ctype": "int32", "memview": true}   1-d / 2-d array
  {"cell": 0, "ctype": "int32"}                     out-parameter (pointer)
  {"dtype": "int32"}                                NumPy dtype object
Output (one JSON line per call): outcome, value, final contents of array and
cell arguments, failed safety obligations (out-of-bounds under
boundscheck(False), signed overflow)."""
import json
import sys
import z3
from .core import CV, Unsupported, simp
from .heap import SymArr, PList, Obj, Cell
from .interp import Ctx, Interp, Raised, PathEnd, Explorer, Env
from .loader import Loader
from .run import resolve_target


def to_value(v):
    if isinstance(v, dict) and "obj" in v:
        return ("__obj__", v["obj"], v.get("attrs", {}))
    if isinstance(v, dict) and "array" in v:
        data = v["array"]
        two = bool(data) and isinstance(data[0], list) or v.get("ndim") == 2
        if two:
            shape = v.get("shape", [len(data), len(data[0]) if data else 0])
            t = z3.K(z3.IntSort(), z3.K(z3.IntSort(), z3.IntVal(0)))
            for i, row in enumerate(data):
                r = z3.K(z3.IntSort(), z3.IntVal(0))
                for j, x in enumerate(row):
                    r = z3.Store(r, j, int(x))
                t = z3.Store(t, i, r)
        else:
            shape = v.get("shape", [len(data)])
            t = z3.K(z3.IntSort(), z3.IntVal(0))
            for i, x in enumerate(data):
                t = z3.Store(t, i, int(x))
        arr = SymArr("arg", v.get("ctype"), shape, arr=t)
        return arr.view(memview=True) if v.get("memview", True) else arr
    if isinstance(v, dict) and "dtype" in v:
        from .nplib import DType
        return DType(v["dtype"])
    if isinstance(v, dict) and "cv" in v:
        return CV(v["ctype"], v["cv"])
    if isinstance(v, dict) and "cell" in v:
        env = Env()
        env.vars["x"] = CV(v["ctype"], v["cell"])
        env.ctypes["x"] = v["ctype"]
        return Cell(env, "x")
    if isinstance(v, dict) and "tuple" in v:
        return tuple(to_value(x) for x in v["tuple"])
    if isinstance(v, list):
        return PList([to_value(x) for x in v])
    return v


def scalar(v):
    if isinstance(v, CV):
        v = v.term
    if isinstance(v, z3.ExprRef):
        v = simp(v)
        if isinstance(v, z3.ExprRef):
            if z3.is_rational_value(v):
                return float(v.as_fraction())
            return str(v)
    return v


def from_value(v):
    from .strlib import CStr
    if isinstance(v, (CV, z3.ExprRef)):
        return scalar(v)
    if isinstance(v, CStr):
        return "".join(chr(c) if isinstance(c, int) else "?" for c in v.codes)
    if isinstance(v, SymArr):
        shp = [simp(s) for s in v.shape]
        if all(isinstance(s, int) for s in shp):
            if len(shp) == 1:
                return [scalar(z3.Select(v.arr, i)) for i in range(shp[0])]
            if len(shp) == 2:
                return [[scalar(z3.Select(z3.Select(v.arr, i), j)) for j in range(shp[1])] for i in range(shp[0])]
        return f"<array shape {v.shape}>"
    if isinstance(v, Cell):
        return scalar(v.env.vars[v.name])
    if isinstance(v, tuple):
        return [from_value(x) for x in v]
    if isinstance(v, PList):
        return [from_value(x) for x in v.items]
    if isinstance(v, (int, str, bool)) or v is None:
        return v
    if isinstance(v, Obj):
        return {"obj": v.cls.name, "attrs": {k: from_value(x) for k, x in v.attrs.items()
                                             if isinstance(x, (SymArr, CV, int, bool, str, z3.ExprRef)) or x is None}}
    return repr(v)


def run_one(target, args, kwargs):
    cx = Ctx("concrete")
    cx.explorers.append(Explorer())
    I = Interp(cx, Loader())
    I.overflow_checks = True
    vals = [to_value(a) for a in args]
    try:
        f, owner, mod = resolve_target(I, target)
        for k, v in enumerate(vals):
            if isinstance(v, tuple) and len(v) == 3 and v[0] == "__obj__":
                # instance of a class of the target module with the given attributes
                vals[k] = Obj(mod.ns[v[1]], {a: to_value(x) for a, x in v[2].items()})
        res = I.call(f, vals, {k: to_value(v) for k, v in kwargs.items()})
        out = {"outcome": "return", "value": from_value(res)}
    except Raised as r:
        out = {"outcome": "raise", "exception": r.exc.cls.name}
    except Unsupported as e:
        out = {"outcome": "unsupported", "error": str(e)}
    except PathEnd:
        out = {"outcome": "undefined-behaviour"}
    out["args_after"] = [from_value(v) if isinstance(v, (SymArr, Cell, Obj)) else None for v in vals]
    out["failed_safety_obligations"] = [o.name for o in cx.obligations if z3.is_false(z3.simplify(o.goal))]
    return out


def main():
    req = json.load(sys.stdin)
    if "batch" in req:
        outs = []
        for b in req["batch"]:
            try:
                outs.append(run_one(req["target"], b.get("args", []), b.get("kwargs", {})))
            except Exception as e:
                outs.append({"outcome": "engine-error", "error": f"{type(e).__name__}: {e}"})
        print(json.dumps({"batch": outs}))
    else:
        print(json.dumps(run_one(req["target"], req.get("args", []), req.get("kwargs", {}))))


if __name__ == "__main__":
    main()
