"""pyvc.interp -- symbolic interpreter for the Python subset (+ de-sugared
Cython) that the contracts are discharged against.

The interpreter executes the *real* AST of /repo functions.  Values may be
z3 terms; a branch on a symbolic condition forks the path.  Forking is done
by re-execution: every path is a list of decisions, `Ctx.explore` re-runs the
thunk for each feasible decision list.  Loops are unrolled (concrete trip
count), cut by an invariant from the contract, or summarised by the map rule
(element-wise independent accumulate loops).
"""
import ast
import sys
import z3

from .core import (CV, Unsupported, EngineError, INT_TYPES, is_int_ctype,
                   is_float_ctype, int_range, norm_ctype, zint, zbool, zstr,
                   zreal, simp, wrap_int, arith_type, promote, literal_ctype,
                   py_floordiv, py_mod, c_div, c_mod, is_z3)
from .heap import (Class, Obj, Func, BoundMethod, Native, Property,
                   StaticMethod, ClassMethod, Module, EnumVal, PList, PSet,
                   PDict, AbsColl, MapSummary, Opaque, SymArr, Cell, Poison,
                   SliceObj, RangeObj, HeapObj, now)

FLAG_BITS = 16


# --------------------------------------------------------------------------
# control flow signals

class ReturnEx(Exception):
    def __init__(self, value):
        self.value = value


class BreakEx(Exception):
    pass


class ContinueEx(Exception):
    pass


class Raised(Exception):
    """a Python exception raised by the interpreted program"""
    def __init__(self, exc):
        self.exc = exc      # Obj of an exception Class


class PathEnd(Exception):
    """the current path ends here (infeasible, or cut after an invariant
    preservation check)"""


# --------------------------------------------------------------------------

def has_quantifier(t):
    from .vc import has_q
    return has_q(t)


class Obligation:
    def __init__(self, name, kind, hyps, goal, path, info=None, expect="unsat"):
        self.name = name
        self.kind = kind
        self.hyps = list(hyps)
        self.goal = goal
        self.path = path
        self.info = info or {}
        self.expect = expect       # "unsat" (proof) or "sat" (vacuity/canary)
        self.verdict = None
        self.model = None
        self.backend = None
        self.time = 0.0
        self.reason = None


# {function qualname: {identifier of the pinned text: identifier of the current text}} -- filled by the loader
SPEC_RENAMES = {}


class Env:
    def __init__(self, parent=None, func=None, module=None):
        self.vars = {}
        self.parent = parent
        self.func = func
        self.module = module if module is not None else (parent.module if parent else None)
        self.ctypes = {}
        self.globals_decl = set()
        self.nonlocal_decl = set()
        self.loop_counter = [0]

    def lookup(self, name):
        e = self
        while e is not None:
            if name in e.vars:
                return e.vars[name]
            e = e.parent
        new = self._renamed(name)
        if new is not None:
            return self.lookup(new)
        raise KeyError(name)

    def find(self, name):
        e = self
        while e is not None:
            if name in e.vars:
                return e
            e = e.parent
        new = self._renamed(name)
        if new is not None:
            return self.find(new)
        return None

    def _renamed(self, name):
        """the present name of an identifier of the pinned text, if the enclosing function equals its pinned text
        up to a consistent renaming (pyvc/renames.py); None otherwise"""
        if not SPEC_RENAMES:
            return None
        e = self
        while e is not None:
            if e.func is not None:
                m = SPEC_RENAMES.get(getattr(e.func, "qualname", None))
                if m and name in m and m[name] != name:
                    return m[name]
            e = e.parent
        return None


class Explorer:
    def __init__(self):
        self.decisions = []
        self.pos = 0
        self.pending = []


class Ctx:
    """path condition, exploration stack, obligations, fresh names"""

    def __init__(self, name="vc", branch_timeout_ms=3000):
        self.name = name
        self.pc = []
        self.explorers = []
        self.obligations = []
        self.counter = {}
        self.branch_timeout_ms = branch_timeout_ms
        self.path_id = 0
        self.notes = []
        self.assumed = []          # textual record of assumptions used
        self.solver_calls = 0
        self.max_paths = 4000
        self.ghost = {}
        self.trusted = set()

    # ---- fresh symbols
    def fresh_name(self, base):
        n = self.counter.get(base, 0)
        self.counter[base] = n + 1
        return f"{base}!{n}" if n else base

    def fresh_int(self, base="i"):
        return z3.Int(self.fresh_name(base))

    def fresh_bool(self, base="b"):
        return z3.Bool(self.fresh_name(base))

    def fresh_str(self, base="s"):
        return z3.String(self.fresh_name(base))

    def fresh_real(self, base="r"):
        return z3.Real(self.fresh_name(base))

    def fresh_bv(self, base="f", bits=FLAG_BITS):
        return z3.BitVec(self.fresh_name(base), bits)

    def fresh_cv(self, ctype, base="c"):
        ctype = norm_ctype(ctype)
        if is_int_ctype(ctype):
            t = self.fresh_int(base)
            lo, hi = int_range(ctype)
            self.assume(z3.And(t >= lo, t <= hi))
            return CV(ctype, t)
        if is_float_ctype(ctype):
            return CV(ctype, self.fresh_real(base))
        raise Unsupported(f"fresh value of C type {ctype}")

    # ---- path condition
    def assume(self, cond):
        cond = simp(zbool(cond)) if not isinstance(cond, bool) else cond
        if cond is True:
            return
        if cond is False:
            raise PathEnd()
        self.pc.append(cond)

    def check_sat(self, extra=(), timeout_ms=None):
        """satisfiability of pc + extra.  An incremental solver mirrors the
        path condition (one push level per conjunct); `unknown` falls back to
        a fresh solver."""
        self.solver_calls += 1
        inc = getattr(self, "_inc", None)
        if inc is None:
            inc = self._inc = z3.Solver()
            inc.set("timeout", timeout_ms or self.branch_timeout_ms)
            self._inc_ids = []
        ids = self._inc_ids
        k = 0
        n = min(len(ids), len(self.pc))
        while k < n and ids[k] == self.pc[k].get_id():
            k += 1
        for _ in range(len(ids) - k):
            inc.pop()
        del ids[k:]
        for c in self.pc[k:]:
            inc.push()
            # quantified facts (loop invariants, array axioms) are left out of
            # feasibility queries: this over-approximates feasibility (sound --
            # obligations always carry the full path condition)
            if not has_quantifier(c):
                inc.add(c)
            ids.append(c.get_id())
        inc.push()
        for c in extra:
            inc.add(c)
        r = inc.check()
        inc.pop()
        if r != z3.unknown:
            return r
        s = z3.Solver()
        s.set("timeout", timeout_ms or self.branch_timeout_ms)
        for c in self.pc:
            if not has_quantifier(c):
                s.add(c)
        for c in extra:
            s.add(c)
        return s.check()

    def feasible(self, cond):
        r = self.check_sat([cond])
        return r != z3.unsat        # unknown counts as feasible (sound)

    def _model_valid(self):
        m = getattr(self, "_model", None)
        if m is None:
            return None
        mod, ids = m
        if len(ids) > len(self.pc):
            return None
        for k, i in enumerate(ids):
            if self.pc[k].get_id() != i:
                return None
        # conjuncts added since the model was taken must hold in it
        for c in self.pc[len(ids):]:
            if has_quantifier(c):
                continue
            try:
                if not z3.is_true(mod.eval(c, model_completion=True)):
                    return None
            except z3.Z3Exception:
                return None
        self._model = (mod, [c.get_id() for c in self.pc])
        return mod

    def _check_with_model(self, cond):
        """(feasible?, model or None) for pc + cond"""
        r = self.check_sat([cond])
        if r == z3.sat:
            try:
                return True, self._inc.model() if False else None
            except z3.Z3Exception:
                return True, None
        return r != z3.unsat, None

    # ---- forking
    def branch(self, cond):
        """decide a (possibly symbolic) condition; forks if both sides are
        feasible"""
        if isinstance(cond, CV):
            cond = cond.term
        if isinstance(cond, bool):
            return cond
        if isinstance(cond, int):
            return cond != 0
        cond = simp(zbool(cond))
        if isinstance(cond, bool):
            return cond
        ex = self.explorers[-1]
        if ex.pos < len(ex.decisions):
            d = ex.decisions[ex.pos]
            ex.pos += 1
        else:
            known = None
            mod = self._model_valid()
            if mod is not None:
                try:
                    v = mod.eval(cond, model_completion=True)
                    if z3.is_true(v):
                        known = True
                    elif z3.is_false(v):
                        known = False
                except z3.Z3Exception:
                    known = None
            if known is True:
                t, f = True, self.feasible(z3.Not(cond))
            elif known is False:
                t, f = self.feasible(cond), True
            else:
                t = self.feasible(cond)
                f = self.feasible(z3.Not(cond)) if t else True
                self._grab_model(cond if t else z3.Not(cond))
            if t and f:
                d = True
                ex.pending.append(ex.decisions[:ex.pos] + [False])
            elif t:
                d = True
            elif f:
                d = False
            else:
                raise PathEnd()
            ex.decisions.append(d)
            ex.pos += 1
        self.pc.append(cond if d else simp(z3.Not(cond)))
        return d

    def _grab_model(self, cond):
        """refresh the cached model of pc + cond (one extra solver call, only
        when no valid model is available)"""
        s = z3.Solver()
        s.set("timeout", self.branch_timeout_ms)
        for c in self.pc:
            if not has_quantifier(c):
                s.add(c)
        s.add(cond)
        if s.check() == z3.sat:
            self._model = (s.model(), [c.get_id() for c in self.pc])
        else:
            self._model = None

    def choose(self, n):
        """n-way nondeterministic choice (all alternatives explored)"""
        if n == 1:
            return 0
        ex = self.explorers[-1]
        if ex.pos < len(ex.decisions):
            d = ex.decisions[ex.pos]
            ex.pos += 1
            return d
        for k in range(n - 1, 0, -1):
            ex.pending.append(ex.decisions[:ex.pos] + [k])
        ex.decisions.append(0)
        ex.pos += 1
        return 0

    def explore(self, thunk, restore=None):
        """run thunk() for every feasible decision list.  Returns a list of
        (added_pc, outcome) where outcome is ('ok', value) | ('raise', exc) |
        ('end', None).  `restore` is called before each run."""
        ex = Explorer()
        self.explorers.append(ex)
        results = []
        base = len(self.pc)
        work = [[]]
        try:
            while work:
                dec = work.pop()
                ex.decisions = list(dec)
                ex.pos = 0
                ex.pending = []
                del self.pc[base:]
                if restore:
                    restore()
                try:
                    v = thunk()
                    out = ("ok", v)
                except Raised as r:
                    out = ("raise", r.exc)
                except PathEnd:
                    out = ("end", None)
                results.append((list(self.pc[base:]), out, list(ex.decisions)))
                work.extend(ex.pending)
                if len(results) > self.max_paths:
                    raise Unsupported("path explosion (> %d paths)" % self.max_paths)
        finally:
            self.explorers.pop()
            del self.pc[base:]
        return results

    # ---- obligations
    def oblige(self, name, goal, kind="assert", info=None):
        if isinstance(goal, CV):
            goal = goal.term
        if isinstance(goal, bool):
            g = z3.BoolVal(goal)
        else:
            g = zbool(goal)
            gs = simp(g)
            if isinstance(gs, bool):
                g = z3.BoolVal(gs)
        if z3.is_true(g) and kind in ("memory-safety", "overflow"):
            # statically discharged safety side condition (concrete operands)
            self.trivial = getattr(self, "trivial", 0) + 1
            return None
        ob = Obligation(name, kind, self.pc, g, self.path_id, info)
        self.obligations.append(ob)
        return ob

    def probe(self, name, info=None):
        """vacuity probe: the current path condition must be satisfiable"""
        ob = Obligation(name, "vacuity", self.pc, z3.BoolVal(False), self.path_id, info,
                        expect="sat")
        self.obligations.append(ob)


# --------------------------------------------------------------------------
# helpers

def assigned_names(stmts):
    """names (and subscripted / attribute base names) assigned in stmts"""
    names, subs, attrs, calls = set(), set(), set(), set()

    def target(t):
        if isinstance(t, ast.Name):
            names.add(t.id)
        elif isinstance(t, (ast.Tuple, ast.List)):
            for e in t.elts:
                target(e)
        elif isinstance(t, ast.Starred):
            target(t.value)
        elif isinstance(t, ast.Subscript):
            b = t.value
            while isinstance(b, ast.Subscript):
                b = b.value
            if isinstance(b, ast.Name):
                subs.add(b.id)
            elif isinstance(b, ast.Attribute):
                attrs.add(ast.unparse(b))
        elif isinstance(t, ast.Attribute):
            attrs.add(ast.unparse(t))

    for s in stmts:
        for n in ast.walk(s):
            if isinstance(n, ast.Assign):
                for t in n.targets:
                    target(t)
            elif isinstance(n, (ast.AugAssign, ast.AnnAssign)):
                if not (isinstance(n, ast.AnnAssign) and n.value is None):
                    target(n.target)
            elif isinstance(n, (ast.For, ast.AsyncFor)):
                target(n.target)
            elif isinstance(n, ast.With):
                for it in n.items:
                    if it.optional_vars is not None:
                        target(it.optional_vars)
            elif isinstance(n, ast.NamedExpr):
                target(n.target)
            elif isinstance(n, ast.Call) and isinstance(n.func, ast.Attribute):
                calls.add(ast.unparse(n.func))
    return names, subs, attrs, calls


class Interp:
    def __init__(self, ctx, loader):
        self.ctx = ctx
        self.loader = loader
        self.contracts = {}         # qualname -> contract dict (for loops / call sites)
        self.call_contracts = {}    # qualname -> callable(interp, func, args, kwargs)
        self.builtins = {}
        self.depth = 0
        self.ghost = {}
        self.map_mode = []          # stack of map-body frames
        self.cy_flags_default = {"boundscheck": True, "wraparound": True,
                                 "cdivision": False, "cpow": False}
        self.overflow_checks = True
        self.current_func = []
        from . import natives
        natives.install(self)

    # ------------------------------------------------------------------
    # exceptions

    def exc_class(self, name):
        return self.builtins[name]

    def make_exc(self, name, *args):
        cls = self.builtins[name] if isinstance(name, str) else name
        return Obj(cls, {"args": tuple(args)})

    def throw(self, name, *args):
        raise Raised(self.make_exc(name, *args))

    # ------------------------------------------------------------------
    # truthiness

    def truth(self, v):
        if isinstance(v, CV):
            v = v.term
            if isinstance(v, (int, bool)):
                return v != 0
            if isinstance(v, z3.BoolRef):
                return v
            if v.is_real():
                return v != 0
            return v != 0
        if v is None:
            return False
        if isinstance(v, (bool, int, float, str, tuple, bytes)):
            return bool(v)
        if isinstance(v, z3.BoolRef):
            return v
        if isinstance(v, z3.ArithRef):
            return v != 0
        if isinstance(v, z3.SeqRef):
            return z3.Length(v) != 0
        if isinstance(v, z3.BitVecRef):
            return v != 0
        if isinstance(v, EnumVal):
            if v.cls.kind == "flag":
                return self.truth(v.value)
            return True
        if isinstance(v, (PList, PSet)):
            if v.summary is not None:
                return v.summary.nonempty
            return len(v.items) > 0
        if isinstance(v, PDict):
            return len(v.items) > 0
        if isinstance(v, Obj):
            f, _ = v.cls.lookup("__bool__")
            if f is not None:
                return self.truth(self.call(BoundMethod(f, v), [], {}))
            f, _ = v.cls.lookup("__len__")
            if f is not None:
                n = self.call(BoundMethod(f, v), [], {})
                return self.compare("!=", n, 0)
            return True
        if isinstance(v, (Func, Class, Native, BoundMethod, Module, SliceObj, Opaque)):
            return True
        if isinstance(v, SymArr):
            raise Unsupported("truth value of an array")
        raise Unsupported(f"truth value of {type(v).__name__}")

    def to_bool(self, v):
        return self.ctx.branch(self.truth(v))

    # ------------------------------------------------------------------
    # calls

    def call(self, f, args, kwargs):
        if isinstance(f, Native):
            return f.fn(self, list(args), dict(kwargs))
        if isinstance(f, BoundMethod):
            return self.call(f.func, [f.self_obj] + list(args), kwargs)
        if isinstance(f, StaticMethod):
            return self.call(f.func, args, kwargs)
        if isinstance(f, Func):
            cc = self.call_contracts.get(f.qualname)
            if cc is not None and (f.qualname not in self.current_func
                                   or f.qualname in getattr(self, "recursive_contracts", ())):
                if self.current_func or f.qualname not in getattr(self, "recursive_contracts", ()):
                    return cc(self, f, list(args), dict(kwargs))
            return self.call_func(f, list(args), dict(kwargs))
        if isinstance(f, Class):
            return self.instantiate(f, list(args), dict(kwargs))
        if isinstance(f, Obj):
            m, _ = f.cls.lookup("__call__")
            if m is not None:
                return self.call(BoundMethod(m, f), args, kwargs)
        raise Unsupported(f"call of {f!r}")

    def instantiate(self, cls, args, kwargs):
        if cls.kind == "builtin":
            ctor = cls.ns.get("__construct__")
            if ctor is None:
                raise Unsupported(f"constructing builtin {cls.name}")
            return ctor.fn(self, args, kwargs)
        if cls.kind in ("enum", "flag", "intenum"):
            # Enum lookup by value
            v = args[0]
            if isinstance(v, EnumVal):
                v = v.value
            if isinstance(v, int) and not isinstance(v, bool):
                for m in cls.members.values():
                    if m.value == v:
                        return m
                if cls.kind == "flag":
                    return EnumVal(cls, v)
                self.throw("ValueError", f"{v} is not a valid {cls.name}")
            return EnumVal(cls, v)
        obj = Obj(cls, {})
        if cls.kind == "exception":
            obj.attrs["args"] = tuple(args)
        init, owner = cls.lookup("__init__")
        if init is not None:
            self.call(BoundMethod(init, obj), args, kwargs)
        elif args and cls.kind != "exception":
            raise Unsupported(f"{cls.name}() takes no arguments")
        return obj

    def bind_args(self, f, args, kwargs, env):
        a = f.node.args
        params = [p.arg for p in a.posonlyargs + a.args]
        defaults = a.defaults
        ndef = len(defaults)
        npar = len(params)
        args = list(args)
        bound = {}
        for i, p in enumerate(params):
            if i < len(args):
                bound[p] = args[i]
            elif p in kwargs:
                bound[p] = kwargs.pop(p)
            else:
                di = i - (npar - ndef)
                if di >= 0:
                    bound[p] = self.eval(defaults[di], f.env)
                else:
                    self.throw("TypeError", f"missing argument {p}")
        extra = args[npar:]
        if a.vararg is not None:
            bound[a.vararg.arg] = tuple(extra)
        elif extra:
            self.throw("TypeError", f"{f.qualname}() takes {npar} positional arguments")
        for p, d in zip(a.kwonlyargs, a.kw_defaults):
            if p.arg in kwargs:
                bound[p.arg] = kwargs.pop(p.arg)
            elif d is not None:
                bound[p.arg] = self.eval(d, f.env)
            else:
                self.throw("TypeError", f"missing keyword argument {p.arg}")
        if a.kwarg is not None:
            bound[a.kwarg.arg] = PDict(kwargs)
        elif kwargs:
            self.throw("TypeError", f"unexpected keyword arguments {list(kwargs)}")
        # declared C types of parameters (cy2py puts them into annotations)
        for p in a.posonlyargs + a.args + a.kwonlyargs:
            ct = self.ann_ctype(p.annotation)
            if ct is not None:
                env.ctypes[p.arg] = ct
        for k, v in bound.items():
            self.store_name(env, k, v, param=True)
        # fused types: bind the type name to the specialisation selected by the argument
        fused = getattr(f.module, "fused", None) if f.module is not None else None
        if fused:
            from .heap import CTypeObj
            for p in a.posonlyargs + a.args + a.kwonlyargs:
                ct = self.ann_ctype(p.annotation)
                if ct is None:
                    continue
                base = ct.replace("const ", "").split("[")[0].strip()
                if base in fused:
                    val = env.vars.get(p.arg)
                    actual = val.ctype if isinstance(val, (SymArr, CV)) else None
                    if actual is not None:
                        env.vars[base] = CTypeObj.get(norm_ctype(actual))

    def ann_ctype(self, ann):
        if ann is None:
            return None
        if isinstance(ann, ast.Constant) and isinstance(ann.value, str):
            return ann.value
        return None

    def call_func(self, f, args, kwargs):
        if self.depth > 60:
            raise Unsupported("interpreter recursion depth")
        env = Env(parent=f.env, func=f, module=f.module)
        self.bind_args(f, args, kwargs, env)
        self.depth += 1
        self.current_func.append(f.qualname)
        try:
            self.exec_block(f.node.body, env)
            ret = None
        except ReturnEx as r:
            ret = r.value
        finally:
            self.depth -= 1
            self.current_func.pop()
        rt = self.ann_ctype(f.node.returns)
        if rt is not None and ret is not None:
            ret = self.convert(rt, ret, what=f"return of {f.qualname}")
        return ret

    # ------------------------------------------------------------------
    # cython flags

    def cyflag(self, env, name):
        e = env
        while e is not None:
            if e.func is not None:
                fl = e.func.attrs.get("cyflags", {})
                if name in fl:
                    return fl[name]
                if e.func.cls is not None and name in getattr(e.func.cls, "cyflags", {}):
                    return e.func.cls.cyflags[name]
                break
            e = e.parent
        mod = env.module
        if mod is not None and name in getattr(mod, "cyflags", {}):
            return mod.cyflags[name]
        return self.cy_flags_default[name]

    def is_cy(self, env):
        return env.module is not None and getattr(env.module, "is_cython", False)

    # ------------------------------------------------------------------
    # C conversions

    def convert(self, ctype, v, what="store"):
        """convert a value to declared type `ctype` (C assignment)"""
        ctype = norm_ctype(ctype)
        mod_aliases = self._aliases()
        ctype = mod_aliases.get(ctype, ctype)
        if ctype in ("object", "str", "bytes", "bytearray", "list", "dict", "tuple",
                     "np.ndarray", "ndarray", "bool", "set"):
            if isinstance(v, CV):
                return v.term
            return v
        if "[" in ctype and (":" in ctype):
            # memoryview: a typed view on the same storage
            if v is None:
                return v
            from . import natives
            base = ctype.split("[")[0].strip()
            base = self._aliases().get(base, base)
            if not isinstance(v, SymArr):
                v = natives.as_memoryview(self, ctype, v)
            nd = ctype.count(":")
            if nd != len(v.shape):
                self.throw("ValueError", "Buffer has wrong number of dimensions")
            return v.view(memview=True, ctype=base if (is_int_ctype(base) or is_float_ctype(base)) else v.ctype)
        if "[" in ctype:
            return v
        if ctype.endswith("*"):
            return v
        if is_int_ctype(ctype):
            if isinstance(v, CV):
                if v.ctype == ctype:
                    return CV(ctype, v.term)
                if is_float_ctype(v.ctype):
                    # float -> int: truncation toward zero
                    r = zreal(v.term)
                    t = z3.If(r >= 0, z3.ToInt(r), -z3.ToInt(-r))
                    return CV(ctype, wrap_int(ctype, t))
                return CV(ctype, wrap_int(ctype, v.term))
            if isinstance(v, EnumVal):
                v = v.value
            if isinstance(v, (bool, int)) or (is_z3(v) and (z3.is_int(v) or z3.is_bool(v))):
                # Python int -> C int: OverflowError when out of range
                if ctype == "bint":
                    return CV(ctype, wrap_int("bint", v))
                lo, hi = int_range(ctype)
                t = v if isinstance(v, int) else zint(v)
                inr = simp(z3.And(zint(t) >= lo, zint(t) <= hi))
                if not self.ctx.branch(inr):
                    self.throw("OverflowError", f"value too large to convert to {ctype}")
                return CV(ctype, int(v) if isinstance(v, (bool, int)) else t)
            if is_z3(v) and z3.is_real(v):
                t = z3.If(v >= 0, z3.ToInt(v), -z3.ToInt(-v))
                return CV(ctype, wrap_int(ctype, t))
            if v is None:
                self.throw("TypeError", "an integer is required")
            raise Unsupported(f"{what}: conversion of {v!r} to {ctype}")
        if is_float_ctype(ctype):
            if isinstance(v, CV):
                return CV(ctype, zreal(v.term))
            return CV(ctype, zreal(v))
        # unknown (class) type: pass through
        if isinstance(v, CV):
            return v
        return v

    def _aliases(self):
        return getattr(self, "ctype_aliases", {})

    def unC(self, v):
        """C value -> Python object"""
        if isinstance(v, CV):
            return v.term
        return v

    # ------------------------------------------------------------------
    # names

    def store_name(self, env, name, v, param=False):
        target = env
        if name in env.globals_decl:
            while target.parent is not None:
                target = target.parent
        elif name in env.nonlocal_decl:
            t = env.parent.find(name) if env.parent else None
            if t is not None:
                target = t
        ct = target.ctypes.get(name)
        if ct is not None:
            v = self.convert(ct, v, what=f"store to {name}")
        elif isinstance(v, CV):
            v = v.term
        target.vars[name] = v

    def load_name(self, env, name):
        try:
            v = env.lookup(name)
        except KeyError:
            if name in self.builtins:
                return self.builtins[name]
            e = env
            while e is not None and name not in e.ctypes:
                e = e.parent
            if e is not None:
                ct = norm_ctype(e.ctypes[name])
                ct = self._aliases().get(ct, ct)
                if is_int_ctype(ct) or is_float_ctype(ct):
                    # a declared C local read before any assignment: undefined behaviour
                    self.ctx.oblige(self.obname(f"initialised_before_use[{name}]", getattr(self, "cur_node", None)), False,
                                    "memory-safety", {"why": "read of an uninitialised C variable"})
                    v = self.ctx.fresh_cv(ct, name + "_uninit")
                    e.vars[name] = v
                    return v
            if not getattr(env, "is_spec", False) and "NameError" in self.builtins:
                # Python semantics: reading a name that was never bound raises NameError /
                # UnboundLocalError at run time (an unexpected exception for every contract)
                self.throw("NameError", f"name '{name}' is not defined")
            raise Unsupported(f"unknown name {name}")
        if isinstance(v, Poison):
            raise Unsupported(f"read of {name}: {v.why}")
        if isinstance(v, LazyImport):
            v = v.resolve(self)
            e = env.find(name)
            e.vars[name] = v
        return v

    # ------------------------------------------------------------------
    # statements

    def exec_block(self, stmts, env):
        for s in stmts:
            self.exec_stmt(s, env)

    def exec_stmt(self, s, env):
        m = getattr(self, "st_" + type(s).__name__, None)
        if m is None:
            raise Unsupported(f"statement {type(s).__name__} at line {getattr(s, 'lineno', '?')}")
        return m(s, env)

    def st_Expr(self, s, env):
        if isinstance(s.value, ast.Constant):
            return
        self.eval(s.value, env)

    def st_Pass(self, s, env):
        pass

    def st_Global(self, s, env):
        env.globals_decl.update(s.names)

    def st_Nonlocal(self, s, env):
        env.nonlocal_decl.update(s.names)

    def st_Import(self, s, env):
        for a in s.names:
            name = a.asname or a.name.split(".")[0]
            env.vars[name] = self.loader.import_module(self, a.name if a.asname else a.name.split(".")[0])

    def st_ImportFrom(self, s, env):
        for a in s.names:
            env.vars[a.asname or a.name] = LazyImport(s.module, a.name, s.level, env.module)

    def st_Return(self, s, env):
        raise ReturnEx(self.eval(s.value, env) if s.value is not None else None)

    def st_Break(self, s, env):
        raise BreakEx()

    def st_Continue(self, s, env):
        raise ContinueEx()

    def st_Assert(self, s, env):
        if not self.to_bool(self.eval(s.test, env)):
            self.throw("AssertionError")

    def st_Delete(self, s, env):
        for t in s.targets:
            if isinstance(t, ast.Name):
                e = env.find(t.id)
                if e is not None:
                    del e.vars[t.id]
            elif isinstance(t, ast.Subscript):
                obj = self.eval(t.value, env)
                idx = self.eval_index(t.slice, env)
                self.delitem(obj, idx)
            else:
                raise Unsupported("del target")

    def st_FunctionDef(self, s, env):
        qual = s.name
        if env.func is not None:
            qual = env.func.qualname + ".<locals>." + s.name
        elif getattr(env, "class_name", None):
            qual = env.class_name + "." + s.name
        prefix = getattr(env.module, "relpath", "?") if env.module else "?"
        f = Func(s, env, f"{prefix}::{qual}", env.module, cls=getattr(env, "cls_obj", None))
        v = f
        for d in reversed(s.decorator_list):
            dec = self.eval(d, env)
            v = self.call(dec, [v], {})
        env.vars[s.name] = v

    def st_ClassDef(self, s, env):
        bases = [self.eval(b, env) for b in s.bases]
        bases = [b for b in bases if isinstance(b, Class)]
        cenv = Env(parent=env, module=env.module)
        cenv.class_name = (getattr(env, "class_name", None) + "." if getattr(env, "class_name", None) else "") + s.name
        kind = "user"
        for b in bases:
            if b.kind in ("exception", "enum", "flag", "intenum"):
                kind = b.kind
            if b.kind == "enumbase":
                kind = b.ns["__enumkind__"]
        cls = Class(s.name, bases, cenv.vars, module=env.module, kind=kind)
        cenv.cls_obj = cls
        cenv.func = None
        self.exec_block(s.body, cenv)
        if kind in ("enum", "flag", "intenum"):
            self._finish_enum(cls)
        v = cls
        for d in reversed(s.decorator_list):
            dec = self.eval(d, env)
            v = self.call(dec, [v], {})
        env.vars[s.name] = v

    def _finish_enum(self, cls):
        last = 0
        for k, v in list(cls.ns.items()):
            if k.startswith("_") or isinstance(v, (Func, Property, Native, StaticMethod, ClassMethod, Class)):
                continue
            if isinstance(v, AutoVal):
                if cls.kind == "flag":
                    val = 1
                    while val <= last:
                        val <<= 1
                else:
                    val = last + 1
            elif isinstance(v, CV):
                val = v.term
            elif isinstance(v, EnumVal):
                val = v.value
            elif isinstance(v, int):
                val = v
            else:
                continue
            if isinstance(val, int):
                last = max(last, val)
            m = EnumVal(cls, val, k)
            cls.members[k] = m
            cls.ns[k] = m

    def st_If(self, s, env):
        if self.to_bool(self.eval(s.test, env)):
            self.exec_block(s.body, env)
        else:
            self.exec_block(s.orelse, env)

    def st_Assign(self, s, env):
        v = self.eval(s.value, env)
        for t in s.targets:
            self.assign(t, v, env)

    def st_AnnAssign(self, s, env):
        ct = self.ann_ctype(s.annotation)
        if ct is not None and isinstance(s.target, ast.Name):
            ct = norm_ctype(ct)
            env.ctypes[s.target.id] = ct
            if s.value is None:
                base = ct.split("[")[0].strip()
                if "[" in ct and ":" not in ct:
                    # fixed-size C array  T[N]
                    n = ct[ct.index("[") + 1:ct.index("]")]
                    nval = self.eval(ast.parse(n, mode="eval").body, env)
                    arr = SymArr(s.target.id, base, [self.unC(nval)])
                    env.vars[s.target.id] = arr
                return
        if s.value is not None:
            self.assign(s.target, self.eval(s.value, env), env)

    def st_AugAssign(self, s, env):
        t = s.target
        if isinstance(t, ast.Name):
            cur = self.load_name(env, t.id)
            rhs = self.eval(s.value, env)
            new = self.inplace(s.op, cur, rhs, env, s)
            self.store_name(env, t.id, new)
        elif isinstance(t, ast.Subscript):
            obj = self.eval(t.value, env)
            idx = self.eval_index(t.slice, env)
            cur = self.getitem(obj, idx, env)
            rhs = self.eval(s.value, env)
            self.setitem(obj, idx, self.binop(s.op, cur, rhs, env, s), env)
        elif isinstance(t, ast.Attribute):
            obj = self.eval(t.value, env)
            cur = self.getattr(obj, t.attr)
            rhs = self.eval(s.value, env)
            self.setattr(obj, t.attr, self.inplace(s.op, cur, rhs, env, s))
        else:
            raise Unsupported("augmented assignment target")

    def inplace(self, op, cur, rhs, env, node):
        if isinstance(cur, PList) and isinstance(op, ast.Add):
            self.list_extend(cur, rhs)
            return cur
        if isinstance(cur, Obj):
            name = {"Add": "__iadd__", "Sub": "__isub__", "BitOr": "__ior__",
                    "BitAnd": "__iand__", "Mult": "__imul__"}.get(type(op).__name__)
            if name:
                m, _ = cur.cls.lookup(name)
                if m is not None:
                    return self.call(BoundMethod(m, cur), [rhs], {})
        if isinstance(cur, PSet) and isinstance(op, ast.BitOr):
            from . import natives
            natives.set_update(self, cur, rhs)
            return cur
        return self.binop(op, cur, rhs, env, node)

    def assign(self, t, v, env):
        if isinstance(t, ast.Name):
            self.store_name(env, t.id, v)
        elif isinstance(t, (ast.Tuple, ast.List)):
            items = self.iter_concrete(v)
            if any(isinstance(e, ast.Starred) for e in t.elts):
                raise Unsupported("starred assignment")
            if len(items) != len(t.elts):
                self.throw("ValueError", "unpack length mismatch")
            for e, x in zip(t.elts, items):
                self.assign(e, x, env)
        elif isinstance(t, ast.Subscript):
            obj = self.eval(t.value, env)
            idx = self.eval_index(t.slice, env)
            self.cur_node = t
            self.setitem(obj, idx, v, env)
        elif isinstance(t, ast.Attribute):
            obj = self.eval(t.value, env)
            self.setattr(obj, t.attr, v)
        else:
            raise Unsupported(f"assignment target {type(t).__name__}")

    def st_Raise(self, s, env):
        if s.exc is None:
            cur = getattr(env, "_active_exc", None)
            e = env
            while cur is None and e is not None:
                cur = getattr(e, "_active_exc", None)
                e = e.parent
            if cur is None:
                self.throw("RuntimeError", "No active exception to reraise")
            raise Raised(cur)
        v = self.eval(s.exc, env)
        if isinstance(v, Class):
            v = self.instantiate(v, [], {})
        if not isinstance(v, Obj):
            raise Unsupported("raise of non-exception")
        raise Raised(v)

    def st_Try(self, s, env):
        try:
            try:
                self.exec_block(s.body, env)
            except Raised as r:
                handled = False
                for h in s.handlers:
                    if self.exc_matches(r.exc, h.type, env):
                        handled = True
                        if h.name:
                            env.vars[h.name] = r.exc
                        prev = getattr(env, "_active_exc", None)
                        env._active_exc = r.exc
                        try:
                            self.exec_block(h.body, env)
                        finally:
                            env._active_exc = prev
                        break
                if not handled:
                    raise
            else:
                self.exec_block(s.orelse, env)
        except (Raised, ReturnEx, BreakEx, ContinueEx):
            # finally runs, then the pending signal continues
            self.exec_block(s.finalbody, env)
            raise
        except PathEnd:
            raise
        else:
            self.exec_block(s.finalbody, env)

    def exc_matches(self, exc, tnode, env):
        if tnode is None:
            return True
        t = self.eval(tnode, env)
        ts = t if isinstance(t, tuple) else (t,)
        for c in ts:
            if isinstance(c, Class) and exc.cls.issubclass(c):
                return True
        return False

    def st_With(self, s, env):
        mgrs = []
        for it in s.items:
            m = self.eval(it.context_expr, env)
            if isinstance(m, Native) or m is None:
                v = None
            else:
                ent = self.getattr(m, "__enter__")
                v = self.call(ent, [], {})
            if it.optional_vars is not None:
                self.assign(it.optional_vars, v, env)
            mgrs.append(m)
        try:
            self.exec_block(s.body, env)
        except Raised as r:
            for m in reversed(mgrs):
                if isinstance(m, (Obj,)):
                    self.call(self.getattr(m, "__exit__"), [r.exc.cls, r.exc, None], {})
            raise
        except (ReturnEx, BreakEx, ContinueEx):
            for m in reversed(mgrs):
                if isinstance(m, (Obj,)):
                    self.call(self.getattr(m, "__exit__"), [None, None, None], {})
            raise
        else:
            for m in reversed(mgrs):
                if isinstance(m, (Obj,)):
                    self.call(self.getattr(m, "__exit__"), [None, None, None], {})

    # ------------------------------------------------------------------
    # loops

    def loop_contract(self, env):
        """contract of the next loop of the current function (by ordinal)"""
        e = env
        while e is not None and e.func is None:
            e = e.parent
        if e is None:
            return None, None, None
        # the counter lives in the function's own frame
        fr = env
        while fr.parent is not None and fr.func is e.func and fr.parent.func is e.func:
            fr = fr.parent
        return e.func.qualname, fr, e.func

    def next_loop_spec(self, s, env):
        qual, fr, func = self.loop_contract(env)
        if qual is None:
            return None, None
        key = getattr(s, "_loop_ordinal", None)
        if key is None:
            # ordinal = position of this loop among all loops of the function,
            # in source order
            loops = [n for n in ast.walk(func.node) if isinstance(n, (ast.For, ast.While))]
            loops.sort(key=lambda n: (n.lineno, n.col_offset))
            for i, n in enumerate(loops):
                n._loop_ordinal = i
            key = s._loop_ordinal
        c = self.contracts.get(qual)
        name = f"{qual}::loop#{key}"
        if c is None:
            return None, name
        return (c.get("loops") or {}).get(key), name

    def st_While(self, s, env):
        spec, lname = self.next_loop_spec(s, env)
        if spec is None or spec.get("unroll"):
            limit = (spec or {}).get("unroll", 64)
            n = 0
            while True:
                c = self.eval(s.test, env)
                if not self.to_bool(c):
                    break
                n += 1
                if n > limit:
                    raise Unsupported(f"while loop at line {s.lineno} needs an invariant (unrolled {limit}x)")
                try:
                    self.exec_block(s.body, env)
                except BreakEx:
                    return
                except ContinueEx:
                    continue
            self.exec_block(s.orelse, env)
            return
        self.invariant_loop(s, env, spec, lname, kind="while")

    def st_For(self, s, env):
        it = self.eval(s.iter, env)
        if isinstance(it, Obj):
            m, _ = it.cls.lookup("__iter__")
            if m is not None:
                it = self.call(BoundMethod(m, it), [], {})
        spec, lname = self.next_loop_spec(s, env)
        # abstract collections: map rule
        src = self.abs_source(it)
        if src is not None:
            return self.map_loop(s, env, src, spec, lname)
        if isinstance(it, RangeObj):
            conc = all(isinstance(self.unC(x), int) for x in (it.start, it.stop, it.step))
            if conc and (spec is None or spec.get("unroll")):
                rng = range(self.unC(it.start), self.unC(it.stop), self.unC(it.step))
                if len(rng) > 300:
                    raise Unsupported("long concrete range without invariant")
                items = [CV(it.ctype, k) if getattr(it, "ctype", None) else k for k in rng]
                return self.concrete_for(s, env, items)
            if spec is None:
                raise Unsupported(f"for loop at line {s.lineno} over a symbolic range needs an invariant ({lname})")
            return self.invariant_loop(s, env, spec, lname, kind="range", rng=it)
        if isinstance(it, EnumArr) or (isinstance(it, SymArr) and not isinstance(simp(it.shape[0]), int)):
            if spec is None:
                raise Unsupported(f"for loop at line {s.lineno} over a symbolic array needs an invariant ({lname})")
            arr = it.arr if isinstance(it, EnumArr) else it
            rng = RangeObj(0, self.unC(arr.shape[0]) if not isinstance(arr.shape[0], CV) else arr.shape[0].term, 1)
            return self.invariant_loop(s, env, spec, lname, kind="range", rng=rng,
                                       elem_of=(arr, isinstance(it, EnumArr), getattr(it, "start", 0)))
        items = self.iter_concrete(it)
        return self.concrete_for(s, env, items)

    def concrete_for(self, s, env, items):
        for x in items:
            self.assign(s.target, x, env)
            try:
                self.exec_block(s.body, env)
            except BreakEx:
                return
            except ContinueEx:
                continue
        self.exec_block(s.orelse, env)

    def abs_source(self, it):
        if isinstance(it, AbsColl):
            return it
        if isinstance(it, AbsIter):
            return it.coll
        if isinstance(it, (PList, PSet)) and it.summary is not None:
            return it
        return None

    # -- havoc ------------------------------------------------------------

    def havoc_value(self, name, v, env):
        cx = self.ctx
        ct = env.ctypes.get(name) if env is not None else None
        if ct is not None:
            ct = norm_ctype(ct)
            ct = self._aliases().get(ct, ct)
            if is_int_ctype(ct) or is_float_ctype(ct):
                return cx.fresh_cv(ct, name)
        if isinstance(v, CV):
            return cx.fresh_cv(v.ctype, name)
        if isinstance(v, bool) or isinstance(v, z3.BoolRef):
            return cx.fresh_bool(name)
        if isinstance(v, int) or (is_z3(v) and z3.is_int(v)):
            return cx.fresh_int(name)
        if is_z3(v) and z3.is_real(v) or isinstance(v, float):
            return cx.fresh_real(name)
        if isinstance(v, (str, z3.SeqRef)):
            return cx.fresh_str(name)
        if isinstance(v, SymArr):
            v.arr = v.fresh_term()
            return v
        if isinstance(v, z3.BitVecRef):
            return cx.fresh_bv(name, v.size())
        if isinstance(v, EnumVal):
            if v.cls.kind == "flag":
                return EnumVal(v.cls, cx.fresh_bv(name))
            t = cx.fresh_int(name)
            vals = [m.value for m in v.cls.members.values()]
            cx.assume(z3.Or([t == x for x in vals]))
            return EnumVal(v.cls, t)
        raise Unsupported(f"cannot havoc {name} = {v!r}")

    def havoc_targets(self, s, env, spec):
        names, subs, attrs, calls = assigned_names(s.body + s.orelse)
        extra = spec.get("modifies", [])
        for a in attrs:
            if a not in extra and not spec.get("attrs_ok"):
                raise Unsupported(f"loop modifies attribute {a}; list it in the loop contract 'modifies'")
        hav = []
        for n in sorted(names | subs):
            e = env.find(n)
            if e is None:
                if n in env.ctypes:
                    continue
                continue
            hav.append(n)
        return hav, extra

    def do_havoc(self, hav, extra, env, skip=()):
        for n in hav:
            if n in skip:
                continue
            e = env.find(n)
            cur = e.vars[n]
            if isinstance(cur, Poison):
                continue
            e.vars[n] = self.havoc_value(n, cur, e)
        for a in extra:
            node = ast.parse(a, mode="eval").body
            if isinstance(node, ast.Attribute):
                obj = self.eval(node.value, env)
                cur = self.getattr(obj, node.attr)
                if isinstance(cur, SymArr):
                    # an attribute assignment rebinds: the loop may leave a *new* array there
                    # (other length, other contents); the old array object is not touched
                    dims = []
                    for k, d in enumerate(cur.shape):
                        if k == 0 or not isinstance(simp(d), int):
                            nd = self.ctx.fresh_int(f"{node.attr}_n{k}")
                            self.ctx.assume(nd >= 0)
                            dims.append(nd)
                        else:
                            dims.append(d)
                    new = SymArr(cur.name, cur.ctype, dims, memview=cur.memview)
                    self.setattr(obj, node.attr, new)
                    continue
                self.setattr(obj, node.attr, self.havoc_value(node.attr, cur, None))
            elif isinstance(node, ast.Name):
                e = env.find(node.id)
                e.vars[node.id] = self.havoc_value(node.id, e.vars[node.id], e)

    def eval_spec_exprs(self, exprs, env, extra_vars=None):
        out = []
        for x in exprs:
            out.append((x, self.eval_spec(x, env, extra_vars)))
        return out

    def eval_spec(self, x, env, extra_vars=None):
        """evaluate a contract expression (string or callable) in env"""
        if callable(x):
            return x(self, env)
        senv = Env(parent=env, module=env.module)
        senv.func = None
        senv.is_spec = True
        if extra_vars:
            senv.vars.update(extra_vars)
        node = ast.parse(x.strip(), mode="eval").body
        saved = self.overflow_checks
        self.overflow_checks = False
        try:
            return self.truth(self.eval(node, senv))
        finally:
            self.overflow_checks = saved

    def invariant_loop(self, s, env, spec, lname, kind, rng=None, arr=None, elem_of=None):
        cx = self.ctx
        inv = spec.get("invariant", [])
        hav, extra = self.havoc_targets(s, env, spec)
        tname = None
        elem_names = ()
        if kind == "range":
            if elem_of is not None:
                # for x in arr / for i, x in enumerate(arr): iterate a hidden index;
                # the invariant may refer to it as `_idx` (and to `i` for enumerate)
                e_arr, is_enum, e_start = elem_of
                if is_enum:
                    if not (isinstance(s.target, ast.Tuple) and len(s.target.elts) == 2
                            and all(isinstance(e, ast.Name) for e in s.target.elts)):
                        raise Unsupported("enumerate loop target")
                    tname = s.target.elts[0].id
                    elem_names = (s.target.elts[1].id,)
                    if e_start != 0:
                        raise Unsupported("enumerate with start")
                else:
                    raise Unsupported("direct iteration over a symbolic array (use an index loop)")
            elif not isinstance(s.target, ast.Name):
                raise Unsupported("range loop with tuple target")
            else:
                tname = s.target.id
            start, stop, step = self.unC(rng.start), self.unC(rng.stop), self.unC(rng.step)
            if not isinstance(step, int) or (step < 1 and step != -1):
                raise Unsupported("symbolic range with a step other than a positive constant or -1")
            tct = env.ctypes.get(tname)

            def mk_idx(v):
                if tct is not None:
                    return CV(self._aliases().get(norm_ctype(tct), norm_ctype(tct)), v)
                return v
            # empty range => body not executed
            nonempty = (zint(start) < zint(stop)) if step >= 1 else (zint(start) > zint(stop))
            last = zint(stop)

            def head_bounds(i):
                if step == 1:
                    return z3.And(zint(start) <= i, i <= z3.If(zint(start) <= zint(stop), zint(stop), zint(start)))
                if step > 1:
                    # values start, start+step, ...: the first one >= stop ends the loop
                    return z3.And(zint(start) <= i, (i - zint(start)) % step == 0,
                                  z3.Or(i < zint(stop) + step, i == zint(start)))
                return z3.And(zint(start) >= i, i >= z3.If(zint(start) >= zint(stop), zint(stop), zint(start)))

        # (1) invariant holds on entry
        if kind == "range":
            saved_t = env.find(tname).vars.get(tname) if env.find(tname) else None
            e0 = env.find(tname) or env
            e0.vars[tname] = mk_idx(start)
        for k, (txt, g) in enumerate(self.eval_spec_exprs(inv, env)):
            cx.oblige(f"{lname}::inv_entry#{k}", g, "loop-entry", {"expr": str(txt)})
        which = cx.choose(2)
        self.do_havoc([h for h in hav if h not in elem_names], extra, env, skip=(tname,) if tname else ())
        if which == 0:
            # (2) arbitrary iteration
            if kind == "range":
                i = cx.fresh_int(tname)
                cx.assume(head_bounds(i))
                cx.assume(i < zint(stop) if step >= 1 else i > zint(stop))
                e0.vars[tname] = mk_idx(i)
                if tct is not None:
                    lo, hi = int_range(mk_idx(0).ctype)
                    cx.assume(z3.And(i >= lo, i <= hi))
            for txt, g in self.eval_spec_exprs(inv, env):
                cx.assume(g)
            dec0 = None
            if kind == "while":
                c = self.eval(s.test, env)
                if not self.to_bool(c):
                    raise PathEnd()
                if spec.get("decreases"):
                    dec0 = self.eval_spec_term(spec["decreases"], env)
                    cx.oblige(f"{lname}::decreases_nonneg", zint(dec0) >= 0, "termination")
            cx.probe(f"{lname}::body_reachable")
            if elem_of is not None:
                self.cur_node = s
                self.store_name(env, elem_names[0], self.getitem(elem_of[0], e0.vars[tname], env))
            try:
                self.exec_block(s.body, env)
            except ContinueEx:
                pass
            except BreakEx:
                # leaves the loop with the current state
                return
            if kind == "range":
                e0.vars[tname] = mk_idx(i + step)
            for k, (txt, g) in enumerate(self.eval_spec_exprs(inv, env)):
                cx.oblige(f"{lname}::inv_preserved#{k}", g, "loop-preserve", {"expr": str(txt)})
            if dec0 is not None:
                dec1 = self.eval_spec_term(spec["decreases"], env)
                cx.oblige(f"{lname}::decreases", zint(dec1) < zint(dec0), "termination")
            raise PathEnd()
        else:
            # (3) loop exit
            if kind == "range":
                i = cx.fresh_int(tname)
                cx.assume(head_bounds(i))
                cx.assume(i >= zint(stop) if step >= 1 else i <= zint(stop))
                e0.vars[tname] = mk_idx(i)
                for txt, g in self.eval_spec_exprs(inv, env):
                    cx.assume(g)
                # Python leaves the last value in the loop variable
                if saved_t is not None or True:
                    e0.vars[tname] = Poison("loop variable after a symbolic loop")
            else:
                for txt, g in self.eval_spec_exprs(inv, env):
                    cx.assume(g)
                c = self.eval(s.test, env)
                if self.to_bool(c):
                    raise PathEnd()
            self.exec_block(s.orelse, env)

    def eval_spec_term(self, x, env):
        if callable(x):
            return x(self, env)
        senv = Env(parent=env, module=env.module)
        senv.func = None
        node = ast.parse(x.strip(), mode="eval").body
        saved = self.overflow_checks
        self.overflow_checks = False
        try:
            return self.unC(self.eval(node, senv))
        finally:
            self.overflow_checks = saved

    # -- map rule ---------------------------------------------------------

    def map_loop(self, s, env, src, spec, lname):
        """element-wise independent loop over an abstract collection.
        Side condition checked while executing the body: the body reads the
        element and loop-invariant state only, and the only effect on
        pre-existing state is append/add on accumulator containers."""
        cx = self.ctx
        if s.orelse:
            raise Unsupported("for-else over an abstract collection")
        names, subs, attrs, calls = assigned_names(s.body)
        # generic element
        summary_src = None
        if isinstance(src, AbsColl):
            elem = src.elem(self, cx.fresh_name(src.name + "_e"))
            src = src.origin
        else:
            # iteration over the result of an earlier map loop: the generic
            # element of the original source, every case, every emitted item
            summary_src = src.summary
            elem = summary_src.elem
            if summary_src.raising is None:
                raise Unsupported("iteration over an incomplete summary")
        t0 = now()
        frame = {"t0": t0, "emit": {}, "accs": {}}
        saved_vars = dict(env.vars)
        poisoned = {}
        for n in names:
            e = env.find(n)
            if e is not None:
                poisoned[(id(e), n)] = (e, n, e.vars[n])

        def restore():
            env.vars.clear()
            env.vars.update(saved_vars)
            for (e, n, old) in poisoned.values():
                e.vars[n] = Poison("loop-carried dependency (map rule)")
            frame["emit"] = {}

        def run_body(item):
            self.assign(s.target, item, env)
            try:
                self.exec_block(s.body, env)
            except ContinueEx:
                pass
            except BreakEx:
                raise Unsupported("break in a map-rule loop")
            except ReturnEx:
                raise Unsupported("return in a map-rule loop")

        def body():
            self.map_mode.append(frame)
            try:
                if summary_src is None:
                    run_body(elem)
                else:
                    k = cx.choose(len(summary_src.cases)) if summary_src.cases else None
                    if k is None:
                        raise PathEnd()
                    cond, items = summary_src.cases[k]
                    cx.assume(cond)
                    for it in items:
                        run_body(it)
            finally:
                self.map_mode.pop()
            return {k: list(v) for k, v in frame["emit"].items()}

        results = cx.explore(body, restore)
        restore()
        # restore non-assigned locals; assigned ones are dead after the loop
        for (e, n, old) in poisoned.values():
            e.vars[n] = Poison("value of a map-rule loop local after the loop")
        for n in names:
            if env.find(n) is None:
                env.vars[n] = Poison("value of a map-rule loop local after the loop")
        raising = [(conds, out[1]) for conds, out, _ in results if out[0] == "raise"]
        ok = [(conds, out[1]) for conds, out, _ in results if out[0] == "ok"]
        # exceptional exit of the loop: some element triggers a raising case
        alts = len(raising) + 1
        k = cx.choose(alts)
        if k < len(raising):
            conds, exc = raising[k]
            for c in conds:
                cx.assume(c)
            raise Raised(exc)
        for conds, exc in raising:
            cx.assume(z3.Not(z3.And(conds)) if conds else False)
        # summarise accumulators
        accs = {}
        for conds, emit in ok:
            for cid, (cont, items) in emit.items():
                accs.setdefault(cid, cont)
        for cid, cont in accs.items():
            cases = []
            for conds, emit in ok:
                items = emit.get(cid, (cont, []))[1]
                cases.append((z3.And(conds) if conds else z3.BoolVal(True), items))
            ne = cx.fresh_bool("nonempty_" + lname.split("::")[-1])
            if cont.items:
                raise Unsupported("map-rule accumulator not empty before the loop")
            cont.summary = MapSummary(src if summary_src is None else summary_src.source, elem, cases, ne,
                                      [z3.And(c) if c else z3.BoolVal(True) for c, _ in raising])
            # some-emit(elem) => nonempty   (elem is an arbitrary element)
            some = z3.Or([c for c, items in cases if items]) if any(items for _, items in cases) else z3.BoolVal(False)
            cx.assume(z3.Implies(some, ne))
            cx.ghost.setdefault("map_summaries", []).append((lname, cont.summary))
        cx.trusted.add("map rule: a loop whose body is element-wise independent computes "
                       "the union over elements of the per-element emissions (side condition checked)")

    def map_emit(self, cont, item):
        """called by list.append / set.add; returns True if handled"""
        if not self.map_mode:
            return False
        frame = self.map_mode[-1]
        if cont.stamp > frame["t0"]:
            return False       # container allocated inside this iteration
        frame["emit"].setdefault(id(cont), (cont, []))[1].append(item)
        return True

    def check_mutation(self, obj, what):
        """attribute / item store on a heap object inside a map-rule body"""
        for frame in self.map_mode:
            if isinstance(obj, HeapObj) and obj.stamp <= frame["t0"]:
                raise Unsupported(f"map rule side condition: {what} mutates state that predates the loop")

    # ------------------------------------------------------------------
    # iteration of concrete containers

    def iter_concrete(self, v):
        if isinstance(v, (tuple, list)):
            return list(v)
        if isinstance(v, PList):
            if v.summary is not None:
                raise Unsupported("concrete iteration over a map-rule summary")
            return list(v.items)
        if isinstance(v, PSet):
            if v.summary is not None:
                raise Unsupported("concrete iteration over a map-rule summary")
            return list(v.items)
        if isinstance(v, PDict):
            return list(v.order)
        if isinstance(v, str):
            return list(v)
        if isinstance(v, RangeObj):
            a, b, c = self.unC(v.start), self.unC(v.stop), self.unC(v.step)
            if all(isinstance(x, int) for x in (a, b, c)):
                return list(range(a, b, c))
            raise Unsupported("iteration over a symbolic range")
        if isinstance(v, ConcIter):
            return list(v.items)
        if isinstance(v, Obj):
            m, _ = v.cls.lookup("__iter__")
            if m is not None:
                return self.iter_concrete(self.call(BoundMethod(m, v), [], {}))
        if isinstance(v, Class) and v.members:
            return list(v.members.values())
        if isinstance(v, SymArr):
            n = simp(v.shape[0])
            if isinstance(n, int) and n <= 64:
                return [self.getitem(v, k, None) for k in range(n)]
        raise Unsupported(f"iteration over {type(v).__name__}")

    def list_extend(self, lst, other):
        lst.items.extend(self.iter_concrete(other))

    # ------------------------------------------------------------------
    # expressions

    def eval(self, node, env):
        m = getattr(self, "ex_" + type(node).__name__, None)
        if m is None:
            raise Unsupported(f"expression {type(node).__name__} at line {getattr(node, 'lineno', '?')}")
        return m(node, env)

    def ex_Constant(self, n, env):
        v = n.value
        if isinstance(v, bool):
            return v
        if isinstance(v, int) and self.is_cy(env) and not getattr(env, "is_spec", False) \
                and not self._in_spec(env):
            return CV(literal_ctype(v), v, literal=True)
        if isinstance(v, float):
            return z3.RealVal(repr(v))
        if v is Ellipsis:
            return Ellipsis
        return v

    def _in_spec(self, env):
        e = env
        while e is not None:
            if getattr(e, "is_spec", False):
                return True
            e = e.parent
        return False

    def ex_Name(self, n, env):
        return self.load_name(env, n.id)

    def ex_NamedExpr(self, n, env):
        v = self.eval(n.value, env)
        self.assign(n.target, v, env)
        return v

    def ex_Tuple(self, n, env):
        out = []
        for e in n.elts:
            if isinstance(e, ast.Starred):
                out.extend(self.iter_concrete(self.eval(e.value, env)))
            else:
                out.append(self.unC_keep(self.eval(e, env)))
        return tuple(out)

    def unC_keep(self, v):
        # tuples / lists hold Python objects
        return self.unC(v)

    def ex_List(self, n, env):
        out = []
        for e in n.elts:
            if isinstance(e, ast.Starred):
                out.extend(self.iter_concrete(self.eval(e.value, env)))
            else:
                out.append(self.unC(self.eval(e, env)))
        return PList(out)

    def ex_Set(self, n, env):
        from . import natives
        s = PSet([])
        for e in n.elts:
            natives.set_add(self, s, self.unC(self.eval(e, env)))
        return s

    def ex_Dict(self, n, env):
        d = PDict()
        for k, v in zip(n.keys, n.values):
            if k is None:
                other = self.eval(v, env)
                for kk in other.order:
                    self.dict_set(d, kk, other.items[kk])
            else:
                self.dict_set(d, self.unC(self.eval(k, env)), self.unC(self.eval(v, env)))
        return d

    def dict_key(self, k):
        if isinstance(k, EnumVal):
            if is_z3(k.value):
                raise Unsupported("symbolic dict key")
            return ("enum", k.cls.name, k.value)
        if is_z3(k):
            k2 = simp(k)
            if is_z3(k2):
                raise Unsupported("symbolic dict key")
            return k2
        if isinstance(k, tuple):
            return tuple(self.dict_key(x) for x in k)
        if isinstance(k, HeapObj):
            return ("obj", k.stamp)
        return k

    def dict_set(self, d, k, v):
        kk = self.dict_key(k)
        if kk not in d.items:
            d.order.append(kk)
            d.keyobjs = getattr(d, "keyobjs", {})
        getattr(d, "keyobjs", {}).__setitem__(kk, k) if hasattr(d, "keyobjs") else None
        d.items[kk] = v

    def ex_JoinedStr(self, n, env):
        parts = []
        for v in n.values:
            if isinstance(v, ast.Constant):
                parts.append(v.value)
            else:
                try:
                    val = self.eval(v.value, env)
                    spec = None
                    if v.format_spec is not None:
                        spec = self.eval(v.format_spec, env)
                    from . import natives
                    parts.append(natives.format_value(self, val, spec, v.conversion))
                except Unsupported:
                    parts.append(OpaqueStr())
        if any(isinstance(p, OpaqueStr) for p in parts):
            return OpaqueStr()
        if all(isinstance(p, str) for p in parts):
            return "".join(parts)
        from .strlib import Rope, rope_of, simple_norm
        if any(isinstance(p, Rope) for p in parts) and all(rope_of(p) is not None for p in parts):
            segs = []
            for p in parts:
                segs.extend(rope_of(p).segs)
            return simple_norm(Rope(segs))
        return z3.Concat(*[zstr(p) for p in parts]) if len(parts) > 1 else zstr(parts[0])

    def ex_FormattedValue(self, n, env):
        return self.ex_JoinedStr(ast.JoinedStr(values=[n]), env)

    def ex_Lambda(self, n, env):
        fn = ast.FunctionDef(name="<lambda>", args=n.args,
                             body=[ast.Return(value=n.body, lineno=n.lineno, col_offset=0)],
                             decorator_list=[], returns=None, lineno=n.lineno, col_offset=0)
        q = (env.func.qualname if env.func else "?") + ".<lambda>"
        return Func(fn, env, q, env.module)

    def ex_IfExp(self, n, env):
        c = self.truth(self.eval(n.test, env))
        if isinstance(c, bool):
            return self.eval(n.body if c else n.orelse, env)
        if self.ctx.branch(c):
            return self.eval(n.body, env)
        return self.eval(n.orelse, env)

    def ex_BoolOp(self, n, env):
        # short-circuit; in spec expressions build z3 And/Or without forking
        spec = self._in_spec(env)
        if spec:
            vals = []
            for v in n.values:
                t = self.truth(self.eval(v, env))
                if isinstance(t, bool):
                    if isinstance(n.op, ast.And) and not t:
                        return False
                    if isinstance(n.op, ast.Or) and t:
                        return True
                    continue
                vals.append(t)
            if not vals:
                return isinstance(n.op, ast.And)
            return z3.And(vals) if isinstance(n.op, ast.And) else z3.Or(vals)
        last = None
        for i, v in enumerate(n.values):
            last = self.eval(v, env)
            if i == len(n.values) - 1:
                return last
            t = self.to_bool(last)
            if isinstance(n.op, ast.And) and not t:
                return last
            if isinstance(n.op, ast.Or) and t:
                return last
        return last

    def ex_UnaryOp(self, n, env):
        v = self.eval(n.operand, env)
        if isinstance(n.op, ast.Not):
            t = self.truth(v)
            if isinstance(t, bool):
                return not t
            return simp(z3.Not(t))
        if isinstance(n.op, ast.USub):
            if isinstance(v, CV):
                if v.literal and isinstance(v.term, int):
                    return CV(literal_ctype(-v.term), -v.term, literal=True)
                return self.c_arith("-", CV("int", 0, True), v, env, n)
            if isinstance(v, (int, float)):
                return -v
            return -v
        if isinstance(n.op, ast.UAdd):
            return v
        if isinstance(n.op, ast.Invert):
            if isinstance(v, EnumVal):
                return EnumVal(v.cls, self.flag_op("~", v.value, None))
            if isinstance(v, int):
                return ~v
            if isinstance(v, CV):
                return self.c_arith("-", CV(v.ctype, -1), v, env, n)
            return -zint(v) - 1
        raise Unsupported("unary operator")

    def ex_BinOp(self, n, env):
        a = self.eval(n.left, env)
        b = self.eval(n.right, env)
        return self.binop(n.op, a, b, env, n)

    OPS = {"Add": "+", "Sub": "-", "Mult": "*", "FloorDiv": "//", "Mod": "%",
           "Pow": "**", "Div": "/", "BitOr": "|", "BitAnd": "&", "BitXor": "^",
           "LShift": "<<", "RShift": ">>", "MatMult": "@"}

    def binop(self, op, a, b, env, node=None):
        o = self.OPS[type(op).__name__] if not isinstance(op, str) else op
        # C arithmetic
        if isinstance(a, CV) or isinstance(b, CV):
            if isinstance(a, CV) and isinstance(b, CV):
                return self.c_arith(o, a, b, env, node)
            # mixed C / Python object: Python semantics on the object level,
            # unless the Python side is a plain literal handled above
            a, b = self.unC(a), self.unC(b)
        if isinstance(a, EnumVal) or isinstance(b, EnumVal):
            return self.enum_binop(o, a, b)
        if isinstance(a, (Obj,)):
            name = {"+": "__add__", "-": "__sub__", "*": "__mul__", "|": "__or__",
                    "&": "__and__", "@": "__matmul__", "//": "__floordiv__", "%": "__mod__"}.get(o)
            m, _ = a.cls.lookup(name) if name else (None, None)
            if m is not None:
                return self.call(BoundMethod(m, a), [b], {})
        if isinstance(b, Obj):
            name = {"+": "__radd__", "-": "__rsub__", "*": "__rmul__"}.get(o)
            m, _ = b.cls.lookup(name) if name else (None, None)
            if m is not None:
                return self.call(BoundMethod(m, b), [a], {})
        from . import natives
        return natives.py_binop(self, o, a, b, env)

    def enum_binop(self, o, a, b):
        cls = a.cls if isinstance(a, EnumVal) else b.cls
        av = a.value if isinstance(a, EnumVal) else a
        bv = b.value if isinstance(b, EnumVal) else b
        if cls.kind == "flag" and o in ("|", "&", "^"):
            return EnumVal(cls, self.flag_op(o, av, bv))
        if cls.kind == "intenum":
            from . import natives
            return natives.py_binop(self, o, av, bv, None)
        raise Unsupported(f"operator {o} on enum {cls.name}")

    def flag_op(self, o, a, b):
        conc = isinstance(a, int) and (b is None or isinstance(b, int))
        if conc:
            mask = (1 << FLAG_BITS) - 1
            return {"|": lambda: a | b, "&": lambda: a & b, "^": lambda: a ^ b,
                    "~": lambda: (~a) & mask}[o]()
        def bv(x):
            return z3.BitVecVal(x, FLAG_BITS) if isinstance(x, int) else x
        if o == "~":
            return simp(~bv(a))
        a, b = bv(a), bv(b)
        return simp({"|": a | b, "&": a & b, "^": a ^ b}[o])

    # -- C arithmetic -------------------------------------------------------

    def c_arith(self, o, a, b, env, node=None):
        ta, tb = a.ctype, b.ctype
        if is_float_ctype(ta) or is_float_ctype(tb):
            x, y = zreal(a.term), zreal(b.term)
            rt = "double" if "64" in (ta + tb) or "double" in (ta + tb) else ta if is_float_ctype(ta) else tb
            if o == "+":
                return CV(rt, x + y)
            if o == "-":
                return CV(rt, x - y)
            if o == "*":
                return CV(rt, x * y)
            if o == "/":
                return CV(rt, x / y)
            raise Unsupported(f"C float operator {o}")
        if o == "/":
            # true division of C ints in Cython (Python semantics, cdivision off) -> double
            if self.cyflag(env, "cdivision"):
                o = "//c"
            else:
                return CV("double", zreal(a.term) / zreal(b.term))
        # literals adapt to the other operand's type if it is wider
        rt = arith_type(ta, tb)
        if o == "**":
            # Cython evaluates integer powers with __Pyx_pow_long (C long) unless an
            # operand is an unsigned 64-bit type
            rt = "uint64" if "uint64" in (rt,) else "int64"
        x = wrap_int(rt, a.term) if INT_TYPES[rt][1] is False or promote(ta) != rt else a.term
        y = wrap_int(rt, b.term) if INT_TYPES[rt][1] is False or promote(tb) != rt else b.term
        if isinstance(x, int) and isinstance(y, int) and o in ("+", "-", "*"):
            r = {"+": x + y, "-": x - y, "*": x * y}[o]
            lit = a.literal and b.literal
            if lit:
                return CV(literal_ctype(r), r, literal=True)
            return self.c_result(rt, r, o, node)
        if o == "+":
            r = zint(x) + zint(y)
        elif o == "-":
            r = zint(x) - zint(y)
        elif o == "*":
            r = zint(x) * zint(y)
        elif o in ("//", "//c", "%"):
            zero = simp(zint(y) == 0)
            if self.ctx.branch(zero):
                if self.cyflag(env, "cdivision"):
                    self.ctx.oblige(self.obname("div_by_zero", node), False, "safety",
                                    {"why": "C division by zero (undefined behaviour)"})
                    raise PathEnd()
                self.throw("ZeroDivisionError", "integer division or modulo by zero")
            cdiv = self.cyflag(env, "cdivision") or o == "//c"
            if o == "%":
                r = c_mod(x, y) if cdiv else py_mod(x, y)
            else:
                r = c_div(x, y) if cdiv else py_floordiv(x, y)
        elif o == "**":
            if isinstance(y, int) and y >= 0:
                r = 1
                for _ in range(y):
                    r = r * zint(x) if not isinstance(r, int) or not isinstance(x, int) else r * x
            elif isinstance(x, int) and x > 0 and not isinstance(y, int):
                from . import natives
                r = natives.sym_pow(self, x, zint(y))
            else:
                raise Unsupported("C power with symbolic base and exponent")
            if not self.cyflag(env, "cpow"):
                # Python semantics: int ** int -> Python object when exponent may be negative
                pass
        elif o in ("&", "|", "^", "<<", ">>"):
            from . import natives
            r = natives.int_bitop(self, o, x, y, INT_TYPES[rt][0])
        else:
            raise Unsupported(f"C operator {o}")
        narrow = INT_TYPES[ta][0] <= 32 and INT_TYPES[tb][0] <= 32 and INT_TYPES[rt][0] == 64 \
            and o in ("+", "-", "*")
        return self.c_result(rt, r, o, node, static_safe=narrow)

    def obname(self, what, node):
        f = self.current_func[-1] if self.current_func else "?"
        ln = getattr(node, "lineno", "?")
        return f"{f}::{what}@L{ln}"

    def c_result(self, rt, r, o, node, static_safe=False):
        bits, signed = INT_TYPES[rt]
        lo, hi = int_range(rt)
        if signed:
            if isinstance(r, int):
                if not (lo <= r <= hi):
                    if self.overflow_checks:
                        self.ctx.oblige(self.obname("no_signed_overflow", node), False, "overflow",
                                        {"op": o, "type": rt})
                    r = wrap_int(rt, r)
                return CV(rt, r)
            r = simp(r)
            if self.overflow_checks and o in ("+", "-", "*", "**") and not static_safe:
                inr = simp(z3.And(zint(r) >= lo, zint(r) <= hi))
                if inr is not True:
                    self.ctx.oblige(self.obname("no_signed_overflow", node), inr, "overflow",
                                    {"op": o, "type": rt})
                    # after the (separately reported) obligation, continue with
                    # the wrapped value so later obligations stay bit-precise
                    return CV(rt, wrap_int(rt, r))
            return CV(rt, r)
        return CV(rt, wrap_int(rt, r))

    # -- comparisons --------------------------------------------------------

    def ex_Compare(self, n, env):
        left = self.eval(n.left, env)
        res = None
        for op, rn in zip(n.ops, n.comparators):
            right = self.eval(rn, env)
            r = self.compare(type(op).__name__, left, right, env)
            if res is None:
                res = r
            else:
                if isinstance(res, bool) and isinstance(r, bool):
                    res = res and r
                else:
                    res = simp(z3.And(zbool(res), zbool(r)))
            left = right
        return res

    CMP = {"Eq": "==", "NotEq": "!=", "Lt": "<", "LtE": "<=", "Gt": ">", "GtE": ">=",
           "Is": "is", "IsNot": "is not", "In": "in", "NotIn": "not in"}

    def compare(self, op, a, b, env=None):
        o = self.CMP.get(op, op)
        from . import natives
        return natives.compare(self, o, a, b, env)

    # -- attribute / subscript / call ---------------------------------------

    def ex_Attribute(self, n, env):
        obj = self.eval(n.value, env)
        return self.getattr(obj, n.attr)

    def getattr(self, obj, name):
        from . import natives
        return natives.getattr_(self, obj, name)

    def setattr(self, obj, name, v):
        from . import natives
        return natives.setattr_(self, obj, name, v)

    def ex_Subscript(self, n, env):
        self.cur_node = n
        obj = self.eval(n.value, env)
        idx = self.eval_index(n.slice, env)
        return self.getitem(obj, idx, env)

    def eval_index(self, node, env):
        if isinstance(node, ast.Slice):
            return SliceObj(*(self.unC(self.eval(x, env)) if x is not None else None
                              for x in (node.lower, node.upper, node.step)))
        if isinstance(node, ast.Tuple):
            return tuple(self.eval_index(e, env) for e in node.elts)
        return self.eval(node, env)

    def ex_Slice(self, n, env):
        return self.eval_index(n, env)

    def getitem(self, obj, idx, env):
        from . import natives
        return natives.getitem(self, obj, idx, env)

    def setitem(self, obj, idx, v, env):
        from . import natives
        return natives.setitem(self, obj, idx, v, env)

    def delitem(self, obj, idx):
        from . import natives
        return natives.delitem(self, obj, idx)

    def ex_Call(self, n, env):
        # casts inserted by cy2py
        if isinstance(n.func, ast.Name) and n.func.id == "__cast__":
            ct = n.args[0].value
            v = self.eval(n.args[1], env)
            return self.cast(ct, v, env)
        if isinstance(n.func, ast.Name) and n.func.id == "__addr__":
            tgt = n.args[0]
            if isinstance(tgt, ast.Subscript):
                from .heap import ElemCell
                return ElemCell(self.eval(tgt.value, env), self.eval_index(tgt.slice, env))
            if not isinstance(tgt, ast.Name):
                raise Unsupported("address of non-name")
            e = env.find(tgt.id) or env
            return Cell(e, tgt.id)
        if isinstance(n.func, ast.Name) and n.func.id == "super" and not n.args:
            e = env
            while e is not None and e.func is None:
                e = e.parent
            if e is None or e.func.cls is None:
                raise Unsupported("super() outside a method")
            a0 = e.func.node.args
            first = (a0.posonlyargs + a0.args)[0].arg
            fe = env.find(first)
            return SuperProxy(e.func.cls, fe.vars[first])
        f = self.eval(n.func, env)
        args = []
        for a in n.args:
            if isinstance(a, ast.Starred):
                args.extend(self.iter_concrete(self.eval(a.value, env)))
            else:
                args.append(self.eval(a, env))
        kwargs = {}
        for k in n.keywords:
            if k.arg is None:
                d = self.eval(k.value, env)
                if isinstance(d, PDict):
                    for kk in d.order:
                        kwargs[kk] = d.items[kk]
                else:
                    raise Unsupported("**kwargs of non-dict")
            else:
                kwargs[k.arg] = self.eval(k.value, env)
        # arguments passed to Python-level callables are Python objects,
        # except to cdef functions (typed parameters convert again)
        if not isinstance(f, (Func, BoundMethod)):
            args = [self.unC(a) for a in args]
            kwargs = {k: self.unC(v) for k, v in kwargs.items()}
        return self.call(f, args, kwargs)

    def cast(self, ct, v, env):
        ct = norm_ctype(ct)
        ct = self._aliases().get(ct, ct)
        if is_int_ctype(ct):
            if isinstance(v, CV):
                if is_float_ctype(v.ctype):
                    r = zreal(v.term)
                    t = z3.If(r >= 0, z3.ToInt(r), -z3.ToInt(-r))
                    return CV(ct, wrap_int(ct, t))
                return CV(ct, wrap_int(ct, v.term))
            return self.convert(ct, v, "cast")
        if is_float_ctype(ct):
            return CV(ct, zreal(self.unC(v)))
        # pointer / object casts: identity
        return v

    def ex_ListComp(self, n, env):
        return PList(self._comp(n, env, lambda e, ev: self.unC(self.eval(n.elt, ev))))

    def ex_GeneratorExp(self, n, env):
        return ConcIter(self._comp(n, env, lambda e, ev: self.unC(self.eval(n.elt, ev))))

    def ex_SetComp(self, n, env):
        from . import natives
        s = PSet([])
        for x in self._comp(n, env, lambda e, ev: self.unC(self.eval(n.elt, ev))):
            natives.set_add(self, s, x)
        return s

    def ex_DictComp(self, n, env):
        d = PDict()
        for k, v in self._comp(n, env, lambda e, ev: (self.unC(self.eval(n.key, ev)),
                                                     self.unC(self.eval(n.value, ev)))):
            self.dict_set(d, k, v)
        return d

    def _comp(self, n, env, mk):
        out = []
        cenv = Env(parent=env, module=env.module)
        cenv.func = env.func

        def rec(gi):
            if gi == len(n.generators):
                out.append(mk(n, cenv))
                return
            g = n.generators[gi]
            it = self.eval(g.iter, cenv)
            src = self.abs_source(it)
            if src is not None:
                raise Unsupported("comprehension over an abstract collection")
            for x in self.iter_concrete(it):
                self.assign(g.target, x, cenv)
                if all(self.to_bool(self.eval(c, cenv)) for c in g.ifs):
                    rec(gi + 1)
        rec(0)
        return out

    def ex_Starred(self, n, env):
        raise Unsupported("starred expression")

    def ex_Yield(self, n, env):
        raise Unsupported("generator function (yield)")


class AutoVal:
    pass


class SuperProxy:
    def __init__(self, cls, obj):
        self.cls = cls
        self.obj = obj


class OpaqueStr:
    """string whose content is irrelevant (exception messages)"""
    pass


class EnumArr:
    """enumerate() over an array of symbolic length"""
    def __init__(self, arr, start=0):
        self.arr = arr
        self.start = start


class ConcIter:
    def __init__(self, items):
        self.items = list(items)


class AbsIter:
    def __init__(self, coll):
        self.coll = coll


class LazyImport:
    def __init__(self, module, name, level, cur_module):
        self.module = module
        self.name = name
        self.level = level
        self.cur_module = cur_module

    def resolve(self, interp):
        return interp.loader.import_from(interp, self.module, self.name, self.level, self.cur_module)
