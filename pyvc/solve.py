"""pyvc.solve -- discharge obligations with z3 (API), falling back to the
cvc5 and z3 4.8 command-line solvers on `unknown`."""
import os
import re
import subprocess
import tempfile
import time
import z3


def smt2_of(hyps, neg_goal, logic=None, produce_models=True):
    s = z3.Solver()
    for h in hyps:
        s.add(h)
    s.add(neg_goal)
    txt = s.to_smt2()
    return txt


def _fix_for_cvc5(txt):
    # z3 prints a few non-standard names
    txt = txt.replace("(set-info :status unknown)", "")
    txt = re.sub(r"\(\s*int\.to\.str", "(str.from_int", txt)
    txt = re.sub(r"\(\s*str\.to\.int", "(str.to_int", txt)
    txt = txt.replace("str.from_code", "str.from_code")
    # z3 5.x names of the bit-vector / integer conversions
    txt = re.sub(r"\(\s*ubv_to_int\b", "(bv2nat", txt)
    txt = re.sub(r"\(\(_\s+int_to_bv\s+(\d+)\)", r"((_ int2bv \1)", txt)
    return "(set-logic ALL)\n" + txt


def run_cvc5(txt, timeout_s):
    with tempfile.NamedTemporaryFile("w", suffix=".smt2", delete=False, dir=os.environ.get("VERIF_TMP", None)) as f:
        f.write(_fix_for_cvc5(txt))
        path = f.name
    try:
        t0 = time.time()
        p = subprocess.run(["/usr/bin/cvc5", "--strings-exp", "--tlimit=%d" % int(timeout_s * 1000), path],
                           capture_output=True, text=True, timeout=timeout_s + 5)
        out = (p.stdout + p.stderr).strip()
        first = out.split("\n")[0].strip() if out else ""
        return first, out, time.time() - t0
    except subprocess.TimeoutExpired:
        return "timeout", "", timeout_s
    finally:
        try:
            os.unlink(path)
        except OSError:
            pass


def run_z3cli(txt, timeout_s, binary="/usr/bin/z3"):
    with tempfile.NamedTemporaryFile("w", suffix=".smt2", delete=False, dir=os.environ.get("VERIF_TMP", None)) as f:
        f.write(txt)
        path = f.name
    try:
        t0 = time.time()
        p = subprocess.run([binary, "-T:%d" % int(timeout_s), path], capture_output=True, text=True,
                           timeout=timeout_s + 5)
        out = (p.stdout + p.stderr).strip()
        first = out.split("\n")[0].strip() if out else ""
        return first, out, time.time() - t0
    except subprocess.TimeoutExpired:
        return "timeout", "", timeout_s
    finally:
        try:
            os.unlink(path)
        except OSError:
            pass


def has_strings(terms):
    txt = " ".join(t.sexpr()[:20000] if hasattr(t, "sexpr") else "" for t in terms)
    return "str." in txt or "String" in txt or "re." in txt


def discharge(ob, timeout_s=10.0, use_cvc5=True):
    """sets ob.verdict in {'proved','refuted','undecided'}"""
    t0 = time.time()
    neg = z3.Not(ob.goal)
    s = z3.Solver()
    s.set("timeout", int(timeout_s * 1000))
    for h in ob.hyps:
        s.add(h)
    s.add(neg)
    r = s.check()
    ob.backend = "z3-%s(api)" % z3.get_version_string()
    if r == z3.unsat:
        ob.verdict = "proved"
    elif r == z3.sat:
        ob.verdict = "refuted"
        ob.model = s.model()
    else:
        ob.verdict = "undecided"
        ob.reason = "z3: " + s.reason_unknown()
        if use_cvc5:
            txt = smt2_of(ob.hyps, neg)
            first, out, dt = run_cvc5(txt, timeout_s)
            if first == "unsat":
                ob.verdict = "proved"
                ob.backend = "cvc5-1.0.3(cli)"
            elif first == "sat":
                # cvc5 found a counter-model; ask z3 for a model it can print
                ob.backend = "cvc5-1.0.3(cli)"
                ob.verdict = "refuted"
                ob.model = None
                ob.reason = "cvc5 sat (no z3 model)"
                s2 = z3.Solver()
                s2.set("timeout", int(timeout_s * 1000))
                for h in ob.hyps:
                    s2.add(h)
                s2.add(neg)
                if s2.check() == z3.sat:
                    ob.model = s2.model()
            else:
                ob.reason += " | cvc5: " + (first or "no answer")
                # third back end: the z3 4.8.12 command-line solver (its quantifier instantiation differs from 5.x);
                # only a proof is taken over from it
                first3, out3, dt3 = run_z3cli(txt, timeout_s)
                if first3 == "unsat":
                    ob.verdict = "proved"
                    ob.backend = "z3-4.8.12(cli)"
                else:
                    ob.reason += " | z3-4.8.12: " + (first3 or "no answer")
    ob.time = time.time() - t0
    if ob.expect == "sat":
        # vacuity probes / canaries: must be satisfiable
        if ob.verdict == "refuted":
            ob.verdict = "proved"
        elif ob.verdict == "proved":
            ob.verdict = "vacuous"
    return ob
