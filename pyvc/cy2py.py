"""pyvc.cy2py -- mechanical de-sugaring of Cython source into Python source
that `ast.parse` accepts, run on every check from the current .pyx text.

It is a translator without per-function knowledge.  It works on logical
lines obtained with Python's own tokenizer and keeps line numbers (a logical
line spanning several physical lines is emitted on its first line, followed by
blank lines).

  cdef T x [= e] [, y ...]        ->  x: "T" [= e]
  cdef T buf[N]                   ->  buf: "T[N]"
  def/cdef/cpdef R f(T a, U[:] b not None) [nogil] [except X]:
                                  ->  def f(a: "T", b: "U[:]") -> "R":
  <T>e                            ->  __cast__("T", e)
  &x                              ->  __addr__(x)
  ctypedef T Name                 ->  alias (info['aliases'])
  ctypedef fused Name: members    ->  info['fused']
  cdef enum                       ->  integer constants
  cdef class                      ->  class  (+ typed attribute table)
  with nogil: / with gil:         ->  if True:
  cimport ..., extern blocks      ->  dropped (recorded)
"""
import io
import re
import tokenize

TYPE_WORDS = {"int", "long", "short", "char", "unsigned", "signed", "float", "double",
              "bint", "void", "object", "str", "bytes", "list", "dict", "tuple", "set",
              "size_t", "Py_ssize_t", "ssize_t", "const", "bytearray", "bool", "ptr",
              "int8", "int16", "int32", "int64", "uint8", "uint16", "uint32", "uint64",
              "float32", "float64"}


class CyError(Exception):
    pass


def logical_lines(text):
    """list of (first_line_no, last_line_no, indent, tokens) per logical line;
    comments dropped"""
    toks = []
    try:
        for t in tokenize.generate_tokens(io.StringIO(text).readline):
            toks.append(t)
    except tokenize.TokenError as e:
        raise CyError(f"tokenize: {e}")
    lines = []
    cur = []
    for t in toks:
        if t.type in (tokenize.COMMENT, tokenize.NL, tokenize.INDENT, tokenize.DEDENT, tokenize.ENDMARKER):
            continue
        if t.type == tokenize.NEWLINE:
            if cur:
                lines.append(cur)
                cur = []
            continue
        cur.append(t)
    if cur:
        lines.append(cur)
    return lines


def toks_text(toks):
    """re-join tokens of one logical line into one physical line"""
    out = []
    prev = None
    for t in toks:
        if prev is not None:
            if t.start[0] == prev.end[0]:
                gap = t.start[1] - prev.end[1]
                out.append(" " * gap)
            else:
                out.append(" ")
        s = t.string
        if t.type == tokenize.STRING and "\n" in s:
            pass
        out.append(s)
        prev = t
    return "".join(out)


def split_top(s, sep=","):
    """split at top-level separators (outside brackets / strings)"""
    parts, depth, cur, q = [], 0, [], None
    i = 0
    while i < len(s):
        c = s[i]
        if q:
            cur.append(c)
            if c == "\\":
                cur.append(s[i + 1])
                i += 1
            elif c == q:
                q = None
        elif c in "\"'":
            q = c
            cur.append(c)
        elif c in "([{":
            depth += 1
            cur.append(c)
        elif c in ")]}":
            depth -= 1
            cur.append(c)
        elif c == sep and depth == 0:
            parts.append("".join(cur))
            cur = []
        else:
            cur.append(c)
        i += 1
    parts.append("".join(cur))
    return parts


def find_top(s, ch):
    depth, q = 0, None
    i = 0
    while i < len(s):
        c = s[i]
        if q:
            if c == "\\":
                i += 1
            elif c == q:
                q = None
        elif c in "\"'":
            q = c
        elif c in "([{":
            depth += 1
        elif c in ")]}":
            depth -= 1
        elif c == ch and depth == 0:
            # skip ==, <=, >=, !=
            if ch == "=" and (s[i + 1:i + 2] == "=" or (i > 0 and s[i - 1] in "=!<>")):
                i += 1
                continue
            return i
        i += 1
    return -1


def norm_type(t):
    t = " ".join(t.split())
    t = t.replace("np.", "").replace("cnp.", "")
    t = re.sub(r"\b(u?int\d+|float\d+|intp|uintp)_t\b", r"\1", t)
    t = t.replace(" *", "*").replace("* ", "*")
    t = re.sub(r"\s*\[\s*", "[", t)
    t = re.sub(r"\s*\]", "]", t)
    t = re.sub(r"\s*,\s*", ",", t)
    return t.strip()


DECL_RE = re.compile(
    r"^(?P<type>(?:const\s+)?(?:unsigned\s+|signed\s+)?(?:long\s+long|long\s+double|[A-Za-z_][\w\.]*)(?:\s+(?:int|long|char|short|double)\b)?"
    r"(?:\s*\[[^\]]*\])?)\s*(?P<rest>.*)$")


def parse_declarator(chunk, base_type):
    """one declarator:  [*]* name [ [N] ] [= expr]  -> (name, type, init)"""
    eq = find_top(chunk, "=")
    init = None
    if eq >= 0:
        init = chunk[eq + 1:].strip()
        chunk = chunk[:eq]
    chunk = chunk.strip()
    stars = 0
    while chunk.startswith("*"):
        stars += 1
        chunk = chunk[1:].strip()
    m = re.match(r"^([A-Za-z_]\w*)\s*(\[[^\]]*\])?\s*$", chunk)
    if not m:
        raise CyError(f"declarator {chunk!r}")
    name, arr = m.group(1), m.group(2)
    t = base_type + "*" * stars
    if arr:
        t = t + arr.replace(" ", "")
    return name, norm_type(t), init


def split_type_and_decls(s):
    """'T [*]name [= e], name2' -> (type, [declarator chunks])"""
    m = DECL_RE.match(s.strip())
    if not m:
        raise CyError(f"declaration {s!r}")
    ty, rest = m.group("type"), m.group("rest")
    if rest.strip().startswith("=") and re.match(r"^[A-Za-z_]\w*$", ty.strip()):
        # `cdef name = expr`  (untyped: object)
        return "object", [ty + " " + rest]
    if not rest.strip():
        # maybe the 'type' swallowed the name:  'object x'? handled by regex; else error
        raise CyError(f"declaration without name {s!r}")
    return ty, split_top(rest)


def rewrite_params(params, info):
    """typed parameter list -> annotated Python parameter list"""
    if not params.strip():
        return params
    out = []
    for p in split_top(params):
        p = p.strip()
        if not p:
            continue
        if p in ("*", "/") or p.startswith("*"):
            out.append(p)
            continue
        p = re.sub(r"\s+(not|or)\s+None\s*$", "", p)
        eq = find_top(p, "=")
        default = None
        if eq >= 0:
            default = p[eq + 1:].strip()
            p = p[:eq].strip()
        p = re.sub(r"\s+(not|or)\s+None\s*$", "", p)
        # python annotation already?
        if re.match(r"^[A-Za-z_]\w*\s*:", p):
            out.append(p + (" = " + default if default is not None else ""))
            continue
        toks = p.split()
        m = re.match(r"^(.*?)(\**)\s*([A-Za-z_]\w*)$", p)
        if m and m.group(1).strip():
            ty = norm_type(m.group(1).strip() + m.group(2))
            name = m.group(3)
            out.append(f'{name}: "{ty}"' + (" = " + default if default is not None else ""))
        else:
            out.append(p + (" = " + default if default is not None else ""))
    return ", ".join(out)


def rewrite_casts(line, info):
    """<T>expr -> __cast__("T", expr);  unary &x -> __addr__(x)"""
    # work on a character level with a small scanner
    out = []
    i = 0
    n = len(line)
    q = None

    def prev_sig():
        j = len(out) - 1
        while j >= 0 and out[j].isspace():
            j -= 1
        return out[j] if j >= 0 else ""

    def prev_word():
        s = "".join(out).rstrip()
        m = re.search(r"([A-Za-z_]\w*)$", s)
        return m.group(1) if m else ""

    while i < n:
        c = line[i]
        if q:
            out.append(c)
            if c == "\\" and i + 1 < n:
                out.append(line[i + 1])
                i += 1
            elif line.startswith(q, i):
                out.extend(line[i + 1:i + len(q)])
                i += len(q) - 1
                q = None
            i += 1
            continue
        if c in "\"'":
            q = line[i:i + 3] if line[i:i + 3] in ('"""', "'''") else c
            out.extend(line[i:i + len(q)])
            i += len(q)
            continue
        if c == "<":
            ps = prev_sig()
            pw = prev_word()
            operand_before = (ps.isalnum() or ps in "_)]}\"'") and pw not in (
                "return", "in", "not", "and", "or", "if", "else", "elif", "while", "is", "yield", "lambda", "print")
            m = re.match(r"<\s*((?:const\s+)?(?:unsigned\s+|signed\s+)?[A-Za-z_][\w\.]*(?:\s+(?:int|long|char|short|double)\b)?(?:\s*\[[^\]]*\])?\s*\**)\s*>", line[i:])
            if m and not operand_before and not line[i:].startswith("<=") and not line[i:].startswith("<<"):
                ty = norm_type(m.group(1))
                j = i + m.end()
                # operand: one unary expression
                k = j
                while k < n and line[k].isspace():
                    k += 1
                start = k
                if k < n and line[k] in "-+~&":
                    k += 1
                    while k < n and line[k].isspace():
                        k += 1
                if k < n and line[k] == "<":
                    # nested cast: take through its operand recursively
                    inner = rewrite_casts(line[k:], info)
                    # inner now starts with __cast__( ... ) ; find its extent
                    mm = re.match(r"__cast__\(", inner)
                    if mm:
                        depth = 0
                        e = 0
                        for e, ch in enumerate(inner):
                            if ch == "(":
                                depth += 1
                            elif ch == ")":
                                depth -= 1
                                if depth == 0:
                                    break
                        out.append(f'__cast__("{ty}", {line[start:k]}{inner[:e + 1]})')
                        out.append(inner[e + 1:])
                        return "".join(out)
                # primary
                if k < n and line[k] in "([{":
                    k = match_bracket(line, k) + 1
                else:
                    mm = re.match(r"[A-Za-z_0-9\.]+", line[k:])
                    if mm:
                        k += mm.end()
                # trailers
                while k < n:
                    if line[k] in "([":
                        k = match_bracket(line, k) + 1
                    elif line[k] == "." and k + 1 < n and (line[k + 1].isalpha() or line[k + 1] == "_"):
                        mm = re.match(r"\.[A-Za-z_]\w*", line[k:])
                        k += mm.end()
                    else:
                        break
                operand = rewrite_casts(line[start:k], info)
                out.append(f'__cast__("{ty}", {operand})')
                i = k
                continue
        if c == "&":
            ps = prev_sig()
            pw = prev_word()
            unary = (ps == "" or ps in "(,=[{:+-*/%<>|&^~" or pw in ("return", "in", "not", "and", "or", "if", "else"))
            m = re.match(r"&\s*([A-Za-z_]\w*)\b(?!\s*[\(\.])", line[i:])
            if unary and m and not line[i:].startswith("&&") and not line[i:].startswith("&="):
                e = i + m.end()
                k = e
                while k < n and line[k].isspace():
                    k += 1
                if k < n and line[k] == "[":
                    e = match_bracket(line, k) + 1
                    out.append(f"__addr__({m.group(1)}{rewrite_casts(line[k:e], info)})")
                else:
                    out.append(f"__addr__({m.group(1)})")
                i = e
                continue
        out.append(c)
        i += 1
    return "".join(out)


def match_bracket(s, i):
    pairs = {"(": ")", "[": "]", "{": "}"}
    depth = 0
    q = None
    j = i
    while j < len(s):
        c = s[j]
        if q:
            if c == "\\":
                j += 1
            elif c == q:
                q = None
        elif c in "\"'":
            q = c
        elif c in pairs:
            depth += 1
        elif c in ")]}":
            depth -= 1
            if depth == 0:
                return j
        j += 1
    return len(s) - 1


FUNC_RE = re.compile(
    r"^(?P<kw>cdef|cpdef|def)\s+(?P<mods>(?:(?:inline|api|public|static)\s+)*)(?P<ret>.*?)\s*(?P<name>[A-Za-z_]\w*)\s*\((?P<params>.*)\)\s*(?P<tail>[^()]*?):\s*(?P<after>.*)$")


def translate(text, pxd_text=None):
    info = {"aliases": {}, "fused": {}, "dropped": [], "module_flags": {}, "cdef_classes": {},
            "class_attrs": {}, "enums": {}}
    for m in re.finditer(r"^#\s*cython:\s*(.*)$", text, re.M):
        for kv in m.group(1).split(","):
            if "=" in kv:
                k, v = kv.split("=")
                info["module_flags"][k.strip()] = v.strip() == "True"
    pre = ""
    if pxd_text:
        # declarations from the .pxd (ctypedef / enums / cdef inline bodies) are prepended
        # as a separate translation whose result is appended *before* the module body
        pre_py, pre_info = _translate(pxd_text, info, is_pxd=True)
        pre = pre_py
    py, info = _translate(text, info)
    if pre:
        info["pxd_prelude_lines"] = pre.count("\n") + 1
        # keep .pyx line numbers: the prelude goes on ONE line via exec of a string? simpler:
        # place it at the end of the module (definitions only, order-independent for functions
        # and constants used inside function bodies)
        py = py + "\n" + pre + "\n"
    return py, info


def _translate(text, info, is_pxd=False):
    src_lines = text.split("\n")
    out_lines = [""] * (len(src_lines) + 1)
    lls = logical_lines(text)
    # block-structure state
    skip_indent = None       # drop blocks (extern)
    mode_stack = []          # (indent, mode) for cdef: / enum / fused / cdef class
    enum_next = 0
    body_indents = {}
    for toks in lls:
        first, last = toks[0].start[0], toks[-1].end[0]
        indent = toks[0].start[1]
        line = toks_text(toks)
        ind = " " * indent
        while mode_stack and indent <= mode_stack[-1][0]:
            mode_stack.pop()
        if skip_indent is not None:
            if indent > skip_indent:
                out_lines[first - 1] = ind + "pass"
                continue
            skip_indent = None
        mode = mode_stack[-1][1] if mode_stack else None
        if mode == "cdefclass" and mode_stack[-1][0] not in body_indents:
            body_indents[mode_stack[-1][0]] = indent
        info["_class_body_indent"] = body_indents.get(mode_stack[-1][0]) if mode == "cdefclass" else None
        new = None
        stripped = line.strip()
        if mode == "fused":
            info["fused"][mode_stack[-1][2]].append(norm_type(stripped))
            new = "pass"
        elif mode == "enum":
            for part in split_top(stripped):
                part = part.strip()
                if not part:
                    continue
                if "=" in part:
                    nm, val = part.split("=", 1)
                    new = (new + "; " if new else "") + f"{nm.strip()} = {val.strip()}"
                    try:
                        enum_next = int(val.strip(), 0) + 1
                    except ValueError:
                        enum_next = None
                else:
                    if enum_next is None:
                        raise CyError("enum auto value after non-literal")
                    new = (new + "; " if new else "") + f"{part} = {enum_next}"
                    enum_next += 1
            # enum members are emitted one block level up
            ind = " " * mode_stack[-1][0]
        elif mode == "enumclass":
            parts = []
            for part in split_top(stripped):
                part = part.strip()
                if not part:
                    continue
                if "=" in part:
                    nm, val = part.split("=", 1)
                    parts.append(f"{nm.strip()} = {val.strip()}")
                    try:
                        enum_next = int(val.strip(), 0) + 1
                    except ValueError:
                        enum_next = None
                else:
                    if enum_next is None:
                        raise CyError("enum auto value after non-literal")
                    parts.append(f"{part} = {enum_next}")
                    enum_next += 1
            new = "; ".join(parts)
        elif mode == "cdefblock":
            new = rewrite_line("cdef " + stripped, info, mode_stack, indent)
            ind = " " * indent
        else:
            try:
                new = rewrite_line(stripped, info, mode_stack, indent)
            except CyError as e:
                info.setdefault("untranslated", []).append((first, str(e)))
                new = ("if __cy_unsupported__(%d):" % first) if stripped.endswith(":") else ("__cy_unsupported__(%d)" % first)
        if isinstance(new, tuple):
            kind = new[0]
            if kind == "skipblock":
                skip_indent = indent
                new = new[1]
            elif kind == "push":
                mode_stack.append((indent, new[1], new[2] if len(new) > 2 else None))
                if new[1] in ("enum", "enumclass"):
                    enum_next = 0
                new = new[3] if len(new) > 3 else "pass"
        out_lines[first - 1] = ind + new
    return "\n".join(out_lines), info


def _wrap_errors():
    pass


def rewrite_line(s, info, mode_stack, indent):
    # --- imports
    m = re.match(r"^from\s+(\.[\w\.]*|biotite[\w\.]*)\s+cimport\s+(.*)$", s)
    if m:
        # repository-internal cimport: the names come from the sibling .pyx/.pxd
        return f"from {m.group(1)} import {m.group(2)}"
    if re.match(r"^(from\s+\S+\s+)?cimport\b", s):
        info["dropped"].append("cimport")
        return "pass"
    if s.startswith("DEF "):
        return s[4:]
    if re.match(r"^include\s", s):
        info["dropped"].append("include")
        return "pass"
    # --- with nogil
    if re.match(r"^with\s+(nogil|gil)\s*:\s*$", s):
        info["dropped"].append("with nogil")
        return "if True:"
    # --- ctypedef
    if s.startswith("ctypedef "):
        body = s[len("ctypedef "):].strip()
        m = re.match(r"^fused\s+([A-Za-z_]\w*)\s*:\s*$", body)
        if m:
            info["fused"][m.group(1)] = []
            return ("push", "fused", m.group(1), "if True:")
        if re.match(r"^(struct|union|enum|class)\b", body) or "(" in body:
            info["dropped"].append("ctypedef " + body.split()[0])
            return ("skipblock", "if True:") if body.rstrip().endswith(":") else "pass"
        parts = body.rsplit(None, 1)
        if len(parts) == 2:
            info["aliases"][parts[1].strip()] = norm_type(parts[0])
            return "pass"
        raise CyError(f"ctypedef {body!r}")
    # --- cdef extern
    if re.match(r"^cdef\s+extern\b", s):
        info["dropped"].append("cdef extern")
        return ("skipblock", "if True:") if s.rstrip().endswith(":") else "pass"
    # --- cdef: block
    if re.match(r"^cdef\s*:\s*$", s):
        return ("push", "cdefblock", None, "if True:")
    # --- enums
    m = re.match(r"^(cdef|cpdef)\s+enum\s*([A-Za-z_]\w*)?\s*:\s*(.*)$", s)
    if m:
        if m.group(3).strip():
            # single-line enum
            vals, nxt = [], 0
            for part in split_top(m.group(3)):
                part = part.strip()
                if "=" in part:
                    nm, v = part.split("=", 1)
                    vals.append(f"{nm.strip()} = {v.strip()}")
                    nxt = int(v.strip(), 0) + 1
                else:
                    vals.append(f"{part} = {nxt}")
                    nxt += 1
            return "; ".join(vals)
        if m.group(2):
            info["aliases"][m.group(2)] = "int"
            info["enums"][m.group(2)] = True
            return ("push", "enumclass", m.group(2), f"class {m.group(2)}:")
        return ("push", "enum", m.group(2), "pass")
    # --- struct / union
    if re.match(r"^cdef\s+(packed\s+)?(struct|union)\b", s):
        info["dropped"].append("cdef struct")
        return ("skipblock", "if True:") if s.rstrip().endswith(":") else "pass"
    # --- cdef class
    m = re.match(r"^cdef\s+class\s+(.*)$", s)
    if m:
        name = re.match(r"[A-Za-z_]\w*", m.group(1)).group(0)
        info["cdef_classes"][name] = True
        info["class_attrs"].setdefault(name, {})
        return ("push", "cdefclass", name, "class " + rewrite_casts(m.group(1), info))
    # --- functions
    eq0 = find_top(s, "=")
    par0 = s.find("(")
    looks_func = re.match(r"^(cdef|cpdef|def)\b", s) and par0 > 0 and (eq0 < 0 or par0 < eq0)
    if looks_func and re.match(r"^(cdef|cpdef)\b", s) and not re.search(r":\s*(\S.*)?$", s[match_bracket(s, par0):]):
        # prototype without body (.pxd)
        info["dropped"].append("prototype")
        return "pass"
    if looks_func:
        m = FUNC_RE.match(s)
        if m and (m.group("kw") == "def" or "(" in s):
            kw, ret, name = m.group("kw"), m.group("ret").strip(), m.group("name")
            tail = m.group("tail")
            params = rewrite_params(m.group("params"), info)
            params = rewrite_casts(params, info)
            if kw == "def":
                # 'def f(...) -> T:' keeps its annotation
                rt = None
                mt = re.search(r"->\s*(.+)$", tail)
                if ret:
                    raise CyError(f"def with return type {s!r}")
                head = f"def {name}({params})"
                if mt:
                    head += f" -> {mt.group(1).strip()}"
            else:
                head = f"def {name}({params})"
                if ret and ret != "void":
                    head += f' -> "{norm_type(ret)}"'
                for w in ("nogil", "noexcept", "except"):
                    if w in tail:
                        info["dropped"].append(w)
            after = m.group("after").strip()
            return head + ":" + (" " + rewrite_casts(after, info) if after else "")
    # --- cdef declarations
    m = re.match(r"^(cdef|cpdef)\s+(?:(public|readonly|private)\s+)?(.*)$", s)
    if m:
        body = m.group(3).strip()
        in_class = bool(mode_stack) and mode_stack[-1][1] == "cdefclass" \
            and indent == info.get("_class_body_indent")
        ty, chunks = split_type_and_decls(body)
        outs = []
        for ch in chunks:
            name, t, init = parse_declarator(ch, ty)
            if in_class:
                info["class_attrs"][mode_stack[-1][2]][name] = t
                outs.append("pass")
                continue
            if init is not None:
                outs.append(f'{name}: "{t}" = {rewrite_casts(init, info)}')
            else:
                outs.append(f'{name}: "{t}"')
        return "; ".join(outs)
    # --- plain statement: casts / address-of inside expressions; typed `def` params handled above
    if "<" in s or "&" in s:
        s = rewrite_casts(s, info)
    return s


def _class_level(mode_stack, indent):
    """declaration directly in the class body (one level below the class header)"""
    return True if mode_stack and mode_stack[-1][1] == "cdefclass" and getattr(_class_level, "probe", True) else False
