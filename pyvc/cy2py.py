def translate(text, pxd_text=None):
    raise NotImplementedError
