"""pyvc.api -- what a contract file uses: Case (one function under contract,
one admissible-sort variant) and helpers to build symbolic inputs."""
import z3
from .core import CV, Unsupported, zint, zbool, simp, norm_ctype, is_int_ctype, int_range
from .heap import (Obj, PList, PSet, PDict, AbsColl, Opaque, SymArr, EnumVal,
                   SliceObj, Native, Class, Func, BoundMethod, MapSummary)
from .interp import Env, Raised, PathEnd


class Case:
    """one verification unit: a function of /repo under contract.

    target    'relpath::Qual.name' (function located by qualified name)
    variant   label of the admissible-sort combination
    setup     callable(I) -> dict(args=[...], kwargs={}, ghost={name: value})
    requires  list of spec expressions (str, evaluated by the interpreter in an
              environment holding parameters and ghosts) or callables(I, env)
    ensures   list of (label, expr | callable(I, env) -> bool | [(label, bool)])
    raises    {ExceptionName: condition} -- the exception is raised iff the
              condition holds; any other exception is a failed obligation
    loops     {ordinal: {'invariant': [...], 'decreases': expr, 'modifies': [...], 'unroll': n}}
    """

    def __init__(self, target, variant="", setup=None, requires=(), ensures=(),
                 raises=None, loops=None, call_contracts=None, specs=None,
                 overflow=True, note="", may_raise=(), level="proof", timeout=None,
                 helper_loops=None, exc_ensures=None, libs=None, recursive=(), tiers=("quick", "thorough")):
        self.target = target
        self.variant = variant
        self.setup = setup
        self.requires = list(requires)
        self.ensures = list(ensures)
        self.raises = dict(raises or {})
        self.loops = loops or {}
        self.call_contracts = call_contracts or {}
        self.specs = specs or {}
        self.overflow = overflow
        self.note = note
        self.may_raise = tuple(may_raise)
        self.level = level
        self.timeout = timeout
        self.helper_loops = helper_loops or {}
        self.exc_ensures = exc_ensures or {}
        self.libs = libs or {}
        self.recursive = tuple(recursive)
        self.tiers = tuple(tiers)

    @property
    def name(self):
        return self.target + (f"[{self.variant}]" if self.variant else "")


# ---- builders used in setup functions ------------------------------------

def sym_int(I, name, lo=None, hi=None):
    t = I.ctx.fresh_int(name)
    if lo is not None:
        I.ctx.assume(t >= lo)
    if hi is not None:
        I.ctx.assume(t <= hi)
    return t


def sym_bool(I, name):
    return I.ctx.fresh_bool(name)


def sym_str(I, name):
    return I.ctx.fresh_str(name)


def sym_c(I, ctype, name):
    return I.ctx.fresh_cv(ctype, name)


def sym_enum(I, cls, name):
    """arbitrary member of an Enum class (Flag: arbitrary combination)"""
    if cls.kind == "flag":
        bv = I.ctx.fresh_bv(name)
        mask = 0
        for m in cls.members.values():
            mask |= m.value
        I.ctx.assume((bv & z3.BitVecVal(~mask & 0xFFFF, 16)) == 0)
        return EnumVal(cls, bv)
    t = I.ctx.fresh_int(name)
    I.ctx.assume(z3.Or([t == m.value for m in cls.members.values()]))
    return EnumVal(cls, t)


def sym_array(I, name, ctype, shape, assume_range=True):
    shp = []
    for k, s in enumerate(shape):
        if s is None:
            s = I.ctx.fresh_int(f"{name}_n{k}")
            I.ctx.assume(s >= 0)
        shp.append(s)
    return SymArr(name, norm_ctype(ctype) if ctype else None, shp)


def choice(I, options):
    """explore every option (nondeterministic choice)"""
    k = I.ctx.choose(len(options))
    o = options[k]
    return o() if callable(o) else o


def get_class(I, relpath, name):
    mod = I.loader.load(I, relpath)
    v = mod.ns[name.split(".")[0]]
    for part in name.split(".")[1:]:
        v = v.ns[part]
    return v


def new_obj(I, cls, **attrs):
    return Obj(cls, dict(attrs))


def implies(a, b):
    return z3.Implies(zbool(a), zbool(b))


def iff(a, b):
    return zbool(a) == zbool(b)


def bv_has(flagval, member):
    """member bit set in a (possibly symbolic) Flag value"""
    v = flagval.value if isinstance(flagval, EnumVal) else flagval
    m = member.value if isinstance(member, EnumVal) else member
    if isinstance(v, int):
        return (v & m) != 0
    return (v & z3.BitVecVal(m, v.size())) != 0


def bounded_via_script(prop):
    """hook for contract files: run the labelled BOUNDED stand-in
    /verif/bounded/<prop>.py under /venv/bin/python (it attaches the contracts as
    run-time checks to the real public API over a stated finite input space)"""
    def bounded(tier, seed):
        import json as _json
        import os
        import subprocess
        here = os.path.dirname(os.path.dirname(os.path.abspath(__file__)))
        env = dict(os.environ)
        src = os.environ.get("VERIF_SRC")
        if src:
            env["PYTHONPATH"] = os.path.dirname(src) + os.pathsep + env.get("PYTHONPATH", "")
        p = subprocess.run(["/venv/bin/python", os.path.join(here, "bounded", f"{prop}.py"),
                            "--tier", tier, "--seed", str(seed)], capture_output=True, text=True,
                           timeout=3000, env=env, cwd=here)
        line = [l for l in p.stdout.strip().split("\n") if l.startswith("{")]
        if not line:
            return {"status": "crash", "error": (p.stdout + p.stderr)[-800:]}
        d = _json.loads(line[-1])
        out_root = os.environ.get("VERIF_OUT", here)
        os.makedirs(os.path.join(out_root, "replays"), exist_ok=True)
        known = [f for f in _json.load(open(os.path.join(here, "known_findings.json"))).get("findings", [])
                 if f.get("property") == prop and f.get("status", "open") == "open" and f.get("bounded_key")]
        viols, known_hit = [], {}
        for i, f in enumerate(d.get("failures", [])):
            kf = [k for k in known if k["bounded_key"] == f.get("key")]
            if kf:
                known_hit.setdefault(kf[0]["id"], kf[0]["what"])
                continue
            if len(viols) >= 6:
                continue
            path = os.path.join(out_root, "replays", f"{prop}_bounded_{i}.json")
            _json.dump({"property": prop, "obligation": "bounded::" + str(f.get("contract")), "input": f.get("input"),
                        "what": f.get("what"), "replay_cmd": f"/venv/bin/python bounded/{prop}.py --replay {path}"},
                       open(path, "w"), indent=1, default=str)
            viols.append({"replay": path, "what": f"{f.get('contract')}: {f.get('what')} on {str(f.get('input'))[:300]}"})
        return {"bounded_evaluations": d.get("evaluations", 0), "bounded_distinct_nontrivial": d.get("distinct_nontrivial", 0),
                "bounded_failures": len(d.get("failures", [])),
                "bounded_rule": "BOUNDED stand-in, not a proof: " + d.get("rule", ""),
                "bounded_samples": d.get("samples", [])[:4], "bounded_contracts": d.get("contracts", []),
                "violations": viols, "known": sorted(known_hit.values())}
    return bounded
