"""pyvc.run -- per-property driver: generate obligations from /repo's current
source, discharge them, replay counter-models, write evidence.

exit 0 held / 1 VIOLATION / 2 undecided / 3 checker failure"""
import argparse
import importlib
import json
import multiprocessing as mp
import os
import subprocess
import sys
import time
import traceback
import z3

VERIF = os.path.dirname(os.path.dirname(os.path.abspath(__file__)))
sys.path.insert(0, VERIF)

from pyvc.core import Unsupported, EngineError, CV, simp, zbool  # noqa: E402
from pyvc.heap import reset_alloc, Class, Func, Property, StaticMethod, ClassMethod, Native, BoundMethod, Obj  # noqa: E402
from pyvc.interp import Ctx, Interp, Env, Raised, PathEnd, Obligation  # noqa: E402
from pyvc.loader import Loader  # noqa: E402
from pyvc import solve, natives  # noqa: E402

_loader_cache = {}


class CachedLoader(Loader):
    """parses each source file once per process; module environments are
    rebuilt for every path"""
    _trees = {}

    def parse(self, relpath):
        key = (self.src_root, relpath)
        if key not in CachedLoader._trees:
            CachedLoader._trees[key] = (Loader.parse(self, relpath), dict(self.sources), dict(self.dropped))
        tree_info, srcs, dropped = CachedLoader._trees[key]
        self.sources.update(srcs)
        self.dropped.update(dropped)
        return tree_info


def resolve_target(I, target):
    relpath, qual = target.split("::")
    mod = I.loader.load(I, relpath)
    parts = qual.split(".")
    if parts[0] not in mod.ns:
        raise EngineError(f"{target}: {parts[0]} not found in {relpath} "
                          f"(skipped top-level statements: {getattr(mod, 'skipped', [])[:5]})")
    v = mod.ns[parts[0]]
    owner = None
    for p in parts[1:]:
        if isinstance(v, Class):
            owner = v
            w, _ = v.lookup(p)
            if w is None:
                raise EngineError(f"{target}: {p} not found")
            v = w
        else:
            raise EngineError(f"{target}: cannot descend into {v!r}")
    if isinstance(v, Property):
        v = v.fget
    if isinstance(v, (StaticMethod, ClassMethod)):
        v = v.func
    return v, owner, mod


def spec_env(I, mod, names, specs):
    env = Env(module=mod)
    env.parent = mod.env
    env.is_spec = True
    env.vars.update(names)
    for k, fn in (specs or {}).items():
        env.vars[k] = Native(k, (lambda f: lambda I_, a, kw: f(I_, *a, **kw))(fn))
    return env


def model_to_dict(model, syms):
    out = {}
    if model is None:
        return out
    for k, t in syms.items():
        try:
            if isinstance(t, CV):
                t = t.term
            if isinstance(t, (int, bool, str)) or t is None:
                out[k] = t
                continue
            if not isinstance(t, z3.ExprRef):
                continue
            v = model.eval(t, model_completion=True)
            if z3.is_int_value(v):
                out[k] = v.as_long()
            elif z3.is_true(v):
                out[k] = True
            elif z3.is_false(v):
                out[k] = False
            elif z3.is_string_value(v):
                out[k] = v.as_string()
            elif z3.is_bv_value(v):
                out[k] = v.as_long()
            elif z3.is_rational_value(v):
                out[k] = str(v.as_fraction())
            else:
                out[k] = str(v)
        except Exception as e:       # model evaluation is best effort
            out[k] = f"<{e}>"
    return out


def all_consts(ob, syms):
    """named symbols of the case plus every uninterpreted constant occurring
    in the obligation"""
    out = {}
    seen = set()

    def walk(t):
        if t.get_id() in seen:
            return
        seen.add(t.get_id())
        if z3.is_const(t) and t.decl().kind() == z3.Z3_OP_UNINTERPRETED:
            out[str(t)] = t
        for c in t.children():
            walk(c)
    try:
        for h in ob.hyps:
            walk(h)
        walk(ob.goal)
    except Exception:
        pass
    out.update(syms)
    return out


def run_case(case, tier="quick", src_root=None):
    """returns a JSON-serialisable record with every obligation of the case"""
    t_start = time.time()
    cx = Ctx(case.name)
    loader = CachedLoader(src_root)
    rec = {"case": case.name, "target": case.target, "variant": case.variant,
           "obligations": [], "status": "ok", "error": None, "paths": 0,
           "level": case.level, "note": case.note}
    syms_by_path = {}
    state = {"I": None}

    def restore():
        cx.counter.clear()
        reset_alloc()
        natives._pow_fns.clear()
        loader.modules.clear()
        loader.libs.clear()

    def thunk():
        cx.path_id = len(syms_by_path)
        I = Interp(cx, loader)
        state["I"] = I
        I.overflow_checks = case.overflow
        I.extra_libs = dict(case.libs)
        f, owner, mod = resolve_target(I, case.target)
        qual = f.qualname if isinstance(f, Func) else case.target
        I.contracts[qual] = {"loops": case.loops}
        I.contracts[case.target] = {"loops": case.loops}
        for q, loops in case.helper_loops.items():
            I.contracts[q] = {"loops": loops}
        for q, cc in case.call_contracts.items():
            I.call_contracts[q] = cc
        su = case.setup(I)
        args, kwargs, ghost = su.get("args", []), su.get("kwargs", {}), su.get("ghost", {})
        names = dict(ghost)
        if isinstance(f, Func):
            a = f.node.args
            params = [p.arg for p in a.posonlyargs + a.args]
            for p, v in zip(params, args):
                names.setdefault(p, v)
            for k, v in kwargs.items():
                names.setdefault(k, v)
        syms = {k: v for k, v in names.items()
                if isinstance(v, (z3.ExprRef, CV, int, bool, str)) or v is None}
        syms.update(su.get("syms", {}))
        syms_by_path[cx.path_id] = syms
        senv = spec_env(I, mod, names, case.specs)
        for r in case.requires:
            cx.assume(I.eval_spec(r, senv))
        cx.probe(f"{case.name}::requires_satisfiable")
        base = f"{case.name}"
        try:
            result = I.call(f, args, kwargs)
        except Raised as r:
            ename = r.exc.cls.name
            mro = [c.name for c in r.exc.cls.mro]
            hit = [e for e in case.raises if e in mro]
            if hit:
                cond = I.eval_spec(case.raises[hit[0]], senv)
                cx.oblige(f"{base}::raises_only_if[{hit[0]}]", cond, "exceptional-post")
            elif any(e in mro for e in case.may_raise) or any(e in mro for e in case.exc_ensures):
                pass
            else:
                cx.oblige(f"{base}::no_unexpected_exception[{ename}]", False, "exceptional-post",
                          {"exception": ename, "args": str(r.exc.attrs.get("args"))[:200]})
            for e, posts in case.exc_ensures.items():
                if e not in mro:
                    continue
                senv.vars["exc"] = r.exc
                for label, ens in posts:
                    out = ens(I, senv) if callable(ens) else I.eval_spec(ens, senv)
                    if isinstance(out, list):
                        for sub, g in out:
                            cx.oblige(f"{base}::on[{e}].ensures[{label}.{sub}]", g, "exceptional-post")
                    else:
                        cx.oblige(f"{base}::on[{e}].ensures[{label}]", out, "exceptional-post")
                break
            return ("raise", ename)
        # normal return
        for e, cond in case.raises.items():
            c = I.eval_spec(cond, senv)
            cx.oblige(f"{base}::must_raise[{e}]", natives.neg(c), "exceptional-post")
        senv.vars["result"] = result
        for label, ens in case.ensures:
            if callable(ens):
                out = ens(I, senv)
                if isinstance(out, list):
                    for sub, g in out:
                        cx.oblige(f"{base}::ensures[{label}.{sub}]", g, "post")
                else:
                    cx.oblige(f"{base}::ensures[{label}]", out, "post")
            else:
                g = I.eval_spec(ens, senv)
                cx.oblige(f"{base}::ensures[{label}]", g, "post")
        # canary: `ensures False` must be refutable on a normal path
        ob = Obligation(f"{base}::canary", "canary", cx.pc, z3.BoolVal(False), cx.path_id, expect="sat")
        cx.obligations.append(ob)
        return ("ok", None)

    try:
        results = cx.explore(thunk, restore)
        rec["paths"] = len(results)
        rec["outcomes"] = [str(o[1]) if o[0] == "ok" else o[0] for _, o, _ in results]
    except Unsupported as e:
        rec["status"] = "unsupported"
        rec["error"] = str(e)
        rec["trace"] = traceback.format_exc()[-1500:]
        results = []
    except Exception as e:      # engine failure: checker crash, never a verdict
        rec["status"] = "crash"
        rec["error"] = f"{type(e).__name__}: {e}"
        rec["trace"] = traceback.format_exc()[-3000:]
        results = []
    rec["gen_s"] = round(time.time() - t_start, 3)
    rec["trusted"] = sorted(cx.trusted | natives.TRUSTED)
    rec["sources"] = {k: v[0] for k, v in loader.sources.items()}
    rec["dropped"] = {k: v.get("dropped", []) for k, v in loader.dropped.items() if v}
    # discharge
    timeout = case.timeout or (10.0 if tier == "quick" else 60.0)
    # canaries / probes: keep only one per distinct name (first path), they
    # guard against vacuity, not correctness
    seen = set()
    n_sample = 0
    seen_vc = set()
    rec["duplicate_vcs"] = 0
    for ob in cx.obligations:
        if ob.expect == "sat":
            if ob.name in seen:
                continue
            seen.add(ob.name)
        else:
            # the same VC reached along several paths (shared prefix) is one obligation
            key = (ob.name, ob.goal.get_id(), tuple(h.get_id() for h in ob.hyps))
            if key in seen_vc:
                rec["duplicate_vcs"] += 1
                continue
            seen_vc.add(key)
        solve.discharge(ob, timeout)
        o = {"name": ob.name, "kind": ob.kind, "path": ob.path, "verdict": ob.verdict,
             "backend": ob.backend, "time": round(ob.time, 4), "info": ob.info,
             "reason": ob.reason}
        if ob.verdict == "refuted" and ob.expect == "unsat":
            o["model"] = model_to_dict(ob.model, all_consts(ob, syms_by_path.get(ob.path, {})))
            o["goal"] = str(ob.goal)[:400]
        if ob.expect == "unsat" and n_sample < 2 and ob.verdict == "proved":
            try:
                o["smt2"] = solve.smt2_of(ob.hyps, z3.Not(ob.goal))[:3000]
                n_sample += 1
            except Exception:
                pass
        o["_ob"] = None
        rec["obligations"].append(o)
    # known-finding classification needs the live terms: done here
    rec["_live"] = None
    rec["wall_s"] = round(time.time() - t_start, 3)
    return rec, cx, syms_by_path


# --------------------------------------------------------------------------

def classify_known(rec, cx, syms_by_path, findings):
    """for every refuted obligation matching a known finding, re-run the query
    with the recorded witness class excluded; unsat => all witnesses are of the
    known class"""
    live = {(ob.name, ob.path): ob for ob in cx.obligations}
    for o in rec["obligations"]:
        if o["verdict"] != "refuted" or o["kind"] in ("canary", "vacuity"):
            continue
        for kf in findings:
            if kf.get("status", "open") != "open":
                continue
            if o["name"] not in kf.get("obligations", [kf.get("obligation")]):
                continue
            ob = live[(o["name"], o["path"])]
            syms = syms_by_path.get(o["path"], {})
            ns = {k: (v.term if isinstance(v, CV) else v) for k, v in syms.items()}
            ns.update({"And": z3.And, "Or": z3.Or, "Not": z3.Not, "Implies": z3.Implies,
                       "Length": z3.Length, "If": z3.If})
            try:
                pred = eval(kf["witness_class"], {"__builtins__": {}}, ns)
            except Exception as e:
                o["known_error"] = f"witness class not evaluable: {e}"
                continue
            s = z3.Solver()
            s.set("timeout", 20000)
            for h in ob.hyps:
                s.add(h)
            s.add(z3.Not(ob.goal))
            s.add(z3.Not(zbool(pred)))
            r = s.check()
            if r == z3.unsat:
                o["known_finding"] = kf["id"]
            elif r == z3.sat:
                o["model"] = model_to_dict(s.model(), syms)
                o["outside_known_class"] = kf["id"]
            else:
                o["known_finding"] = None
                o["known_undecided"] = kf["id"]


def _worker(args):
    prop, idx, tier, src_root = args
    try:
        mod = importlib.import_module(f"contracts.{prop}")
        case = mod.CASES[idx]
        findings = load_findings(prop)
        rec, cx, syms = run_case(case, tier, src_root)
        classify_known(rec, cx, syms, findings)
        rec.pop("_live", None)
        for o in rec["obligations"]:
            o.pop("_ob", None)
        return rec
    except Exception as e:
        return {"case": f"{prop}#{idx}", "status": "crash", "error": f"{type(e).__name__}: {e}",
                "trace": traceback.format_exc()[-3000:], "obligations": [], "paths": 0}


def load_findings(prop):
    p = os.path.join(VERIF, "known_findings.json")
    if not os.path.exists(p):
        return []
    data = json.load(open(p))
    return [f for f in data.get("findings", []) if f.get("property") == prop]


def replay(prop, o, rec, tier):
    """replay a refuted obligation's model on the real code (under
    /venv/bin/python).  Returns (reproduced: bool|None, detail, path)"""
    out_root = os.environ.get("VERIF_OUT", VERIF)
    os.makedirs(os.path.join(out_root, "replays"), exist_ok=True)
    safe = "".join(c if c.isalnum() else "_" for c in o["name"])[:120]
    path = os.path.join(out_root, "replays", f"{prop}_{safe}_p{o['path']}.json")
    payload = {"property": prop, "obligation": o["name"], "case": rec["case"],
               "kind": o["kind"], "path": o["path"], "model": o.get("model", {}),
               "goal": o.get("goal"), "info": o.get("info"), "solver": o.get("backend"),
               "solver_output": o.get("reason")}
    replayer = os.path.join(VERIF, "replayers", f"{prop}.py")
    reproduced, detail = None, "no replayer for this obligation"
    with open(path, "w") as f:
        json.dump(payload, f, indent=1, default=str)
    if os.path.exists(replayer):
        try:
            p = subprocess.run(["/venv/bin/python", replayer, path], capture_output=True, text=True,
                               timeout=300, cwd=VERIF,
                               env=dict(os.environ, PYTHONPATH=os.environ.get("PYTHONPATH", "")))
            last = [l for l in p.stdout.strip().split("\n") if l.startswith("{")]
            if last:
                r = json.loads(last[-1])
                reproduced, detail = r.get("reproduced"), r.get("detail")
            else:
                detail = f"replayer gave no verdict (rc={p.returncode}): {p.stdout[-300:]} {p.stderr[-500:]}"
        except subprocess.TimeoutExpired:
            detail = "replayer timeout"
    payload["replay"] = {"reproduced": reproduced, "detail": detail}
    with open(path, "w") as f:
        json.dump(payload, f, indent=1, default=str)
    return reproduced, detail, path


def main(argv=None):
    ap = argparse.ArgumentParser()
    ap.add_argument("prop")
    ap.add_argument("--tier", default=os.environ.get("VERIF_TIER", "quick"))
    ap.add_argument("--replay")
    ap.add_argument("--case", type=int, default=None)
    ap.add_argument("--src-root", default=None)
    ap.add_argument("--jobs", type=int, default=int(os.environ.get("VERIF_JOBS", "16")))
    ap.add_argument("-v", action="store_true")
    args = ap.parse_args(argv)
    prop = args.prop
    tier = "thorough" if args.tier == "thorough" else "quick"
    seed = int(os.environ.get("VERIF_SEED", "0"))
    t0 = time.time()
    if args.replay:
        replayer = os.path.join(VERIF, "replayers", f"{prop}.py")
        p = subprocess.run(["/venv/bin/python", replayer, args.replay], cwd=VERIF)
        return p.returncode
    try:
        mod = importlib.import_module(f"contracts.{prop}")
    except Exception:
        traceback.print_exc()
        print(f"CHECKER-FAILURE property={prop} contract file does not load")
        return 3
    idxs = list(range(len(mod.CASES))) if args.case is None else [args.case]
    jobs = [(prop, i, tier, args.src_root) for i in idxs]
    if args.jobs > 1 and len(jobs) > 1:
        ctxm = mp.get_context("fork")
        with ctxm.Pool(min(args.jobs, len(jobs))) as pool:
            recs = pool.map(_worker, jobs, chunksize=1)
    else:
        recs = [_worker(j) for j in jobs]
    from pyvc import report
    bounded = None
    if hasattr(mod, "bounded"):
        try:
            bounded = mod.bounded(tier, seed)
        except Exception as e:
            bounded = {"status": "crash", "error": f"{type(e).__name__}: {e}", "trace": traceback.format_exc()[-2000:]}
    return report.finish(prop, mod, recs, tier, seed, t0, replay, verbose=args.v, bounded=bounded)


if __name__ == "__main__":
    sys.exit(main())
