"""pyvc.run -- per-property driver: generate obligations from /repo's current
source, discharge them, replay counter-models, write evidence.

Two phases, both on a process pool:
  1. per case (function under contract): symbolic execution of the real AST,
     obligations exported as SMT-LIB text (ground-instantiated and full form)
  2. per obligation: z3 (ground, then full), cvc5 on `unknown`

exit 0 held / 1 VIOLATION / 2 undecided / 3 checker failure"""
import argparse
import importlib
import json
import multiprocessing as mp
import os
import subprocess
import sys
import time
import traceback
import z3

VERIF = os.path.dirname(os.path.dirname(os.path.abspath(__file__)))
sys.path.insert(0, VERIF)

from pyvc.core import Unsupported, EngineError, CV, simp, zbool  # noqa: E402
from pyvc.heap import reset_alloc, Class, Func, Property, StaticMethod, ClassMethod, Native, BoundMethod, Obj  # noqa: E402
from pyvc.interp import Ctx, Interp, Env, Raised, PathEnd, Obligation  # noqa: E402
from pyvc.loader import Loader  # noqa: E402
from pyvc import solve, natives, vc  # noqa: E402


class CachedLoader(Loader):
    """parses each source file once per process; module environments are
    rebuilt for every path"""
    _trees = {}

    def parse(self, relpath):
        key = (self.src_root, relpath)
        if key not in CachedLoader._trees:
            CachedLoader._trees[key] = (Loader.parse(self, relpath), dict(self.sources), dict(self.dropped))
        tree_info, srcs, dropped = CachedLoader._trees[key]
        self.sources.update(srcs)
        self.dropped.update(dropped)
        return tree_info


def resolve_target(I, target):
    relpath, qual = target.split("::")
    mod = I.loader.load(I, relpath)
    parts = qual.split(".")
    if parts[0] not in mod.ns:
        raise EngineError(f"{target}: {parts[0]} not found in {relpath} "
                          f"(skipped top-level statements: {getattr(mod, 'skipped', [])[:5]})")
    v = mod.ns[parts[0]]
    owner = None
    for p in parts[1:]:
        if isinstance(v, Class):
            owner = v
            w, _ = v.lookup(p)
            if w is None:
                raise EngineError(f"{target}: {p} not found")
            v = w
        else:
            raise EngineError(f"{target}: cannot descend into {v!r}")
    if isinstance(v, Property):
        v = v.fget
    if isinstance(v, (StaticMethod, ClassMethod)):
        v = v.func
    return v, owner, mod


def spec_env(I, mod, names, specs):
    env = Env(module=mod)
    env.parent = mod.env
    env.is_spec = True
    env.vars.update(names)
    for k, fn in (specs or {}).items():
        env.vars[k] = Native(k, (lambda f: lambda I_, a, kw: f(I_, *a, **kw))(fn))
    return env


def run_case(case, tier="quick", src_root=None, findings=()):
    """phase 1: returns a picklable record; rec['jobs'] holds the VCs as text"""
    t_start = time.time()
    cx = Ctx(case.name)
    loader = CachedLoader(src_root)
    rec = {"case": case.name, "target": case.target, "variant": case.variant,
           "jobs": [], "obligations": [], "status": "ok", "error": None, "paths": 0,
           "level": case.level, "note": case.note}
    syms_by_path = {}

    def restore():
        cx.counter.clear()
        reset_alloc()
        natives._pow_fns.clear()
        loader.modules.clear()
        loader.libs.clear()

    def thunk():
        cx.path_id = len(syms_by_path)
        I = Interp(cx, loader)
        I.overflow_checks = case.overflow
        I.extra_libs = dict(case.libs)
        I.recursive_contracts = set(case.recursive)
        f, owner, mod = resolve_target(I, case.target)
        qual = f.qualname if isinstance(f, Func) else case.target
        I.contracts[qual] = {"loops": case.loops}
        I.contracts[case.target] = {"loops": case.loops}
        for q, loops in case.helper_loops.items():
            I.contracts[q] = {"loops": loops}
        for q, cc in case.call_contracts.items():
            I.call_contracts[q] = cc
        su = case.setup(I)
        args, kwargs, ghost = su.get("args", []), su.get("kwargs", {}), su.get("ghost", {})
        names = dict(ghost)
        if isinstance(f, Func):
            a = f.node.args
            params = [p.arg for p in a.posonlyargs + a.args]
            for p, v in zip(params, args):
                names.setdefault(p, v)
            for k, v in kwargs.items():
                names.setdefault(k, v)
        syms = {k: v for k, v in names.items()
                if isinstance(v, (z3.ExprRef, CV, int, bool, str)) or v is None}
        syms.update(su.get("syms", {}))
        syms_by_path[cx.path_id] = syms
        senv = spec_env(I, mod, names, case.specs)
        for r in case.requires:
            cx.assume(I.eval_spec(r, senv))
        cx.probe(f"{case.name}::requires_satisfiable")
        base = f"{case.name}"
        try:
            result = I.call(f, args, kwargs)
        except Raised as r:
            ename = r.exc.cls.name
            mro = [c.name for c in r.exc.cls.mro]
            hit = [e for e in case.raises if e in mro]
            if hit:
                cond = I.eval_spec(case.raises[hit[0]], senv)
                cx.oblige(f"{base}::raises_only_if[{hit[0]}]", cond, "exceptional-post")
            elif any(e in mro for e in case.may_raise) or any(e in mro for e in case.exc_ensures):
                pass
            else:
                cx.oblige(f"{base}::no_unexpected_exception[{ename}]", False, "exceptional-post",
                          {"exception": ename, "args": str(r.exc.attrs.get("args"))[:200]})
            for e, posts in case.exc_ensures.items():
                if e not in mro:
                    continue
                senv.vars["exc"] = r.exc
                for label, ens in posts:
                    out = ens(I, senv) if callable(ens) else I.eval_spec(ens, senv)
                    if isinstance(out, list):
                        for sub, g in out:
                            cx.oblige(f"{base}::on[{e}].ensures[{label}.{sub}]", g, "exceptional-post")
                    else:
                        cx.oblige(f"{base}::on[{e}].ensures[{label}]", out, "exceptional-post")
                break
            return ("raise", ename)
        for e, cond in case.raises.items():
            c = I.eval_spec(cond, senv)
            cx.oblige(f"{base}::must_raise[{e}]", natives.neg(c), "exceptional-post")
        senv.vars["result"] = result
        for label, ens in case.ensures:
            if callable(ens):
                out = ens(I, senv)
                if isinstance(out, list):
                    for sub, g in out:
                        cx.oblige(f"{base}::ensures[{label}.{sub}]", g, "post")
                else:
                    cx.oblige(f"{base}::ensures[{label}]", out, "post")
            else:
                g = I.eval_spec(ens, senv)
                cx.oblige(f"{base}::ensures[{label}]", g, "post")
        ob = Obligation(f"{base}::canary", "canary", cx.pc, z3.BoolVal(False), cx.path_id, expect="sat")
        cx.obligations.append(ob)
        return ("ok", None)

    try:
        results = cx.explore(thunk, restore)
        rec["paths"] = len(results)
        rec["outcomes"] = [str(o[1]) if o[0] == "ok" else o[0] for _, o, _ in results]
    except Unsupported as e:
        rec["status"] = "unsupported"
        rec["error"] = str(e)
        rec["trace"] = traceback.format_exc()[-1500:]
    except Exception as e:      # engine failure: checker crash, never a verdict
        rec["status"] = "crash"
        rec["error"] = f"{type(e).__name__}: {e}"
        rec["trace"] = traceback.format_exc()[-3000:]
    rec["gen_s"] = round(time.time() - t_start, 3)
    rec["trusted"] = sorted(cx.trusted | natives.TRUSTED)
    rec["sources"] = {k: v[0] for k, v in loader.sources.items()}
    rec["dropped"] = {k: sorted(set(v.get("dropped", []))) for k, v in loader.dropped.items() if v}
    rec["trivial_safety_checks"] = getattr(cx, "trivial", 0)
    rec["renamed_identifiers"] = dict(getattr(loader, "renamed", {}) or {})
    if rec["status"] == "ok":
        try:
            rec["jobs"] = make_jobs(case, cx, syms_by_path, tier, findings, rec)
        except Exception as e:
            rec["status"] = "crash"
            rec["error"] = f"VC export: {type(e).__name__}: {e}"
            rec["trace"] = traceback.format_exc()[-3000:]
    rec["prep_s"] = round(time.time() - t_start, 3)
    return rec


BATCH = 16


def make_jobs(case, cx, syms_by_path, tier, findings, rec):
    timeout = case.timeout or (10.0 if tier == "quick" else 60.0)
    jobs = []
    seen_probe, seen_vc = set(), set()
    rec["duplicate_vcs"] = 0
    groups = {}          # hyps key -> list of (name, ob, goal, skolems)  (quantifier-free contexts)
    for ob in cx.obligations:
        if ob.expect == "sat":
            if ob.name in seen_probe:
                continue
            seen_probe.add(ob.name)
            jobs.append({"case": case.name, "name": ob.name, "kind": ob.kind, "path": ob.path, "expect": "sat",
                         "info": ob.info, "timeout": timeout, "ground": None,
                         "full": vc.to_smt2([h for h in ob.hyps if not vc.has_q(h)], z3.BoolVal(True))})
            continue
        key = (ob.name, ob.goal.get_id(), tuple(h.get_id() for h in ob.hyps))
        if key in seen_vc:
            rec["duplicate_vcs"] += 1
            continue
        seen_vc.add(key)
        syms = syms_by_path.get(ob.path, {})
        alias = []
        for k, t in syms.items():
            if isinstance(t, CV):
                t = t.term
            if isinstance(t, z3.ExprRef) and not (z3.is_const(t) and str(t) == k):
                alias.append(z3.Const("g!" + k, t.sort()) == t)
        parts = vc.split_goal(ob.goal, "q")
        kfs = [kf for kf in findings if kf.get("status", "open") == "open"
               and ob.name in kf.get("obligations", [kf.get("obligation")])]
        quantified = any(vc.has_q(h) for h in ob.hyps)
        for sfx, g, sk in parts:
            name = ob.name + sfx
            hyps = list(ob.hyps) + alias
            neg = z3.Not(g)
            if not quantified and not kfs and not vc.has_q(g):
                hk = (ob.path, tuple(h.get_id() for h in hyps))
                groups.setdefault(hk, (hyps, []))[1].append((name, ob, g))
                continue
            gv = vc.ground_version(hyps, g, sk)
            # (for an existential goal the instances of its negation are part of gv already)
            gneg = z3.BoolVal(True) if vc.exists_goal_as_hyp(g) is not None else neg
            job = {"case": case.name, "name": name, "kind": ob.kind, "path": ob.path, "expect": "unsat",
                   "info": ob.info, "timeout": timeout,
                   "ground": vc.to_smt2(gv, gneg) if gv is not None else None,
                   "full": vc.to_smt2(hyps, neg), "goal": g.sexpr()[:400], "kf": []}
            for kf in kfs:
                ns = {k: (v.term if isinstance(v, CV) else v) for k, v in syms.items()}
                ns.update({"And": z3.And, "Or": z3.Or, "Not": z3.Not, "Implies": z3.Implies,
                           "Length": z3.Length, "If": z3.If})
                try:
                    pred = eval(kf["witness_class"], {"__builtins__": {}}, ns)
                    job["kf"].append({"id": kf["id"], "smt2": vc.to_smt2(hyps + [z3.Not(zbool(pred))], neg)})
                except Exception as e:
                    job["kf"].append({"id": kf["id"], "error": f"witness class not evaluable: {e}"})
            jobs.append(job)
    # obligations sharing one quantifier-free context: one solver, one goal at a time
    for (path, _), (hyps, items) in groups.items():
        for c0 in range(0, len(items), BATCH):
            chunk = items[c0:c0 + BATCH]
            s = z3.Solver()
            for h in hyps:
                s.add(h)
            metas = []
            for i, (name, ob, g) in enumerate(chunk):
                s.add(z3.Implies(z3.Bool(f"goal!marker!{i}"), z3.Not(g)))
                metas.append({"name": name, "kind": ob.kind, "path": ob.path, "info": ob.info, "goal": None})
            jobs.append({"case": case.name, "batch": True, "expect": "unsat", "timeout": timeout,
                         "full": s.to_smt2(), "items": metas, "path": path})
    return jobs


# --------------------------------------------------------------------------
# phase 2

def _consts_of(assertions):
    out, seen = {}, set()
    stack = list(assertions)
    while stack:
        t = stack.pop()
        if t.get_id() in seen:
            continue
        seen.add(t.get_id())
        if z3.is_const(t) and t.decl().kind() == z3.Z3_OP_UNINTERPRETED:
            out[str(t)] = t
        if z3.is_quantifier(t):
            stack.append(t.body())
        else:
            stack.extend(t.children())
    return out


def _model_dict(model, consts):
    d = {}
    for k, t in consts.items():
        if z3.is_array(t):
            continue
        try:
            v = model.eval(t, model_completion=True)
            if z3.is_int_value(v):
                d[k] = v.as_long()
            elif z3.is_true(v):
                d[k] = True
            elif z3.is_false(v):
                d[k] = False
            elif z3.is_string_value(v):
                d[k] = v.as_string()
            elif z3.is_bv_value(v):
                d[k] = v.as_long()
            elif z3.is_rational_value(v):
                d[k] = str(v.as_fraction())
            else:
                d[k] = str(v)[:80]
        except Exception:
            pass
    # ghost aliases g!name -> name
    for k in list(d):
        if k.startswith("g!"):
            d.setdefault(k[2:], d[k])
    return d


def _check_text(txt, timeout_s):
    s = z3.Solver()
    s.set("timeout", int(timeout_s * 1000))
    a = z3.parse_smt2_string(txt)
    s.add(a)
    r = s.check()
    return r, s, a


def solve_batch(job):
    """several goals under one quantifier-free context: parse once, check each
    goal under its marker (check-sat-assuming)"""
    outs = []
    T = job["timeout"]
    try:
        s = z3.Solver()
        s.set("timeout", int(T * 1000))
        a = z3.parse_smt2_string(job["full"])
        s.add(a)
        consts = _consts_of(a)
    except Exception as e:
        return [{"case": job["case"], **m, "verdict": "crash", "backend": None, "time": 0.0,
                 "reason": f"{type(e).__name__}: {e}"} for m in job["items"]]
    hyps = [x for x in a if not (z3.is_implies(x) and str(x.arg(0)).startswith("goal!marker"))]
    negs = {str(x.arg(0)): x.arg(1) for x in a if z3.is_implies(x) and str(x.arg(0)).startswith("goal!marker")}
    for i, m in enumerate(job["items"]):
        t0 = time.time()
        o = {"case": job["case"], **m}
        neg = negs.get(f"goal!marker!{i}")
        # one parse for the whole batch, but a fresh solver per goal (the
        # incremental mode is much slower on div/mod-heavy arithmetic)
        s = z3.Solver()
        s.set("timeout", int(T * 1000))
        s.add(hyps)
        s.add(neg)
        r = s.check()
        o["backend"] = "z3-%s(api)" % z3.get_version_string()
        o["reason"] = None
        if r == z3.unsat:
            o["verdict"] = "proved"
        elif r == z3.sat:
            o["verdict"] = "refuted"
            o["goal"] = "not " + neg.sexpr()[:400]
            o["model"] = {k: v for k, v in _model_dict(s.model(), consts).items() if not k.startswith("goal!marker")}
        else:
            single = {"case": job["case"], "name": m["name"], "kind": m["kind"], "path": m["path"], "info": m["info"],
                      "expect": "unsat", "timeout": T, "ground": None, "goal": m["goal"], "kf": [],
                      "full": vc.to_smt2(hyps, neg)}
            o = solve_job(single)
        o["time"] = round(time.time() - t0, 4)
        outs.append(o)
    first = True
    for o in outs:
        if o["verdict"] == "proved" and first:
            o["smt2"] = job["full"][:2500]
            first = False
    return outs


def solve_job(job):
    if job.get("batch"):
        return solve_batch(job)
    t0 = time.time()
    out = {k: job[k] for k in ("case", "name", "kind", "path", "info")}
    out["goal"] = job.get("goal")
    T = job["timeout"]
    verdict, backend, reason, model = "undecided", None, None, None
    try:
        if job["expect"] == "sat":
            r, s, a = _check_text(job["full"], T)
            backend = "z3-%s(api)" % z3.get_version_string()
            verdict = "proved" if r == z3.sat else ("vacuous" if r == z3.unsat else "proved")
            if r == z3.unknown:
                reason = "probe unknown (treated as satisfiable): " + s.reason_unknown()
        else:
            ground_sat_model = None
            if job["ground"] is not None and len(job["ground"]) > 300000:
                # a very large ground instantiation: the quantified VC itself is often the easier query
                r, s, a = _check_text(job["full"], max(2.0, T / 3))
                if r == z3.unsat:
                    verdict, backend = "proved", "z3-%s(api)" % z3.get_version_string()
                elif r == z3.sat:
                    verdict, backend = "refuted", "z3-%s(api)" % z3.get_version_string()
                    model = _model_dict(s.model(), _consts_of(a))
            if verdict == "undecided" and job["ground"] is not None:
                r, s, a = _check_text(job["ground"], max(2.0, T / 2))
                if r == z3.unsat:
                    verdict, backend = "proved", "z3-%s(api, ground-instantiated hypotheses)" % z3.get_version_string()
                elif r == z3.sat:
                    ground_sat_model = _model_dict(s.model(), _consts_of(a))
            if verdict == "undecided":
                r, s, a = _check_text(job["full"], T)
                backend = "z3-%s(api)" % z3.get_version_string()
                if r == z3.unsat:
                    verdict = "proved"
                elif r == z3.sat:
                    verdict = "refuted"
                    model = _model_dict(s.model(), _consts_of(a))
                else:
                    reason = "z3: " + s.reason_unknown()
                    first, o, dt = solve.run_cvc5(job["full"], T)
                    if first == "unsat":
                        verdict, backend = "proved", "cvc5-1.0.3(cli)"
                    elif first == "sat" and job["ground"] is None:
                        verdict, backend = "refuted", "cvc5-1.0.3(cli)"
                        reason = "cvc5 sat; no model extracted"
                    else:
                        reason += " | cvc5: " + (first or "no answer")
                        if ground_sat_model is not None:
                            out["candidate_model"] = ground_sat_model
                            reason += " | ground instance satisfiable (candidate counter-model attached)"
            if verdict == "refuted":
                for kf in job.get("kf", []):
                    if "error" in kf:
                        out["known_error"] = kf["error"]
                        continue
                    r2, s2, a2 = _check_text(kf["smt2"], max(T, 20.0))
                    if r2 == z3.unsat:
                        out["known_finding"] = kf["id"]
                    elif r2 == z3.sat:
                        model = _model_dict(s2.model(), _consts_of(a2))
                        out["outside_known_class"] = kf["id"]
                    else:
                        out["known_undecided"] = kf["id"]
    except Exception as e:
        verdict = "crash"
        reason = f"{type(e).__name__}: {e}"
        out["trace"] = traceback.format_exc()[-1500:]
    out.update({"verdict": verdict, "backend": backend, "reason": reason, "time": round(time.time() - t0, 4)})
    if model is not None:
        out["model"] = model
    if verdict == "proved" and job["expect"] == "unsat":
        out["smt2"] = (job["ground"] or job["full"])[:2500]
    return out


def _gen_worker(args):
    prop, idx, tier, src_root = args
    try:
        mod = importlib.import_module(f"contracts.{prop}")
        case = mod.CASES[idx]
        return run_case(case, tier, src_root, load_findings(prop))
    except Exception as e:
        return {"case": f"{prop}#{idx}", "target": f"{prop}#{idx}", "status": "crash",
                "error": f"{type(e).__name__}: {e}", "trace": traceback.format_exc()[-3000:],
                "obligations": [], "jobs": [], "paths": 0}


def load_findings(prop):
    p = os.path.join(VERIF, "known_findings.json")
    if not os.path.exists(p):
        return []
    data = json.load(open(p))
    return [f for f in data.get("findings", []) if f.get("property") == prop]


def replay(prop, o, rec, tier):
    """replay a refuted obligation's model on the real code (under
    /venv/bin/python).  Returns (reproduced: bool|None, detail, path)"""
    out_root = os.environ.get("VERIF_OUT", VERIF)
    os.makedirs(os.path.join(out_root, "replays"), exist_ok=True)
    safe = "".join(c if c.isalnum() else "_" for c in o["name"])[:120]
    path = os.path.join(out_root, "replays", f"{prop}_{safe}_p{o['path']}.json")
    payload = {"property": prop, "obligation": o["name"], "case": rec["case"],
               "kind": o["kind"], "path": o["path"], "model": o.get("model") or o.get("candidate_model") or {},
               "goal": o.get("goal"), "info": o.get("info"), "solver": o.get("backend"),
               "solver_output": o.get("reason")}
    replayer = os.path.join(VERIF, "replayers", f"{prop}.py")
    reproduced, detail = None, "no replayer for this obligation"
    with open(path, "w") as f:
        json.dump(payload, f, indent=1, default=str)
    if os.path.exists(replayer):
        try:
            p = subprocess.run(["/venv/bin/python", replayer, path], capture_output=True, text=True,
                               timeout=300, cwd=VERIF)
            last = [l for l in p.stdout.strip().split("\n") if l.startswith("{")]
            if last:
                r = json.loads(last[-1])
                reproduced, detail = r.get("reproduced"), r.get("detail")
            else:
                detail = f"replayer gave no verdict (rc={p.returncode}): {p.stdout[-300:]} {p.stderr[-500:]}"
        except subprocess.TimeoutExpired:
            detail = "replayer timeout"
    payload["replay"] = {"reproduced": reproduced, "detail": detail}
    with open(path, "w") as f:
        json.dump(payload, f, indent=1, default=str)
    return reproduced, detail, path


def main(argv=None):
    ap = argparse.ArgumentParser()
    ap.add_argument("prop")
    ap.add_argument("--tier", default=os.environ.get("VERIF_TIER", "quick"))
    ap.add_argument("--replay")
    ap.add_argument("--case", type=int, default=None)
    ap.add_argument("--src-root", default=None)
    ap.add_argument("--jobs", type=int, default=int(os.environ.get("VERIF_JOBS", "16")))
    ap.add_argument("-v", action="store_true")
    ap.add_argument("--record-baseline", action="store_true",
                    help="write baseline/<prop>.<tier>.json (obligations discharged on this tree); run on the pinned tree only")
    args = ap.parse_args(argv)
    prop = args.prop
    if args.case is not None:
        os.environ["VERIF_SINGLE_CASE"] = "1"
    if args.src_root:
        os.environ["VERIF_SRC"] = args.src_root      # replayers and the concrete engine follow
    tier = "thorough" if args.tier == "thorough" else "quick"
    seed = int(os.environ.get("VERIF_SEED", "0"))
    t0 = time.time()
    if args.replay:
        replayer = os.path.join(VERIF, "replayers", f"{prop}.py")
        p = subprocess.run(["/venv/bin/python", replayer, args.replay], cwd=VERIF)
        return p.returncode
    try:
        mod = importlib.import_module(f"contracts.{prop}")
    except Exception:
        traceback.print_exc()
        print(f"CHECKER-FAILURE property={prop} contract file does not load")
        return 3
    idxs = [i for i, c in enumerate(mod.CASES) if tier in getattr(c, "tiers", (tier,))] if args.case is None else [args.case]
    gen_jobs = [(prop, i, tier, args.src_root) for i in idxs]
    ctxm = mp.get_context("fork")
    nproc = max(1, args.jobs)
    if nproc > 1 and len(gen_jobs) > 1:
        with ctxm.Pool(min(nproc, len(gen_jobs))) as pool:
            recs = pool.map(_gen_worker, gen_jobs, chunksize=1)
    else:
        recs = [_gen_worker(j) for j in gen_jobs]
    t1 = time.time()
    all_jobs = []
    for ri, rec in enumerate(recs):
        for j in rec.pop("jobs", []):
            j["_rec"] = ri
            all_jobs.append(j)
    if nproc > 1 and len(all_jobs) > 1:
        with ctxm.Pool(min(nproc, len(all_jobs))) as pool:
            outs = pool.map(solve_job, all_jobs, chunksize=max(1, min(8, len(all_jobs) // (4 * nproc) or 1)))
    else:
        outs = [solve_job(j) for j in all_jobs]
    # obligations that were discharged on the pinned tree but came back undecided get a second,
    # much longer attempt on a lightly loaded machine before anything is reported
    from pyvc import report as _report
    base = _report.load_baseline(prop, tier)
    if base:
        again = []
        for k, (j, res) in enumerate(zip(all_jobs, outs)):
            rs = res if isinstance(res, list) else [res]
            und = [o for o in rs if o["verdict"] == "undecided" and _report.norm_name(o["name"]) in base]
            if und:
                # a failing input on the real code settles it at once: no need for the long second attempt
                found = False
                for o in und[:3]:
                    try:
                        rep_, _, _ = replay(prop, o, recs[j["_rec"]], tier)
                    except Exception:
                        rep_ = None
                    if rep_:
                        found = True
                        break
                if found:
                    continue
                tmax = max(base[_report.norm_name(o["name"])] for o in und)
                j2 = dict(j)
                # ten times the time it took on the pinned tree for quick obligations (load spikes), three times
                # plus a margin for the slow ones
                j2["timeout"] = max(3 * j["timeout"], 10 * tmax if tmax < 6 else 3 * tmax + 40)
                again.append((k, j2))
        again = again[:48]
        if again:
            with ctxm.Pool(min(4, len(again))) as pool:
                outs2 = pool.map(solve_job, [j2 for _, j2 in again], chunksize=1)
            for (k, _), res2 in zip(again, outs2):
                old = outs[k] if isinstance(outs[k], list) else [outs[k]]
                new = res2 if isinstance(res2, list) else [res2]
                merged = []
                for o, o2 in zip(old, new):
                    if o["verdict"] == "undecided" and o2["verdict"] in ("proved", "refuted"):
                        o2["retried"] = True
                        merged.append(o2)
                    else:
                        merged.append(o)
                outs[k] = merged if isinstance(outs[k], list) else merged[0]
    for j, res in zip(all_jobs, outs):
        for o in (res if isinstance(res, list) else [res]):
            if o["verdict"] == "crash":
                recs[j["_rec"]]["status"] = "crash"
                recs[j["_rec"]]["error"] = f"solver job {o['name']}: {o['reason']}"
            recs[j["_rec"]]["obligations"].append(o)
    for rec in recs:
        rec["solve_wall_s"] = round(time.time() - t1, 3)
    from pyvc import report
    bounded = None
    if hasattr(mod, "bounded") and args.case is None:
        try:
            bounded = mod.bounded(tier, seed)
        except Exception as e:
            bounded = {"status": "crash", "error": f"{type(e).__name__}: {e}", "trace": traceback.format_exc()[-2000:]}
    return report.finish(prop, mod, recs, tier, seed, t0, replay, verbose=args.v, bounded=bounded,
                         record_baseline=args.record_baseline and args.case is None and not args.src_root)


if __name__ == "__main__":
    sys.exit(main())
