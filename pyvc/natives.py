"""pyvc.natives -- builtins, operators on Python values, attribute and item
protocols, and the library models (sys, numbers, copy, enum, abc, functools,
time, itertools ...).  Everything in here is part of the trusted base: these
are *contracts for the Python runtime*, listed in the evidence."""
import ast
import sys
import z3

from .core import (CV, Unsupported, INT_TYPES, is_int_ctype, is_float_ctype,
                   int_range, norm_ctype, zint, zbool, zstr, zreal, simp,
                   wrap_int, arith_type, promote, py_floordiv, py_mod, is_z3)
from .heap import (Class, Obj, Func, BoundMethod, Native, Property,
                   StaticMethod, ClassMethod, Module, EnumVal, PList, PSet,
                   PDict, AbsColl, MapSummary, Opaque, SymArr, Cell, Poison,
                   SliceObj, RangeObj, HeapObj)

TRUSTED = set()


def trust(s):
    TRUSTED.add(s)


# --------------------------------------------------------------------------
# type predicates

def is_pyint(v):
    if isinstance(v, bool):
        return True
    if isinstance(v, int):
        return True
    if isinstance(v, z3.ArithRef) and v.is_int():
        return True
    if isinstance(v, z3.BoolRef):
        return True
    return False


def is_num(v):
    return is_pyint(v) or isinstance(v, float) or (isinstance(v, z3.ArithRef))


def is_str(v):
    return isinstance(v, str) or (isinstance(v, z3.SeqRef) and v.is_string()) or hasattr(v, "to_z3")


def type_name(v):
    if isinstance(v, CV):
        return "int" if is_int_ctype(v.ctype) else "float"
    if v is None:
        return "NoneType"
    if isinstance(v, bool) or isinstance(v, z3.BoolRef):
        return "bool"
    if is_pyint(v):
        return "int"
    if isinstance(v, float) or (isinstance(v, z3.ArithRef) and v.is_real()):
        return "float"
    if is_str(v):
        return "str"
    if isinstance(v, tuple):
        return "tuple"
    if isinstance(v, PList):
        return "list"
    if isinstance(v, PSet):
        return "frozenset" if v.frozen else "set"
    if isinstance(v, PDict):
        return "dict"
    if isinstance(v, SliceObj):
        return "slice"
    if isinstance(v, Obj):
        return v.cls.name
    if isinstance(v, EnumVal):
        return v.cls.name
    if isinstance(v, SymArr):
        return "ndarray"
    if isinstance(v, (Func, Native, BoundMethod)):
        return "function"
    if isinstance(v, Class):
        return "type"
    if isinstance(v, bytes):
        return "bytes"
    return type(v).__name__


def isinstance_(I, v, cls):
    if isinstance(cls, tuple):
        return any(isinstance_(I, v, c) for c in cls)
    if not isinstance(cls, Class):
        raise Unsupported(f"isinstance against {cls!r}")
    if isinstance(v, Obj):
        return v.cls.issubclass(cls)
    if isinstance(v, EnumVal):
        if v.cls.issubclass(cls):
            return True
        if v.cls.kind == "intenum" and cls.name in ("int", "Integral", "Number", "Real"):
            return True
        return False
    tn = type_name(v)
    name = cls.name
    table = {
        "int": {"int", "bool"}, "bool": {"bool"}, "str": {"str"}, "float": {"float"},
        "list": {"list"}, "tuple": {"tuple"}, "dict": {"dict"}, "set": {"set"},
        "frozenset": {"frozenset"}, "slice": {"slice"}, "NoneType": {"NoneType"},
        "Integral": {"int", "bool"}, "Real": {"int", "bool", "float"},
        "Number": {"int", "bool", "float"}, "ndarray": {"ndarray"}, "object": None,
        "bytes": {"bytes"}, "type": {"type"}, "Iterable": {"list", "tuple", "set", "frozenset", "dict", "str", "ndarray"},
        "Sequence": {"list", "tuple", "str"}, "integer": set(), "floating": set(),
    }
    if name == "object":
        return True
    if name in table:
        return tn in table[name]
    return False


# --------------------------------------------------------------------------
# symbolic helpers

_pow_fns = {}


def sym_pow(I, base, e):
    """base ** e for concrete base > 1 and symbolic e >= 0: uninterpreted
    function with the defining equations instantiated on a bounded range"""
    f = _pow_fns.get(base)
    if f is None:
        f = z3.Function(f"pow{base}", z3.IntSort(), z3.IntSort())
        _pow_fns[base] = f
    e = simp(e)
    if isinstance(e, int):
        return base ** e
    # facts for exponents 0..24 (enough for the 32/64-bit ranges used here)
    I.ctx.assume(z3.And([z3.Implies(e == k, f(e) == base ** k) for k in range(0, 25)]))
    I.ctx.assume(z3.Implies(e >= 25, f(e) >= base ** 25))
    I.ctx.trusted.add(f"pow{base}(e) == {base}**e instantiated for 0<=e<25, monotone above")
    return f(e)


def int_bitop(I, o, x, y, bits):
    if isinstance(x, int) and isinstance(y, int):
        return {"&": x & y, "|": x | y, "^": x ^ y, "<<": x << y, ">>": x >> y}[o]
    if o == "<<" and isinstance(y, int):
        return zint(x) * (1 << y)
    if o == ">>" and isinstance(y, int):
        return py_floordiv(zint(x), 1 << y)
    if o == "&" and isinstance(y, int) and y >= 0 and (y & (y + 1)) == 0:
        return py_mod(zint(x), y + 1)
    if o == "&" and isinstance(x, int) and x >= 0 and (x & (x + 1)) == 0:
        return py_mod(zint(y), x + 1)
    # constant masks: arithmetic on the selected bits (integer div/mod by constants; holds for
    # negative operands too: Euclidean division by a positive constant is floor division, which is
    # the bit of the infinite two's-complement representation Python and C promote to)
    if o in ("&", "|", "^") and (isinstance(x, int) or isinstance(y, int)):
        const, var = (x, y) if isinstance(x, int) else (y, x)
        var = zint(var)
        from .core import bv_backed
        bv = bv_backed(var)
        if bv is not None:
            # flag values kept as bit-vectors (call contracts return them so): stay in that form
            k = bv.size()
            c = z3.BitVecVal(const % (1 << k), k)
            if o == "&" or const >= 0:
                r = {"&": bv & c, "|": bv | c, "^": bv ^ c}[o]
                if o == "&" or const < (1 << k):
                    # named so that later simplification keeps the BV2Int(constant) shape
                    nb = z3.BitVec(I.ctx.fresh_name("flags"), k)
                    I.ctx.assume(nb == r)
                    return z3.BV2Int(nb, is_signed=False)
        bit = lambda b: (var / (1 << b)) % 2
        setbits = lambda v: [b for b in range(v.bit_length()) if (v >> b) & 1]
        if o == "&" and const >= 0 and bin(const).count("1") <= 16:
            return z3.Sum([z3.IntVal(0)] + [(1 << b) * bit(b) for b in setbits(const)])
        if o == "&" and const < 0 and bin(~const).count("1") <= 16:
            return var - z3.Sum([z3.IntVal(0)] + [(1 << b) * bit(b) for b in setbits(~const)])
        if o == "|" and const >= 0 and bin(const).count("1") <= 16:
            return var + z3.Sum([z3.IntVal(0)] + [(1 << b) * (1 - bit(b)) for b in setbits(const)])
    # general case through bit-vectors
    bx = z3.Int2BV(zint(x), bits)
    by = z3.Int2BV(zint(y), bits)
    r = {"&": bx & by, "|": bx | by, "^": bx ^ by, "<<": bx << by, ">>": z3.LShR(bx, by)}[o]
    return z3.BV2Int(r, is_signed=False)


def str_of_int(t):
    """str(int) for a z3 Int"""
    t = zint(t)
    return z3.If(t >= 0, z3.IntToStr(t), z3.Concat(z3.StringVal("-"), z3.IntToStr(-t)))


# --------------------------------------------------------------------------
# binary operators on Python-level values

def py_binop(I, o, a, b, env):
    from .interp import OpaqueStr
    if isinstance(a, OpaqueStr) or isinstance(b, OpaqueStr):
        return OpaqueStr()
    from .strlib import RopePos, Lit
    if isinstance(a, RopePos) and isinstance(b, int) and o in ("+", "-"):
        off = a.off + b if o == "+" else a.off - b
        seg = a.rope.segs[a.seg]
        if isinstance(seg, Lit) and 0 <= off <= len(seg.s):
            return RopePos(a.rope, a.seg, off)
        raise Unsupported("string position arithmetic leaving a literal segment")
    # numbers
    if is_num(a) and is_num(b):
        conc = isinstance(a, (int, float)) and isinstance(b, (int, float))
        if conc:
            try:
                if o == "+": return a + b
                if o == "-": return a - b
                if o == "*": return a * b
                if o == "//":
                    if b == 0: I.throw("ZeroDivisionError", "division by zero")
                    return a // b
                if o == "%":
                    if b == 0: I.throw("ZeroDivisionError", "division by zero")
                    return a % b
                if o == "**": return a ** b
                if o == "/":
                    if b == 0: I.throw("ZeroDivisionError", "division by zero")
                    return z3.RealVal(a) / z3.RealVal(b) if isinstance(a, int) and isinstance(b, int) else a / b
                if o == "&": return a & b
                if o == "|": return a | b
                if o == "^": return a ^ b
                if o == "<<": return a << b
                if o == ">>": return a >> b
            except TypeError:
                raise Unsupported(f"operator {o} on {a!r},{b!r}")
        real = (is_z3(a) and a.is_real()) or (is_z3(b) and b.is_real()) or isinstance(a, float) or isinstance(b, float)
        if real or o == "/":
            x, y = zreal(a), zreal(b)
            if o == "+": return x + y
            if o == "-": return x - y
            if o == "*": return x * y
            if o == "/":
                if I.ctx.branch(y == 0):
                    I.throw("ZeroDivisionError", "division by zero")
                return x / y
            if o == "**" and isinstance(b, int) and b >= 0:
                r = z3.RealVal(1)
                for _ in range(b):
                    r = r * x
                return r
            raise Unsupported(f"real operator {o}")
        x, y = zint(a), zint(b)
        if o == "+": return simp(x + y)
        if o == "-": return simp(x - y)
        if o == "*": return simp(x * y)
        if o in ("//", "%"):
            if I.ctx.branch(simp(y == 0)):
                I.throw("ZeroDivisionError", "integer division or modulo by zero")
            return simp(py_floordiv(x, y) if o == "//" else py_mod(x, y))
        if o == "**":
            yb = simp(y)
            if isinstance(yb, int) and yb >= 0:
                r = z3.IntVal(1)
                for _ in range(yb):
                    r = r * x
                return simp(r)
            xb = simp(x)
            if isinstance(xb, int) and xb > 1:
                if I.ctx.branch(y < 0):
                    raise Unsupported("negative symbolic exponent")
                return sym_pow(I, xb, y)
            raise Unsupported("symbolic power")
        if o in ("&", "|", "^", "<<", ">>"):
            return int_bitop(I, o, simp(x), simp(y), 64)
    # strings
    if is_str(a) and is_str(b) and o == "+":
        if isinstance(a, str) and isinstance(b, str):
            return a + b
        from .strlib import cstr_of, CStr, Rope, rope_of, simple_norm
        if isinstance(a, Rope) or isinstance(b, Rope):
            ra, rb = rope_of(a), rope_of(b)
            if ra is not None and rb is not None:
                return simple_norm(Rope(ra.segs + rb.segs))
        ca, cb = cstr_of(a), cstr_of(b)
        if ca is not None and cb is not None:
            return CStr(ca.codes + cb.codes)
        return z3.Concat(zstr(a), zstr(b))
    if is_str(a) and o == "*" and isinstance(b, int):
        if isinstance(a, str):
            return a * b
        if b <= 0:
            return ""
        return z3.Concat(*[a] * b) if b > 1 else a
    if isinstance(a, str) and o == "*" and is_pyint(b):
        # c * n with symbolic n: fresh string of n copies
        n = zint(b)
        s = I.ctx.fresh_str("rep")
        if len(a) == 1:
            I.ctx.assume(z3.Length(s) == z3.If(n > 0, n, 0))
            I.ctx.assume(z3.InRe(s, z3.Star(z3.Re(z3.StringVal(a)))))
            return s
        raise Unsupported("string repetition")
    if isinstance(a, str) and o == "%":
        from .strlib import percent_format
        return percent_format(I, a, b)
    if isinstance(a, tuple) and isinstance(b, tuple) and o == "+":
        return a + b
    if isinstance(a, tuple) and isinstance(b, int) and o == "*":
        return a * b
    if isinstance(a, PList) and isinstance(b, PList) and o == "+":
        return PList(a.items + b.items)
    if isinstance(a, PList) and isinstance(b, int) and o == "*":
        return PList(a.items * b)
    if isinstance(a, PSet) and isinstance(b, PSet) and o == "|":
        r = PSet(list(a.items), frozen=a.frozen)
        set_update(I, r, b)
        return r
    if isinstance(a, PSet) and isinstance(b, PSet) and o == "&":
        return PSet([x for x in a.items if I.ctx.branch(contains(I, b, x))], frozen=a.frozen)
    if isinstance(a, PSet) and isinstance(b, PSet) and o == "-":
        return PSet([x for x in a.items if not I.ctx.branch(contains(I, b, x))], frozen=a.frozen)
    if isinstance(a, SymArr) or isinstance(b, SymArr):
        from . import nplib
        return nplib.arr_binop(I, o, a, b)
    if isinstance(a, (bytes,)) and isinstance(b, bytes) and o == "+":
        return a + b
    raise Unsupported(f"operator {o} on {type_name(a)} and {type_name(b)}")


# --------------------------------------------------------------------------
# comparisons

def eq(I, a, b):
    """Python == ; returns bool or z3 Bool"""
    from .interp import OpaqueStr
    if isinstance(a, CV) or isinstance(b, CV):
        return c_compare(I, "==", a, b)
    if a is None or b is None:
        return a is None and b is None
    if isinstance(a, EnumVal) or isinstance(b, EnumVal):
        if isinstance(a, EnumVal) and isinstance(b, EnumVal):
            if a.cls is not b.cls:
                return False
            return num_eq(a.value, b.value)
        ev, other = (a, b) if isinstance(a, EnumVal) else (b, a)
        if ev.cls.kind == "intenum" and is_num(other):
            return num_eq(ev.value, other)
        return False
    if is_num(a) and is_num(b):
        return num_eq(a, b)
    if isinstance(a, z3.BitVecRef) or isinstance(b, z3.BitVecRef):
        return simp(a == b)
    if is_str(a) and is_str(b):
        if isinstance(a, str) and isinstance(b, str):
            return a == b
        from .strlib import cstr_of, Rope, rope_of, rope_eq, FirstChar
        if isinstance(a, FirstChar) or isinstance(b, FirstChar):
            fc, other = (a, b) if isinstance(a, FirstChar) else (b, a)
            if isinstance(other, str):
                if other == "-":
                    return simp(zint(fc.t) < 0)
                if len(other) == 1 and not other.isdigit():
                    return False
        if isinstance(a, Rope) or isinstance(b, Rope):
            ra, rb = rope_of(a), rope_of(b)
            if ra is not None and rb is not None:
                r = rope_eq(I, ra, rb)
                if r is not None:
                    return r
        ca, cb = cstr_of(a), cstr_of(b)
        if ca is not None and cb is not None:
            if len(ca.codes) != len(cb.codes):
                return False
            return conj([x == y if isinstance(x, int) and isinstance(y, int) else zint(x) == zint(y)
                         for x, y in zip(ca.codes, cb.codes)])
        return simp(zstr(a) == zstr(b))
    if isinstance(a, tuple) and isinstance(b, tuple):
        if len(a) != len(b):
            return False
        return conj([eq(I, x, y) for x, y in zip(a, b)])
    if isinstance(a, PList) and isinstance(b, PList):
        if a.summary is not None or b.summary is not None:
            raise Unsupported("== on abstracted lists")
        if len(a.items) != len(b.items):
            return False
        return conj([eq(I, x, y) for x, y in zip(a.items, b.items)])
    if isinstance(a, PDict) and isinstance(b, PDict):
        if set(a.items) != set(b.items):
            return False
        return conj([eq(I, a.items[k], b.items[k]) for k in a.items])
    if isinstance(a, Obj):
        m, _ = a.cls.lookup("__eq__")
        if m is not None:
            r = I.call(BoundMethod(m, a), [b], {})
            return I.truth(r)
        return a is b
    if isinstance(b, Obj):
        m, _ = b.cls.lookup("__eq__")
        if m is not None:
            return I.truth(I.call(BoundMethod(m, b), [a], {}))
        return a is b
    if isinstance(a, Opaque) and isinstance(b, Opaque):
        return simp(a.ident == b.ident)
    if isinstance(a, PSet) and isinstance(b, PSet):
        if a.summary is not None or b.summary is not None or a is b:
            return a is b if a is b else _unsup("== on abstracted sets")
        # concrete-size sets: mutual inclusion
        return conj([contains(I, b, x) for x in a.items] + [contains(I, a, x) for x in b.items])
    if isinstance(a, AbsColl) and isinstance(b, AbsColl):
        if a is b:
            return True
        raise Unsupported("== on abstract collections")
    if isinstance(a, (Class, Func, Native, Module)) or isinstance(b, (Class, Func, Native, Module)):
        return a is b
    if isinstance(a, SliceObj) and isinstance(b, SliceObj):
        return conj([eq(I, a.start, b.start), eq(I, a.stop, b.stop), eq(I, a.step, b.step)])
    if isinstance(a, bytes) and isinstance(b, bytes):
        return a == b
    if a is Ellipsis or b is Ellipsis:
        return a is b
    if isinstance(a, SymArr) or isinstance(b, SymArr):
        from . import nplib
        return nplib.arr_compare(I, "==", a, b)
    from .nplib import DType
    if isinstance(a, DType) and isinstance(b, DType):
        return a.name == b.name
    # different kinds
    return False


def _unsup(msg):
    raise Unsupported(msg)


def num_eq(a, b):
    if isinstance(a, (int, float)) and isinstance(b, (int, float)):
        return a == b
    if isinstance(a, z3.BitVecRef) or isinstance(b, z3.BitVecRef):
        if isinstance(a, int):
            a = z3.BitVecVal(a, b.size())
        if isinstance(b, int):
            b = z3.BitVecVal(b, a.size())
        return simp(a == b)
    ra = (is_z3(a) and z3.is_real(a)) or isinstance(a, float)
    rb = (is_z3(b) and z3.is_real(b)) or isinstance(b, float)
    if ra or rb:
        return simp(zreal(a) == zreal(b))
    return simp(zint(a) == zint(b))


def conj(cs):
    out = []
    for c in cs:
        if isinstance(c, bool):
            if not c:
                return False
            continue
        out.append(zbool(c))
    if not out:
        return True
    return simp(z3.And(out))


def disj(cs):
    out = []
    for c in cs:
        if isinstance(c, bool):
            if c:
                return True
            continue
        out.append(zbool(c))
    if not out:
        return False
    return simp(z3.Or(out))


def neg(c):
    if isinstance(c, bool):
        return not c
    return simp(z3.Not(zbool(c)))


def c_compare(I, o, a, b):
    """comparison with at least one C-typed operand"""
    if isinstance(a, CV) and isinstance(b, CV):
        ta, tb = a.ctype, b.ctype
        if is_float_ctype(ta) or is_float_ctype(tb):
            x, y = zreal(a.term), zreal(b.term)
        else:
            rt = arith_type(ta, tb)

            def conv(v, t):
                # conversion to the common type changes a value only when the
                # signedness / width differs from the operand's own (promoted) type
                if (v.literal and _fits(v.term, rt)) or _same_repr(t, rt):
                    return v.term
                return wrap_int(rt, v.term)
            x, y = conv(a, ta), conv(b, tb)
            if isinstance(x, int) and isinstance(y, int):
                return {"==": x == y, "!=": x != y, "<": x < y, "<=": x <= y,
                        ">": x > y, ">=": x >= y}[o]
            x, y = zint(x), zint(y)
    else:
        # C value against a Python object: Python semantics
        x, y = I.unC(a), I.unC(b)
        if x is None or y is None:
            return {"==": False, "!=": True}.get(o, False)
        if isinstance(x, EnumVal):
            x = x.value
        if isinstance(y, EnumVal):
            y = y.value
        if not (is_num(x) and is_num(y)):
            if o == "==":
                return False
            if o == "!=":
                return True
            raise Unsupported("ordering comparison of C value and non-number")
        if (is_z3(x) and z3.is_real(x)) or (is_z3(y) and z3.is_real(y)):
            x, y = zreal(x), zreal(y)
        else:
            x, y = zint(x), zint(y)
    return simp({"==": x == y, "!=": x != y, "<": x < y, "<=": x <= y,
                 ">": x > y, ">=": x >= y}[o])


def _same_repr(t, rt):
    """every value of C type t is representable unchanged in rt"""
    bt, st = INT_TYPES[t]
    br, sr = INT_TYPES[rt]
    if t == "bint":
        return True
    if st == sr:
        return bt <= br
    if not st and sr:
        return bt < br
    return False


def _fits(v, ctype):
    if not isinstance(v, int):
        return False
    lo, hi = int_range(ctype)
    return lo <= v <= hi


def compare(I, o, a, b, env=None):
    if o == "is" or o == "is not":
        r = identical(I, a, b)
        return r if o == "is" else neg(r)
    if o == "==":
        return eq(I, a, b)
    if o == "!=":
        if isinstance(a, SymArr) or isinstance(b, SymArr):
            from . import nplib
            return nplib.arr_compare(I, "!=", a, b)
        if isinstance(a, Obj):
            m, _ = a.cls.lookup("__ne__")
            if m is not None:
                return I.truth(I.call(BoundMethod(m, a), [b], {}))
        return neg(eq(I, a, b))
    if o == "in":
        return contains(I, b, a)
    if o == "not in":
        return neg(contains(I, b, a))
    # ordering
    if isinstance(a, CV) or isinstance(b, CV):
        return c_compare(I, o, a, b)
    if isinstance(a, EnumVal) and a.cls.kind == "intenum":
        a = a.value
    if isinstance(b, EnumVal) and b.cls.kind == "intenum":
        b = b.value
    if is_num(a) and is_num(b):
        if isinstance(a, (int, float)) and isinstance(b, (int, float)):
            return {"<": a < b, "<=": a <= b, ">": a > b, ">=": a >= b}[o]
        if (is_z3(a) and z3.is_real(a)) or (is_z3(b) and z3.is_real(b)) or isinstance(a, float) or isinstance(b, float):
            x, y = zreal(a), zreal(b)
        else:
            x, y = zint(a), zint(b)
        return simp({"<": x < y, "<=": x <= y, ">": x > y, ">=": x >= y}[o])
    if is_str(a) and is_str(b):
        if isinstance(a, str) and isinstance(b, str):
            return {"<": a < b, "<=": a <= b, ">": a > b, ">=": a >= b}[o]
        x, y = zstr(a), zstr(b)
        return simp({"<": x < y, "<=": x <= y, ">": y < x, ">=": y <= x}[o])
    if isinstance(a, Obj):
        name = {"<": "__lt__", "<=": "__le__", ">": "__gt__", ">=": "__ge__"}[o]
        m, _ = a.cls.lookup(name)
        if m is not None:
            return I.truth(I.call(BoundMethod(m, a), [b], {}))
    if isinstance(a, tuple) and isinstance(b, tuple) and len(a) == len(b) and len(a) > 0:
        # lexicographic
        first_eq = eq(I, a[0], b[0])
        strict = compare(I, o.rstrip("="), a[0], b[0])
        if len(a) == 1:
            return compare(I, o, a[0], b[0])
        rest = compare(I, o, a[1:], b[1:])
        return disj([strict, conj([first_eq, rest])])
    if isinstance(a, SymArr) or isinstance(b, SymArr):
        from . import nplib
        return nplib.arr_compare(I, o, a, b)
    if a is None or b is None:
        I.throw("TypeError", f"'{o}' not supported between {type_name(a)} and {type_name(b)}")
    raise Unsupported(f"comparison {o} on {type_name(a)}, {type_name(b)}")


def identical(I, a, b):
    if a is None or b is None:
        return a is None and b is None
    if isinstance(a, EnumVal) and isinstance(b, EnumVal):
        if a.cls is not b.cls:
            return False
        return num_eq(a.value, b.value)
    if isinstance(a, bool) and isinstance(b, bool):
        return a == b
    if isinstance(a, (HeapObj, Native, BoundMethod)) or isinstance(b, (HeapObj, Native, BoundMethod)):
        return a is b
    if a is Ellipsis or b is Ellipsis:
        return a is b
    if isinstance(a, z3.BoolRef) and isinstance(b, bool):
        return simp(a == b)
    if isinstance(b, z3.BoolRef) and isinstance(a, bool):
        return simp(a == b)
    raise Unsupported(f"identity comparison of {type_name(a)} and {type_name(b)}")


def contains(I, cont, x):
    from .interp import ConcIter
    if isinstance(cont, (tuple, list)):
        return disj([eq(I, x, y) for y in cont])
    if isinstance(cont, (PList, PSet)):
        if cont.summary is not None:
            raise Unsupported("membership in an abstracted container")
        return disj([eq(I, x, y) for y in cont.items])
    if isinstance(cont, PDict):
        try:
            return I.dict_key(x) in cont.items
        except Unsupported:
            return disj([eq(I, x, getattr(cont, "keyobjs", {}).get(k, k)) for k in cont.order])
    if is_str(cont) and is_str(x):
        if isinstance(cont, str) and isinstance(x, str):
            return x in cont
        from .strlib import Rope, rope_contains
        if isinstance(cont, Rope) and isinstance(x, str):
            return rope_contains(cont, x)
        return simp(z3.Contains(zstr(cont), zstr(x)))
    if isinstance(cont, EnumVal) and isinstance(x, EnumVal) and cont.cls.kind == "flag":
        return num_eq(I.flag_op("&", cont.value, x.value), x.value)
    if isinstance(cont, RangeObj):
        a, b, c = (I.unC(t) for t in (cont.start, cont.stop, cont.step))
        if c == 1:
            return conj([compare(I, "<=", a, x), compare(I, "<", x, b)])
    if isinstance(cont, Obj):
        m, _ = cont.cls.lookup("__contains__")
        if m is not None:
            return I.truth(I.call(BoundMethod(m, cont), [x], {}))
    if isinstance(cont, ConcIter):
        return disj([eq(I, x, y) for y in cont.items])
    if isinstance(cont, Class) and cont.members:
        return disj([eq(I, x, y) for y in cont.members.values()])
    raise Unsupported(f"membership test in {type_name(cont)}")


# --------------------------------------------------------------------------
# sets and dicts

def set_add(I, s, x):
    if I.map_emit(s, x):
        return
    I.check_mutation(s, "set.add")
    if s.summary is not None:
        raise Unsupported("add to an abstracted set")
    # element already present?  (symbolic equality forks)
    for y in s.items:
        if y is x:
            return
    present = contains(I, s, x) if s.items else False
    if isinstance(present, bool):
        if not present:
            s.items.append(x)
        return
    if not I.ctx.branch(present):
        s.items.append(x)


def set_update(I, s, other):
    for x in I.iter_concrete(other):
        set_add(I, s, x)


# --------------------------------------------------------------------------
# attribute access

def bind(I, v, obj, owner=None):
    if isinstance(v, Func):
        return BoundMethod(v, obj)
    if isinstance(v, Property):
        return I.call(v.fget, [obj], {})
    if isinstance(v, StaticMethod):
        return v.func
    if isinstance(v, ClassMethod):
        return BoundMethod(v.func, obj.cls if isinstance(obj, Obj) else obj)
    if isinstance(v, Native) and getattr(v, "is_method", False):
        return BoundMethod(v, obj)
    return v


def getattr_(I, obj, name):
    from .interp import AbsIter, OpaqueStr, ConcIter, SuperProxy
    if isinstance(obj, SuperProxy):
        o = obj.obj
        mro = (o.cls if isinstance(o, Obj) else o).mro
        start = mro.index(obj.cls) + 1 if obj.cls in mro else 0
        for c in mro[start:]:
            if name in c.ns:
                return bind(I, c.ns[name], o, c)
        if name == "__init__":
            return Native("object.__init__", lambda I_, a, k: None)
        raise Unsupported(f"super().{name} not found")
    if isinstance(obj, Obj):
        if name in obj.attrs:
            v = obj.attrs[name]
            if isinstance(v, Poison):
                raise Unsupported(f"read of attribute {name}: {v.why}")
            return v
        if name == "__class__":
            return obj.cls
        v, owner = obj.cls.lookup(name)
        if owner is not None:
            return bind(I, v, obj, owner)
        if "_buffer" in obj.attrs:
            from . import nplib
            return nplib.arr_attr(I, obj.attrs["_buffer"], name)
        ga, _ = obj.cls.lookup("__getattr__")
        if ga is not None:
            return I.call(BoundMethod(ga, obj), [name], {})
        if obj.cls.kind == "exception" and name == "args":
            return ()
        I.throw("AttributeError", f"'{obj.cls.name}' object has no attribute '{name}'")
    if isinstance(obj, Class):
        if name == "__name__":
            return obj.name
        if name == "__qualname__":
            return obj.name
        v, owner = obj.lookup(name)
        if owner is not None:
            if isinstance(v, StaticMethod):
                return v.func
            if isinstance(v, ClassMethod):
                return BoundMethod(v.func, obj)
            return v
        raise Unsupported(f"class {obj.name} has no attribute {name}")
    if isinstance(obj, Module):
        if name in obj.ns:
            v = obj.ns[name]
            from .interp import LazyImport
            if isinstance(v, LazyImport):
                v = v.resolve(I)
                obj.ns[name] = v
            return v
        raise Unsupported(f"module {obj.name} has no modelled attribute {name}")
    if isinstance(obj, EnumVal):
        if name == "value":
            return obj.value
        if name == "name":
            if obj.name is not None:
                return obj.name
            return OpaqueStr()
        v, owner = obj.cls.lookup(name)
        if owner is not None:
            return bind(I, v, obj, owner)
        raise Unsupported(f"enum attribute {name}")
    if isinstance(obj, SliceObj):
        if name in ("start", "stop", "step"):
            return getattr(obj, name)
        if name == "indices":
            return Native("slice.indices", lambda I_, a, k: slice_indices(I_, obj, a[0]))
    if isinstance(obj, Property):
        if name == "setter":
            def setter(I_, a, k):
                return Property(obj.fget, a[0])
            return Native("property.setter", setter)
    if isinstance(obj, Func):
        if name == "__name__":
            return obj.node.name
        if name in obj.attrs:
            return obj.attrs[name]
        if name == "__wrapped__":
            return obj.attrs.get("__wrapped__")
        raise Unsupported(f"function attribute {name}")
    if isinstance(obj, BoundMethod):
        if name == "__func__":
            return obj.func
        if name == "__self__":
            return obj.self_obj
        return getattr_(I, obj.func, name)
    if isinstance(obj, PList):
        return list_method(I, obj, name)
    if isinstance(obj, PSet):
        return set_method(I, obj, name)
    if isinstance(obj, PDict):
        return dict_method(I, obj, name)
    if isinstance(obj, tuple):
        if name == "index":
            return Native("tuple.index", lambda I_, a, k: seq_index(I_, list(obj), a[0]))
        if name == "count":
            return Native("tuple.count", lambda I_, a, k: sum(1 for x in obj if I_.ctx.branch(eq(I_, x, a[0]))))
    if isinstance(obj, AbsColl):
        if name == "__iter__":
            return Native("abs.__iter__", lambda I_, a, k: AbsIter(obj))
        if name == "copy":
            return Native("abs.copy", lambda I_, a, k: obj if obj.kind == "frozenset" else obj.clone())
    if is_str(obj):
        from . import strlib
        return strlib.str_method(I, obj, name)
    if isinstance(obj, bytes):
        if name == "decode":
            return Native("bytes.decode", lambda I_, a, k: obj.decode(*a))
    if isinstance(obj, SymArr):
        from . import nplib
        return nplib.arr_attr(I, obj, name)
    if isinstance(obj, OpaqueStr):
        return Native("opaque." + name, lambda I_, a, k: OpaqueStr())
    if isinstance(obj, CV):
        return getattr_(I, obj.term, name)
    if is_pyint(obj):
        if name == "bit_length" and isinstance(obj, int):
            return Native("int.bit_length", lambda I_, a, k: obj.bit_length())
        if name in ("real", "numerator"):
            return obj
    if obj is None:
        I.throw("AttributeError", f"'NoneType' object has no attribute '{name}'")
    if isinstance(obj, Native):
        if name == "__name__":
            return obj.name
        sub = getattr(obj, "attrs", {}).get(name)
        if sub is not None:
            return sub
    if isinstance(obj, Opaque):
        sub = getattr(obj, "attrs", {}).get(name)
        if sub is not None:
            return sub
    from .nplib import DType, dtype_attr
    if isinstance(obj, DType):
        return dtype_attr(obj, name)
    raise Unsupported(f"attribute {name} of {type_name(obj)}")


def setattr_(I, obj, name, v):
    v = I.unC(v) if not isinstance(obj, Obj) or not getattr(obj.cls, "cattrs", None) else v
    if isinstance(obj, Obj):
        I.check_mutation(obj, f"store to .{name}")
        p, owner = obj.cls.lookup(name)
        if isinstance(p, Property):
            if p.fset is None:
                I.throw("AttributeError", f"can't set attribute {name}")
            I.call(p.fset, [obj, v], {})
            return
        sa, _ = obj.cls.lookup("__setattr__")
        if sa is not None and not getattr(obj, "_in_setattr", False):
            obj._in_setattr = True
            try:
                I.call(BoundMethod(sa, obj), [name, v], {})
            finally:
                obj._in_setattr = False
            return
        cat = getattr(obj.cls, "cattrs", {}).get(name)
        if cat is not None:
            v = I.convert(cat, v, f"store to .{name}")
        obj.attrs[name] = v
        return
    if isinstance(obj, Func):
        obj.attrs[name] = v
        return
    if isinstance(obj, Class):
        obj.ns[name] = v
        return
    if isinstance(obj, Module):
        obj.ns[name] = v
        return
    raise Unsupported(f"attribute store on {type_name(obj)}")


# --------------------------------------------------------------------------
# list / set / dict methods

def seq_index(I, items, x):
    for i, y in enumerate(items):
        if I.ctx.branch(eq(I, x, y)):
            return i
    I.throw("ValueError", "value not in sequence")


def list_method(I, lst, name):
    def N(fn):
        return Native("list." + name, fn)
    if name == "append":
        def f(I_, a, k):
            x = I_.unC(a[0])
            if I_.map_emit(lst, x):
                return None
            I_.check_mutation(lst, "list.append")
            if lst.summary is not None:
                raise Unsupported("append to an abstracted list")
            lst.items.append(x)
        return N(f)
    if lst.summary is not None:
        raise Unsupported(f"list.{name} on an abstracted list")
    if name == "extend":
        def f(I_, a, k):
            I_.check_mutation(lst, "list.extend")
            I_.list_extend(lst, a[0])
        return N(f)
    if name == "pop":
        def f(I_, a, k):
            I_.check_mutation(lst, "list.pop")
            if not lst.items:
                I_.throw("IndexError", "pop from empty list")
            i = a[0] if a else -1
            if not isinstance(i, int):
                raise Unsupported("list.pop with symbolic index")
            return lst.items.pop(i)
        return N(f)
    if name == "insert":
        def f(I_, a, k):
            I_.check_mutation(lst, "list.insert")
            if not isinstance(a[0], int):
                raise Unsupported("list.insert with symbolic index")
            lst.items.insert(a[0], a[1])
        return N(f)
    if name == "index":
        return N(lambda I_, a, k: seq_index(I_, lst.items, a[0]))
    if name == "copy":
        return N(lambda I_, a, k: PList(lst.items))
    if name == "reverse":
        def f(I_, a, k):
            I_.check_mutation(lst, "list.reverse")
            lst.items.reverse()
        return N(f)
    if name == "sort":
        def f(I_, a, k):
            I_.check_mutation(lst, "list.sort")
            lst.items = sorted_(I_, lst.items, k.get("key"), k.get("reverse", False))
        return N(f)
    if name == "count":
        return N(lambda I_, a, k: sum(1 for x in lst.items if I_.ctx.branch(eq(I_, x, a[0]))))
    if name == "remove":
        def f(I_, a, k):
            I_.check_mutation(lst, "list.remove")
            i = seq_index(I_, lst.items, a[0])
            del lst.items[i]
        return N(f)
    if name == "clear":
        def f(I_, a, k):
            I_.check_mutation(lst, "list.clear")
            lst.items.clear()
        return N(f)
    if name == "__iter__":
        from .interp import ConcIter
        return N(lambda I_, a, k: ConcIter(lst.items))
    raise Unsupported(f"list.{name}")


def set_method(I, s, name):
    from .interp import ConcIter, AbsIter
    def N(fn):
        return Native("set." + name, fn)
    if name == "add":
        return N(lambda I_, a, k: set_add(I_, s, a[0]))
    if name == "__iter__":
        if s.summary is not None:
            return N(lambda I_, a, k: s)
        return N(lambda I_, a, k: ConcIter(s.items))
    if name == "copy":
        if s.summary is not None:
            return N(lambda I_, a, k: s)
        return N(lambda I_, a, k: PSet(s.items, frozen=s.frozen))
    if s.summary is not None:
        raise Unsupported(f"set.{name} on an abstracted set")
    if name == "update":
        def f(I_, a, k):
            I_.check_mutation(s, "set.update")
            for o in a:
                set_update(I_, s, o)
        return N(f)
    if name in ("remove", "discard"):
        def f(I_, a, k):
            I_.check_mutation(s, "set." + name)
            for i, y in enumerate(s.items):
                if I_.ctx.branch(eq(I_, a[0], y)):
                    del s.items[i]
                    return None
            if name == "remove":
                I_.throw("KeyError", a[0])
        return N(f)
    if name == "union":
        def f(I_, a, k):
            r = PSet(s.items, frozen=s.frozen)
            for o in a:
                set_update(I_, r, o)
            return r
        return N(f)
    if name == "issubset":
        return N(lambda I_, a, k: conj([contains(I_, a[0], x) for x in s.items]))
    raise Unsupported(f"set.{name}")


def dict_method(I, d, name):
    from .interp import ConcIter
    def N(fn):
        return Native("dict." + name, fn)
    keyobj = lambda k: getattr(d, "keyobjs", {}).get(k, k)
    if name == "get":
        def f(I_, a, k):
            kk = I_.dict_key(a[0])
            if kk in d.items:
                return d.items[kk]
            return a[1] if len(a) > 1 else None
        return N(f)
    if name == "items":
        return N(lambda I_, a, k: ConcIter([(keyobj(kk), d.items[kk]) for kk in d.order]))
    if name == "keys":
        return N(lambda I_, a, k: ConcIter([keyobj(kk) for kk in d.order]))
    if name == "values":
        return N(lambda I_, a, k: ConcIter([d.items[kk] for kk in d.order]))
    if name == "copy":
        def f(I_, a, k):
            r = PDict()
            for kk in d.order:
                I_.dict_set(r, keyobj(kk), d.items[kk])
            return r
        return N(f)
    if name == "pop":
        def f(I_, a, k):
            I_.check_mutation(d, "dict.pop")
            kk = I_.dict_key(a[0])
            if kk in d.items:
                d.order.remove(kk)
                return d.items.pop(kk)
            if len(a) > 1:
                return a[1]
            I_.throw("KeyError", a[0])
        return N(f)
    if name == "setdefault":
        def f(I_, a, k):
            kk = I_.dict_key(a[0])
            if kk not in d.items:
                I_.check_mutation(d, "dict.setdefault")
                I_.dict_set(d, a[0], a[1] if len(a) > 1 else None)
            return d.items[kk]
        return N(f)
    if name == "update":
        def f(I_, a, k):
            I_.check_mutation(d, "dict.update")
            for o in a:
                if isinstance(o, PDict):
                    for kk in o.order:
                        I_.dict_set(d, getattr(o, "keyobjs", {}).get(kk, kk), o.items[kk])
                else:
                    for kv in I_.iter_concrete(o):
                        I_.dict_set(d, kv[0], kv[1])
            for kk, v in k.items():
                I_.dict_set(d, kk, v)
        return N(f)
    if name == "__iter__":
        return N(lambda I_, a, k: ConcIter([keyobj(kk) for kk in d.order]))
    raise Unsupported(f"dict.{name}")


def sorted_(I, items, key=None, reverse=False):
    """sort a concrete-length list of possibly symbolic keys: insertion by
    forking comparisons (stable)"""
    reverse = I.ctx.branch(I.truth(reverse)) if not isinstance(reverse, bool) else reverse
    keyed = [(I.call(key, [x], {}) if key is not None else x, x) for x in items]
    out = []
    for kx, x in keyed:
        pos = len(out)
        # stable: insert after all elements that are <= (or >= when reversed)
        for i, (ky, y) in enumerate(out):
            before = compare(I, ">" if reverse else "<", kx, ky)
            if I.ctx.branch(before):
                pos = i
                break
        out.insert(pos, (kx, x))
    return [x for _, x in out]


# --------------------------------------------------------------------------
# item access

def slice_indices(I, sl, n):
    """Python slice.indices(n) for step None/1/-1 (symbolic start/stop)"""
    step = sl.step if sl.step is not None else 1
    step = I.unC(step)
    if not isinstance(step, int) or step == 0:
        raise Unsupported("symbolic or zero slice step")
    n_ = n if isinstance(n, int) else zint(n)

    def clamp(v, lo, hi, default):
        if v is None:
            return default
        v = I.unC(v)
        if isinstance(v, int) and isinstance(n, int):
            if v < 0:
                v += n
            return max(lo, min(hi, v))
        v = zint(v)
        w = z3.If(v < 0, v + n_, v)
        return simp(z3.If(w < lo, lo, z3.If(w > hi, hi, w)))
    if step > 0:
        start = clamp(sl.start, 0, n_, 0)
        stop = clamp(sl.stop, 0, n_, n_)
    else:
        start = clamp(sl.start, -1, n_ - 1 if not isinstance(n_, int) else n_ - 1, n_ - 1)
        stop = clamp(sl.stop, -1, n_ - 1, -1)
    return (start, stop, step)


def norm_index(I, i, n, what="index"):
    """normalise a Python index against length n: negative wrap, IndexError"""
    i = I.unC(i)
    if isinstance(i, EnumVal):
        i = i.value
    if isinstance(i, int) and isinstance(n, int):
        if i < 0:
            i += n
        if not (0 <= i < n):
            I.throw("IndexError", f"{what} out of range")
        return i
    i_ = zint(i)
    n_ = zint(n)
    j = simp(z3.If(i_ < 0, i_ + n_, i_))
    ok = simp(z3.And(j >= 0, j < n_))
    if not I.ctx.branch(ok):
        I.throw("IndexError", f"{what} out of range")
    return j


def getitem(I, obj, idx, env):
    from .interp import OpaqueStr
    if isinstance(obj, (tuple, list)) or isinstance(obj, PList):
        items = obj.items if isinstance(obj, PList) else list(obj)
        if isinstance(obj, PList) and obj.summary is not None:
            raise Unsupported("indexing an abstracted list")
        if isinstance(idx, SliceObj):
            a, b, c = (I.unC(x) for x in (idx.start, idx.stop, idx.step))
            if all(x is None or isinstance(x, int) for x in (a, b, c)):
                r = items[slice(a, b, c)]
                return PList(r) if isinstance(obj, PList) else tuple(r)
            raise Unsupported("symbolic slice of a list")
        i = I.unC(idx)
        if isinstance(i, EnumVal):
            i = i.value
        if isinstance(i, int):
            if not (-len(items) <= i < len(items)):
                I.throw("IndexError", "list index out of range")
            return items[i]
        j = norm_index(I, i, len(items))
        # case split on the concrete positions
        for k in range(len(items)):
            if I.ctx.branch(simp(zint(j) == k)):
                return items[k]
        raise Unsupported("unreachable index")
    if isinstance(obj, PDict):
        try:
            kk = I.dict_key(I.unC(idx))
        except Unsupported:
            # symbolic key: case split over the stored keys
            for k2 in obj.order:
                ko = getattr(obj, "keyobjs", {}).get(k2, k2)
                if I.ctx.branch(eq(I, I.unC(idx), ko)):
                    return obj.items[k2]
            I.throw("KeyError", idx)
        if kk in obj.items:
            return obj.items[kk]
        I.throw("KeyError", idx)
    if is_str(obj):
        from . import strlib
        return strlib.str_getitem(I, obj, idx)
    if isinstance(obj, bytes):
        i = I.unC(idx)
        if isinstance(i, int):
            return obj[i]
        if isinstance(i, SliceObj):
            return obj[slice(i.start, i.stop, i.step)]
    if isinstance(obj, SymArr):
        from . import nplib
        return nplib.arr_getitem(I, obj, idx, env)
    if isinstance(obj, Obj):
        m, _ = obj.cls.lookup("__getitem__")
        if m is not None:
            return I.call(BoundMethod(m, obj), [idx], {})
        if obj.cls.kind == "exception":
            pass
    if isinstance(obj, Cell):
        i = I.unC(idx)
        if i == 0:
            return obj.env.vars[obj.name]
        raise Unsupported("pointer arithmetic")
    from .heap import ElemCell
    if isinstance(obj, ElemCell):
        if I.unC(idx) == 0:
            return getitem(I, obj.arr, obj.idx, env)
        raise Unsupported("pointer arithmetic")
    if isinstance(obj, Class):
        if obj.members:
            if isinstance(idx, str) and idx in obj.members:
                return obj.members[idx]
            I.throw("KeyError", idx)
        return obj      # generic alias  e.g. list[int]
    if isinstance(obj, OpaqueStr):
        return OpaqueStr()
    raise Unsupported(f"subscript of {type_name(obj)}")


def setitem(I, obj, idx, v, env):
    if isinstance(obj, PList):
        I.check_mutation(obj, "list item store")
        if obj.summary is not None:
            raise Unsupported("item store on an abstracted list")
        i = I.unC(idx)
        if isinstance(i, int):
            if not (-len(obj.items) <= i < len(obj.items)):
                I.throw("IndexError", "list assignment index out of range")
            obj.items[i] = I.unC(v)
            return
        if isinstance(i, SliceObj):
            a, b, c = (I.unC(x) for x in (i.start, i.stop, i.step))
            if all(x is None or isinstance(x, int) for x in (a, b, c)):
                obj.items[slice(a, b, c)] = I.iter_concrete(v)
                return
        j = norm_index(I, i, len(obj.items))
        for k in range(len(obj.items)):
            if I.ctx.branch(simp(zint(j) == k)):
                obj.items[k] = I.unC(v)
                return
        raise Unsupported("symbolic list index store")
    if isinstance(obj, PDict):
        I.check_mutation(obj, "dict item store")
        I.dict_set(obj, I.unC(idx), I.unC(v))
        return
    if isinstance(obj, SymArr):
        from . import nplib
        return nplib.arr_setitem(I, obj, idx, v, env)
    if isinstance(obj, Obj):
        m, _ = obj.cls.lookup("__setitem__")
        if m is not None:
            return I.call(BoundMethod(m, obj), [idx, v], {})
    from .heap import ElemCell
    if isinstance(obj, ElemCell):
        if I.unC(idx) == 0:
            return setitem(I, obj.arr, obj.idx, v, env)
        raise Unsupported("pointer arithmetic")
    if isinstance(obj, Cell):
        if I.unC(idx) == 0:
            I.store_name(obj.env, obj.name, v)
            return
    raise Unsupported(f"item store on {type_name(obj)}")


def delitem(I, obj, idx):
    if isinstance(obj, PList):
        I.check_mutation(obj, "list item delete")
        i = I.unC(idx)
        if isinstance(i, int):
            if not (-len(obj.items) <= i < len(obj.items)):
                I.throw("IndexError", "list assignment index out of range")
            del obj.items[i]
            return
        if isinstance(i, SliceObj):
            del obj.items[slice(i.start, i.stop, i.step)]
            return
    if isinstance(obj, PDict):
        I.check_mutation(obj, "dict item delete")
        kk = I.dict_key(I.unC(idx))
        if kk not in obj.items:
            I.throw("KeyError", idx)
        del obj.items[kk]
        obj.order.remove(kk)
        return
    if isinstance(obj, Obj):
        m, _ = obj.cls.lookup("__delitem__")
        if m is not None:
            return I.call(BoundMethod(m, obj), [idx], {})
    raise Unsupported(f"item delete on {type_name(obj)}")


# --------------------------------------------------------------------------
# formatting

def format_value(I, val, spec, conversion=-1):
    from .interp import OpaqueStr
    val = I.unC(val)
    if isinstance(spec, OpaqueStr):
        return OpaqueStr()
    if conversion == ord("r"):
        if isinstance(val, str):
            return repr(val)
        return OpaqueStr()
    if spec is None or spec == "":
        return to_str(I, val)
    from . import strlib
    return strlib.format_spec(I, val, spec)


def to_str(I, val):
    from .interp import OpaqueStr
    val = I.unC(val)
    if isinstance(val, str):
        return val
    if isinstance(val, bool):
        return str(val)
    if isinstance(val, int):
        return str(val)
    if isinstance(val, z3.SeqRef) or hasattr(val, "to_z3"):
        return val
    if isinstance(val, z3.ArithRef) and val.is_int():
        from .strlib import Rope, Dec
        return Rope([Dec(val)])
    if isinstance(val, z3.BoolRef):
        return z3.If(val, z3.StringVal("True"), z3.StringVal("False"))
    if val is None:
        return "None"
    if isinstance(val, Obj):
        m, _ = val.cls.lookup("__str__")
        if m is not None:
            return I.call(BoundMethod(m, val), [], {})
        return OpaqueStr()
    if isinstance(val, EnumVal):
        return OpaqueStr()
    return OpaqueStr()


# --------------------------------------------------------------------------
# memoryview coercion

def as_memoryview(I, ctype, v):
    if isinstance(v, SymArr):
        return v
    if isinstance(v, bytes):
        arr = SymArr("bytes", "unsigned char", [len(v)])
        for i, b in enumerate(v):
            arr.arr = z3.Store(arr.arr, i, b)
        return arr
    if is_str(v):
        from . import nplib
        return nplib.str_to_buffer(I, v)
    if isinstance(v, Obj) and "_buffer" in v.attrs:
        return v.attrs["_buffer"]
    raise Unsupported(f"memoryview of {type_name(v)}")


# --------------------------------------------------------------------------
# builtins

def install(I):
    B = I.builtins

    def mkcls(name, bases=(), kind="builtin"):
        c = Class(name, bases, {}, None, kind)
        B[name] = c
        return c

    obj = mkcls("object")
    base_exc = mkcls("BaseException", (), "exception")
    exc = mkcls("Exception", (base_exc,), "exception")
    hierarchy = {
        "ArithmeticError": "Exception", "ZeroDivisionError": "ArithmeticError",
        "OverflowError": "ArithmeticError", "AssertionError": "Exception",
        "AttributeError": "Exception", "LookupError": "Exception",
        "IndexError": "LookupError", "KeyError": "LookupError",
        "NameError": "Exception", "OSError": "Exception",
        "FileNotFoundError": "OSError", "PermissionError": "OSError",
        "RuntimeError": "Exception", "NotImplementedError": "RuntimeError",
        "RecursionError": "RuntimeError", "StopIteration": "Exception",
        "TypeError": "Exception", "ValueError": "Exception",
        "UnicodeError": "ValueError", "UnicodeDecodeError": "UnicodeError",
        "UnicodeEncodeError": "UnicodeError", "Warning": "Exception",
        "UserWarning": "Warning", "DeprecationWarning": "Warning",
        "KeyboardInterrupt": "BaseException", "SystemExit": "BaseException",
        "MemoryError": "Exception", "EOFError": "Exception", "IOError": "OSError",
        "TimeoutError": "OSError", "BufferError": "Exception",
    }
    for n, b in hierarchy.items():
        mkcls(n, (B[b],), "exception")

    for n in ("int", "bool", "str", "float", "list", "tuple", "dict", "set",
              "frozenset", "slice", "bytes", "bytearray", "type", "complex"):
        mkcls(n)
    B["NoneType"] = mkcls("NoneType")

    def N(name, fn):
        B[name] = Native(name, fn)

    def ctor(clsname):
        def deco(fn):
            B[clsname].ns["__construct__"] = Native(clsname, fn)
            return fn
        return deco

    @ctor("int")
    def _int(I_, a, k):
        if not a:
            return 0
        v = I_.unC(a[0])
        if isinstance(v, EnumVal):
            return v.value
        if isinstance(v, bool):
            return int(v)
        if isinstance(v, int):
            return v
        if isinstance(v, z3.BoolRef):
            return zint(v)
        if isinstance(v, z3.ArithRef):
            if v.is_int():
                return v
            return z3.If(v >= 0, z3.ToInt(v), -z3.ToInt(-v))
        if is_str(v):
            from . import strlib
            return strlib.int_of_str(I_, v, a[1] if len(a) > 1 else 10)
        if isinstance(v, float):
            return int(v)
        if isinstance(v, Obj):
            m, _ = v.cls.lookup("__int__")
            if m is not None:
                return I_.call(BoundMethod(m, v), [], {})
        raise Unsupported(f"int() of {type_name(v)}")

    @ctor("bool")
    def _bool(I_, a, k):
        if not a:
            return False
        return I_.truth(a[0])

    @ctor("str")
    def _str(I_, a, k):
        if not a:
            return ""
        return to_str(I_, a[0])

    @ctor("float")
    def _float(I_, a, k):
        v = I_.unC(a[0]) if a else 0
        if isinstance(v, (int, float)):
            return z3.RealVal(repr(float(v)))
        if is_str(v):
            if isinstance(v, str):
                try:
                    return z3.RealVal(repr(float(v)))
                except ValueError:
                    I_.throw("ValueError", "could not convert string to float")
            raise Unsupported("float() of symbolic string")
        return zreal(v)

    @ctor("list")
    def _list(I_, a, k):
        if not a:
            return PList([])
        if isinstance(a[0], (PList, PSet)) and a[0].summary is not None:
            r = PList([])
            r.summary = a[0].summary
            return r
        return PList(I_.iter_concrete(a[0]))

    @ctor("tuple")
    def _tuple(I_, a, k):
        if not a:
            return ()
        return tuple(I_.iter_concrete(a[0]))

    @ctor("dict")
    def _dict(I_, a, k):
        d = PDict()
        if a:
            if isinstance(a[0], PDict):
                for kk in a[0].order:
                    I_.dict_set(d, getattr(a[0], "keyobjs", {}).get(kk, kk), a[0].items[kk])
            else:
                for kv in I_.iter_concrete(a[0]):
                    kv = I_.iter_concrete(kv)
                    I_.dict_set(d, kv[0], kv[1])
        for kk, v in k.items():
            I_.dict_set(d, kk, v)
        return d

    def mkset(frozen):
        def f(I_, a, k):
            if not a:
                return PSet([], frozen=frozen)
            src = a[0]
            if isinstance(src, (PList, PSet)) and src.summary is not None:
                r = PSet([], frozen=frozen)
                r.summary = src.summary
                return r
            if isinstance(src, AbsColl):
                return src.clone("frozenset" if frozen else "set")
            r = PSet([], frozen=frozen)
            for x in I_.iter_concrete(src):
                set_add(I_, r, x)
            return r
        return f
    B["set"].ns["__construct__"] = Native("set", mkset(False))
    B["frozenset"].ns["__construct__"] = Native("frozenset", mkset(True))

    @ctor("slice")
    def _slice(I_, a, k):
        a = [I_.unC(x) for x in a]
        if len(a) == 1:
            return SliceObj(None, a[0], None)
        if len(a) == 2:
            return SliceObj(a[0], a[1], None)
        return SliceObj(a[0], a[1], a[2])

    @ctor("type")
    def _type(I_, a, k):
        v = a[0]
        if isinstance(v, Obj):
            return v.cls
        if isinstance(v, EnumVal):
            return v.cls
        tn = type_name(v)
        if tn in B and isinstance(B[tn], Class):
            return B[tn]
        return Class(tn, (), {}, None, "builtin")

    @ctor("bytearray")
    def _bytearray(I_, a, k):
        n = I_.unC(a[0])
        if is_pyint(n):
            arr = SymArr("bytearray", "unsigned char", [n])
            arr.arr = z3.K(z3.IntSort(), z3.IntVal(0))
            o = Obj(B["bytearray"], {"_buffer": arr})
            return o
        raise Unsupported("bytearray() of non-int")

    @ctor("object")
    def _object(I_, a, k):
        return Obj(B["object"], {})

    def _len(I_, a, k):
        v = a[0]
        if isinstance(v, (tuple, list, str, bytes)):
            return len(v)
        if isinstance(v, (PList, PSet)):
            if v.summary is not None:
                n = I_.ctx.fresh_int("len")
                I_.ctx.assume(n >= 0)
                I_.ctx.assume((n > 0) == v.summary.nonempty)
                return n
            return len(v.items)
        if isinstance(v, PDict):
            return len(v.items)
        if isinstance(v, z3.SeqRef):
            return z3.Length(v)
        if hasattr(v, "codes"):
            return len(v.codes)
        if isinstance(v, SymArr):
            return v.shape[0]
        if isinstance(v, Obj):
            m, _ = v.cls.lookup("__len__")
            if m is not None:
                return I_.call(BoundMethod(m, v), [], {})
            if "_buffer" in v.attrs:
                return v.attrs["_buffer"].shape[0]
        if isinstance(v, Class) and v.members:
            return len(v.members)
        if isinstance(v, RangeObj):
            a_, b_, c_ = (I_.unC(x) for x in (v.start, v.stop, v.step))
            if all(isinstance(x, int) for x in (a_, b_, c_)):
                return len(range(a_, b_, c_))
        from .interp import ConcIter
        if isinstance(v, ConcIter):
            return len(v.items)
        if isinstance(v, AbsColl):
            n = I_.ctx.fresh_int("len_" + v.name)
            I_.ctx.assume(n >= 0)
            return n
        I_.throw("TypeError", f"object of type '{type_name(v)}' has no len()")
    N("len", _len)

    def _isinstance(I_, a, k):
        return isinstance_(I_, a[0], a[1])
    N("isinstance", _isinstance)

    def _issubclass(I_, a, k):
        if isinstance(a[0], Class) and isinstance(a[1], Class):
            return a[0].issubclass(a[1])
        raise Unsupported("issubclass")
    N("issubclass", _issubclass)

    def _range(I_, a, k):
        ct = None
        a = list(a)
        a = [I_.unC(x) for x in a]
        if len(a) == 1:
            r = RangeObj(0, a[0], 1)
        elif len(a) == 2:
            r = RangeObj(a[0], a[1], 1)
        else:
            r = RangeObj(a[0], a[1], a[2])
        return r
    N("range", _range)

    def _hasattr(I_, a, k):
        from .interp import Raised
        try:
            getattr_(I_, a[0], a[1])
            return True
        except Raised:
            return False
        except Unsupported:
            return False
    N("hasattr", _hasattr)

    def _getattr(I_, a, k):
        from .interp import Raised
        if len(a) > 2:
            try:
                return getattr_(I_, a[0], a[1])
            except Raised:
                return a[2]
        return getattr_(I_, a[0], a[1])
    N("getattr", _getattr)
    N("setattr", lambda I_, a, k: setattr_(I_, a[0], a[1], a[2]))

    def _minmax(is_min):
        def f(I_, a, k):
            items = I_.iter_concrete(a[0]) if len(a) == 1 else list(a)
            key = k.get("key")
            if not items:
                if "default" in k:
                    return k["default"]
                I_.throw("ValueError", "min()/max() arg is an empty sequence")
            best = items[0]
            bk = I_.call(key, [best], {}) if key else best
            for x in items[1:]:
                xk = I_.call(key, [x], {}) if key else x
                c = compare(I_, "<" if is_min else ">", xk, bk)
                if is_num(xk) and is_num(bk) and key is None and not isinstance(c, bool):
                    # keep a single path: ite
                    if (is_z3(xk) and z3.is_real(xk)) or (is_z3(bk) and z3.is_real(bk)):
                        best = bk = z3.If(c, zreal(xk), zreal(bk))
                    else:
                        best = bk = z3.If(c, zint(xk), zint(bk))
                    continue
                if I_.ctx.branch(c):
                    best, bk = x, xk
            return best
        return f
    N("min", _minmax(True))
    N("max", _minmax(False))

    def _abs(I_, a, k):
        v = I_.unC(a[0])
        if isinstance(v, (int, float)):
            return abs(v)
        return z3.If(v >= 0, v, -v)
    N("abs", _abs)

    def _sum(I_, a, k):
        tot = a[1] if len(a) > 1 else 0
        for x in I_.iter_concrete(a[0]):
            tot = py_binop(I_, "+", tot, I_.unC(x), None)
        return tot
    N("sum", _sum)

    def _any(I_, a, k):
        for x in I_.iter_concrete(a[0]):
            if I_.to_bool(x):
                return True
        return False
    N("any", _any)

    def _all(I_, a, k):
        for x in I_.iter_concrete(a[0]):
            if not I_.to_bool(x):
                return False
        return True
    N("all", _all)

    def _sorted(I_, a, k):
        return PList(sorted_(I_, I_.iter_concrete(a[0]), k.get("key"), k.get("reverse", False)))
    N("sorted", _sorted)

    def _reversed(I_, a, k):
        from .interp import ConcIter
        if isinstance(a[0], RangeObj):
            r = a[0]
            st = I_.unC(r.step)
            if st == 1:
                return RangeObj(py_binop(I_, "-", I_.unC(r.stop), 1, None), py_binop(I_, "-", I_.unC(r.start), 1, None), -1)
        return ConcIter(list(reversed(I_.iter_concrete(a[0]))))
    N("reversed", _reversed)

    def _enumerate(I_, a, k):
        from .interp import ConcIter, EnumArr
        start = k.get("start", a[1] if len(a) > 1 else 0)
        if isinstance(a[0], SymArr) and not isinstance(simp(a[0].shape[0]), int):
            return EnumArr(a[0], start)
        return ConcIter([(start + i, x) for i, x in enumerate(I_.iter_concrete(a[0]))])
    N("enumerate", _enumerate)

    def _zip(I_, a, k):
        from .interp import ConcIter
        return ConcIter(list(zip(*[I_.iter_concrete(x) for x in a])))
    N("zip", _zip)

    def _iter(I_, a, k):
        from .interp import ConcIter, AbsIter
        if isinstance(a[0], AbsColl):
            return AbsIter(a[0])
        return ConcIter(I_.iter_concrete(a[0]))
    N("iter", _iter)

    def _hash(I_, a, k):
        return I_.ctx.fresh_int("hash")
    N("hash", _hash)

    def _id(I_, a, k):
        v = a[0]
        return v.stamp if isinstance(v, HeapObj) else id(v)
    N("id", _id)

    def _repr(I_, a, k):
        from .interp import OpaqueStr
        if isinstance(a[0], str):
            return repr(a[0])
        return OpaqueStr()
    N("repr", _repr)

    def _print(I_, a, k):
        return None
    N("print", _print)

    def _ord(I_, a, k):
        v = a[0]
        if isinstance(v, str):
            return ord(v)
        return z3.StrToCode(zstr(v))
    N("ord", _ord)

    def _chr(I_, a, k):
        v = I_.unC(a[0])
        if isinstance(v, int):
            return chr(v)
        return z3.StrFromCode(zint(v))
    N("chr", _chr)

    def _divmod(I_, a, k):
        return (py_binop(I_, "//", I_.unC(a[0]), I_.unC(a[1]), None),
                py_binop(I_, "%", I_.unC(a[0]), I_.unC(a[1]), None))
    N("divmod", _divmod)

    def _round(I_, a, k):
        v = I_.unC(a[0])
        if isinstance(v, int):
            return v
        if len(a) > 1:
            raise Unsupported("round(x, n)")
        # round half to even
        r = zreal(v)
        fl = z3.ToInt(r)
        diff = r - z3.ToReal(fl)
        return z3.If(diff < 0.5, fl, z3.If(diff > 0.5, fl + 1, z3.If(fl % 2 == 0, fl, fl + 1)))
    N("round", _round)

    def _super(I_, a, k):
        raise Unsupported("super() without interpreter support")
    N("super", _super)

    def _property(I_, a, k):
        return Property(a[0], a[1] if len(a) > 1 else None)
    N("property", _property)
    N("staticmethod", lambda I_, a, k: StaticMethod(a[0]))
    N("classmethod", lambda I_, a, k: ClassMethod(a[0]))
    N("callable", lambda I_, a, k: isinstance(a[0], (Func, Native, BoundMethod, Class)))
    N("next", lambda I_, a, k: _next(I_, a))

    def _next(I_, a):
        from .interp import ConcIter
        it = a[0]
        if isinstance(it, ConcIter):
            if it.items:
                return it.items.pop(0)
            if len(a) > 1:
                return a[1]
            I_.throw("StopIteration")
        raise Unsupported("next() on non-concrete iterator")

    B["Ellipsis"] = Ellipsis
    B["NotImplemented"] = Opaque("NotImplemented")
    B["__name__"] = "module"
    B["__debug__"] = True
