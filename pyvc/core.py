"""pyvc.core -- value domain and Python/C operator semantics over z3 terms.

Values handled by the interpreter:
  * concrete Python values (int, bool, str, None, tuple, float via Fraction-free Real)
  * z3 terms: Int (Python int), Bool, String (str), Real (float, idealised)
  * CV(ctype, term): a C-typed scalar inside .pyx code (bit-precise integer
    semantics: usual arithmetic conversions, modular unsigned arithmetic,
    signed overflow reported as an obligation)
  * heap objects defined in heap.py (Obj, PList, PDict, PSet, SymArr, ...)
"""
import z3

# --------------------------------------------------------------------------
# exceptions used for control flow inside the engine


class Unsupported(Exception):
    """construct outside the engine's subset: the obligation set of the
    function becomes `undecided(unsupported: ...)`, never a pass"""


class EngineError(Exception):
    pass


# --------------------------------------------------------------------------
# C types

INT_TYPES = {
    # name: (bits, signed)
    "int8": (8, True), "uint8": (8, False),
    "int16": (16, True), "uint16": (16, False),
    "int32": (32, True), "uint32": (32, False),
    "int64": (64, True), "uint64": (64, False),
    "char": (8, True), "signed char": (8, True), "unsigned char": (8, False),
    "short": (16, True), "unsigned short": (16, False),
    "int": (32, True), "unsigned int": (32, False), "unsigned": (32, False),
    "long": (64, True), "unsigned long": (64, False),
    "long long": (64, True), "unsigned long long": (64, False),
    "Py_ssize_t": (64, True), "ssize_t": (64, True), "size_t": (64, False),
    "ptr": (64, False), "bint": (32, True),
    "npy_intp": (64, True), "intptr_t": (64, True), "uintptr_t": (64, False),
}
FLOAT_TYPES = {"float32": 32, "float64": 64, "float": 32, "double": 64,
               "long double": 80}


def norm_ctype(t):
    t = " ".join(t.replace("const ", " ").split())
    for pre in ("np.", "numpy.", "cnp."):
        if t.startswith(pre):
            t = t[len(pre):]
    if t.endswith("_t") and t[:-2] in INT_TYPES or t.endswith("_t") and t[:-2] in FLOAT_TYPES:
        t = t[:-2]
    return t


def is_int_ctype(t):
    return t in INT_TYPES


def is_float_ctype(t):
    return t in FLOAT_TYPES


def int_range(t):
    bits, signed = INT_TYPES[t]
    if t == "bint":
        return 0, 1
    if signed:
        return -(1 << (bits - 1)), (1 << (bits - 1)) - 1
    return 0, (1 << bits) - 1


class CV:
    """C-typed scalar value"""
    __slots__ = ("ctype", "term", "literal")

    def __init__(self, ctype, term, literal=False):
        self.ctype = ctype
        self.term = term
        self.literal = literal

    def __repr__(self):
        return f"CV<{self.ctype}>({self.term})"


def is_z3(v):
    return isinstance(v, z3.ExprRef)


def is_sym(v):
    return isinstance(v, z3.ExprRef) or (isinstance(v, CV) and is_z3(v.term))


def zint(v):
    """to z3 Int term"""
    if isinstance(v, CV):
        v = v.term
    if isinstance(v, bool):
        return z3.IntVal(1 if v else 0)
    if isinstance(v, int):
        return z3.IntVal(v)
    if isinstance(v, z3.BoolRef):
        return z3.If(v, z3.IntVal(1), z3.IntVal(0))
    if isinstance(v, z3.ArithRef):
        return v
    raise Unsupported(f"not an integer value: {v!r}")


def zreal(v):
    if isinstance(v, CV):
        v = v.term
    if isinstance(v, bool):
        return z3.RealVal(1 if v else 0)
    if isinstance(v, (int, float)):
        return z3.RealVal(repr(v) if isinstance(v, float) else v)
    if isinstance(v, z3.ArithRef):
        return z3.ToReal(v) if v.is_int() else v
    if isinstance(v, z3.BoolRef):
        return z3.If(v, z3.RealVal(1), z3.RealVal(0))
    raise Unsupported(f"not a real value: {v!r}")


def zbool(v):
    if isinstance(v, CV):
        v = v.term
    if isinstance(v, bool):
        return z3.BoolVal(v)
    if isinstance(v, z3.BoolRef):
        return v
    if isinstance(v, int):
        return z3.BoolVal(v != 0)
    if isinstance(v, z3.ArithRef):
        return v != 0
    raise Unsupported(f"not a boolean value: {v!r}")


def zstr(v):
    if hasattr(v, "to_z3"):
        return v.to_z3()
    if isinstance(v, str):
        return z3.StringVal(v)
    if isinstance(v, z3.SeqRef):
        return v
    raise Unsupported(f"not a string value: {v!r}")


def simp(t):
    if is_z3(t):
        t = z3.simplify(t)
        if z3.is_true(t):
            return True
        if z3.is_false(t):
            return False
        if z3.is_int_value(t):
            return t.as_long()
        if z3.is_string_value(t):
            return t.as_string()
    return t


def wrap_int(ctype, term):
    """C conversion of a mathematical integer to `ctype` (modular)"""
    if ctype == "bint":
        if isinstance(term, (bool, int)):
            return 1 if term else 0
        if isinstance(term, z3.BoolRef):
            return z3.If(term, z3.IntVal(1), z3.IntVal(0))
        return z3.If(term != 0, z3.IntVal(1), z3.IntVal(0))
    lo, hi = int_range(ctype)
    n = hi - lo + 1
    if isinstance(term, bool):
        term = int(term)
    if isinstance(term, int):
        return ((term - lo) % n) + lo
    term = zint(term)
    bv = bv_backed(term)
    if bv is not None and lo <= 0 and (1 << bv.size()) - 1 <= hi:
        return term                     # BV2Int of a k-bit vector lies in [0, 2^k)
    return simp(z3.If(z3.And(term >= lo, term <= hi), term, ((term - lo) % n) + lo))


def bv_backed(term):
    """the bit-vector b if term is BV2Int(b) (unsigned), else None"""
    if z3.is_app(term) and term.decl().kind() == z3.Z3_OP_BV2INT:
        return term.arg(0)
    return None


# integer conversion rank for the usual arithmetic conversions
def _rank(t):
    bits, _ = INT_TYPES[t]
    return bits


def promote(t):
    """integer promotion"""
    bits, signed = INT_TYPES[t]
    if bits < 32 or t == "bint":
        return "int"
    return t


def arith_type(t1, t2):
    """usual arithmetic conversions for two integer C types"""
    t1, t2 = promote(t1), promote(t2)
    b1, s1 = INT_TYPES[t1]
    b2, s2 = INT_TYPES[t2]
    if b1 == b2:
        if s1 == s2:
            return _canon(b1, s1)
        return _canon(b1, False)
    # different widths: wider one wins (a wider signed type can represent
    # all values of the narrower unsigned one)
    if b1 > b2:
        return _canon(b1, s1)
    return _canon(b2, s2)


def _canon(bits, signed):
    return {(32, True): "int32", (32, False): "uint32",
            (64, True): "int64", (64, False): "uint64"}[(bits, signed)]


def literal_ctype(v):
    if -(1 << 31) <= v < (1 << 31):
        return "int"
    return "long"


def py_floordiv(a, b):
    """Python floor division on z3 Ints (z3 div is Euclidean for ints:
    a = b*q + r with 0 <= r < |b|)"""
    a, b = zint(a), zint(b)
    if z3.is_int_value(b):
        bv = b.as_long()
        if bv > 0:
            return a / b
        if bv < 0:
            return (-a) / z3.IntVal(-bv)
    return z3.If(b > 0, a / b, (-a) / (-b))


def py_mod(a, b):
    a, b = zint(a), zint(b)
    if z3.is_int_value(b) and b.as_long() > 0:
        return a % b
    return a - b * py_floordiv(a, b)


def c_div(a, b):
    """C truncating division"""
    a, b = zint(a), zint(b)
    q = z3.If(a >= 0,
              z3.If(b > 0, a / b, -(a / (-b))),
              z3.If(b > 0, -((-a) / b), (-a) / (-b)))
    return q


def c_mod(a, b):
    a, b = zint(a), zint(b)
    return a - b * c_div(a, b)
