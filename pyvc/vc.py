"""pyvc.vc -- preparation of verification conditions for the solvers.

  * conjunctive goals are split, universally quantified goals skolemised
  * a *ground* version of each VC is built by instantiating every universally
    quantified hypothesis with all tuples of candidate index terms (skolem
    constants of the goal and the integer terms used as array indices in the
    goal / ground hypotheses).  ground-unsat  =>  the VC holds (instances of
    hypotheses are consequences of them).  ground-sat proves nothing: the full
    quantified VC is tried next.
  * VCs are exported as SMT-LIB text so that they can be solved in worker
    processes and by other solvers
"""
import itertools
import z3

MAX_CAND = 16
MAX_INST = 4000


def flatten_and(t, out):
    if z3.is_and(t):
        for c in t.children():
            flatten_and(c, out)
    else:
        out.append(t)
    return out


def _rebuild(q, body, forall):
    """quantifier with the bound variables of q over a new body"""
    k = q.num_vars()
    consts = [z3.Const(f"bv!{q.var_name(i)}!{i}", q.var_sort(i)) for i in range(k)]
    inst = z3.substitute_vars(body, *reversed(consts))
    return z3.ForAll(consts, inst) if forall else z3.Exists(consts, inst)


def normalize_goal(goal):
    """not (exists x. B)  ->  forall x. not B      (so that the goal can be skolemised)"""
    if z3.is_not(goal) and z3.is_quantifier(goal.arg(0)) and goal.arg(0).is_exists():
        q = goal.arg(0)
        return _rebuild(q, z3.Not(q.body()), True)
    return goal


def exists_goal_as_hyp(goal):
    """for a goal `exists x. B`: its negation `forall x. not B` (to be instantiated like a hypothesis:
    ground instances of it that contradict the hypotheses prove the goal), else None"""
    if z3.is_quantifier(goal) and goal.is_exists():
        return _rebuild(goal, z3.Not(goal.body()), True)
    return None


def skolemize(goal, tag):
    """strip leading universal quantifiers of a goal (to be proved)"""
    sk = []
    n = 0
    goal = normalize_goal(goal)
    while z3.is_quantifier(goal) and goal.is_forall():
        k = goal.num_vars()
        consts = []
        for i in range(k):
            c = z3.Const(f"sk!{tag}!{goal.var_name(i)}!{n}", goal.var_sort(i))
            consts.append(c)
            n += 1
        # de Bruijn: var 0 is the last bound variable
        goal = z3.substitute_vars(goal.body(), *reversed(consts))
        sk.extend(consts)
    return goal, sk


def split_goal(goal, tag):
    """goal -> list of (suffix, skolemised goal, skolem constants)"""
    parts = flatten_and(goal, [])
    out = []
    for k, p in enumerate(parts):
        g, sk = skolemize(p, f"{tag}{k}")
        sfx = f".{k}" if len(parts) > 1 else ""
        # Implies(A, B1 and B2) / conjunction under the quantifier: split again
        if z3.is_implies(g) and z3.is_and(g.arg(1)):
            for k2, s in enumerate(flatten_and(g.arg(1), [])):
                g2, sk2 = skolemize(s, f"{tag}{k}_{k2}")
                out.append((f"{sfx}.{k2}", z3.Implies(g.arg(0), g2), sk + sk2))
        elif z3.is_and(g):
            for k2, s in enumerate(flatten_and(g, [])):
                g2, sk2 = skolemize(s, f"{tag}{k}_{k2}")
                out.append((f"{sfx}.{k2}", g2, sk + sk2))
        else:
            out.append((sfx, g, sk))
    return out


def index_terms(terms, limit=MAX_CAND):
    """integer terms occurring as array indices (Select/Store) in ground formulas"""
    found, seen = [], set()

    def add(t):
        if t.get_id() not in seen and z3.is_int(t) and not z3.is_var(t):
            seen.add(t.get_id())
            found.append(t)

    def walk(t, visited):
        if t.get_id() in visited:
            return
        visited.add(t.get_id())
        if z3.is_quantifier(t):
            return
        if z3.is_app(t):
            k = t.decl().kind()
            if k == z3.Z3_OP_SELECT:
                for ix in t.children()[1:]:
                    add(ix)
            elif k == z3.Z3_OP_STORE:
                for ix in t.children()[1:-1]:
                    add(ix)
            elif k == z3.Z3_OP_UNINTERPRETED and t.num_args() > 0:
                # arguments of ghost functions (prefix sums, ranks ...)
                for ix in t.children():
                    add(ix)
            for c in t.children():
                walk(c, visited)
    vis = set()
    for t in terms:
        walk(t, vis)
    # integer constants (program variables) occurring inside index terms
    for t in list(found):
        stack = [t]
        while stack:
            x = stack.pop()
            if z3.is_const(x) and x.decl().kind() == z3.Z3_OP_UNINTERPRETED:
                add(x)
            elif z3.is_app(x):
                stack.extend(x.children())
    # smaller terms first (constants, i, j, i-1 ...)
    found.sort(key=lambda t: len(t.sexpr()))
    return found[:limit]


def instantiate(q, cands):
    """all instances of a universally quantified hypothesis over cands"""
    if not (z3.is_quantifier(q) and q.is_forall()):
        return None
    k = q.num_vars()
    if any(q.var_sort(i) != z3.IntSort() for i in range(k)):
        return None
    if len(cands) ** k > MAX_INST:
        cands = cands[:max(2, int(MAX_INST ** (1.0 / k)))]
    body = q.body()
    out = []
    for tup in itertools.product(cands, repeat=k):
        out.append(z3.substitute_vars(body, *reversed(tup)))
    return out


def ground_version(hyps, goal, skolems, extra_cands=()):
    flat = []
    for h in hyps:
        flatten_and(h, flat)
    eh = exists_goal_as_hyp(goal)
    if eh is not None:
        flat.append(eh)
    ground = [h for h in flat if not has_q(h)]
    quant = [h for h in flat if has_q(h)]
    if not quant:
        return None
    # candidate instances: skolem constants, then the index terms of the goal,
    # then those of the ground hypotheses (most relevant first)
    # skolem constants and their neighbours (recursion equations are stated at k / k+1)
    sk_int = [c for c in skolems if z3.is_int(c)]
    cands = list(sk_int) + list(extra_cands) + index_terms([goal]) \
        + [c + 1 for c in sk_int] + [c - 1 for c in sk_int] + index_terms(ground, 10 if eh is not None else 6)
    seen, cs = set(), []
    for c in cands:
        if c.get_id() not in seen:
            seen.add(c.get_id())
            cs.append(c)
    cs = cs[:MAX_CAND]
    inst = []
    for q in quant:
        r = instantiate(q, cs) if z3.is_quantifier(q) else None
        if r is None:
            continue      # hypothesis dropped (weaker context: still sound for unsat)
        inst.extend(r)
    return ground + inst


_qc = {}
_probe = None


def has_q(t):
    """does the term contain a quantifier (C-level probe, cached by AST id)"""
    global _probe
    i = t.get_id()
    r = _qc.get(i)
    if r is None:
        if _probe is None:
            _probe = z3.Probe("has-quantifiers")
        if not z3.is_bool(t):
            r = False
        else:
            g = z3.Goal()
            g.add(t)
            r = _probe(g) != 0.0
        _qc[i] = r
    return r


def to_smt2(hyps, neg_goal):
    s = z3.Solver()
    for h in hyps:
        s.add(h)
    s.add(neg_goal)
    return s.to_smt2()
