"""pyvc.loader -- reads /repo sources on every run and builds module
environments; models of the standard-library modules the verified code
imports."""
import ast
import hashlib
import os
import sys
import z3

from .core import Unsupported, CV, zint, simp
from .heap import (Class, Obj, Func, Native, Property, StaticMethod, Module,
                   EnumVal, PList, PSet, PDict, AbsColl, Opaque, SymArr)
from .interp import Env, Interp, AutoVal, Raised, LazyImport, OpaqueStr

REPO = os.environ.get("VERIF_REPO", "/repo")
SRC = os.environ.get("VERIF_SRC") or os.path.join(REPO, "src", "biotite")


class Unknown:
    def __init__(self, name):
        self.name = name


class Loader:
    def __init__(self, src_root=None):
        self.src_root = src_root or SRC
        self.modules = {}       # relpath -> Module
        self.sources = {}       # relpath -> (sha256, text)
        self.libs = {}
        self.dropped = {}       # relpath -> list of dropped constructs (pyx)
        self.load_errors = {}

    # ---- source acquisition
    def read(self, relpath):
        p = os.path.join(self.src_root, relpath)
        with open(p, "rb") as f:
            data = f.read()
        text = data.decode("utf-8")
        self.sources[relpath] = (hashlib.sha256(data).hexdigest(), text)
        return text

    def parse(self, relpath):
        text = self.read(relpath)
        if relpath.endswith(".pyx"):
            from . import cy2py
            pxd = relpath[:-4] + ".pxd"
            pxd_text = None
            if os.path.exists(os.path.join(self.src_root, pxd)):
                pxd_text = self.read(pxd)
            py, info = cy2py.translate(text, pxd_text)
            self.dropped[relpath] = info
            tree = ast.parse(py, filename=relpath)
            return tree, info
        return ast.parse(text, filename=relpath), None

    def load(self, interp, relpath):
        if relpath in self.modules:
            return self.modules[relpath]
        tree, info = self.parse(relpath)
        try:
            from . import renames
            from .interp import SPEC_RENAMES
            for q, m in renames.rename_maps(relpath, tree).items():
                SPEC_RENAMES[f"{relpath}::{q}"] = m
                self.renamed = getattr(self, "renamed", {})
                self.renamed[f"{relpath}::{q}"] = m
        except Exception:
            pass
        mod = Module(relpath, {})
        mod.relpath = relpath
        mod.is_cython = relpath.endswith(".pyx")
        mod.cyflags = dict(info["module_flags"]) if info else {}
        mod.ctype_aliases = dict(info["aliases"]) if info else {}
        mod.fused = dict(info["fused"]) if info else {}
        self.modules[relpath] = mod
        env = Env(module=mod)
        env.vars = mod.ns
        mod.env = env
        if info:
            interp.ctype_aliases = dict(getattr(interp, "ctype_aliases", {}))
            interp.ctype_aliases.update(mod.ctype_aliases)
            from .heap import CTypeObj
            from .core import norm_ctype, is_int_ctype, is_float_ctype
            for al, ty in mod.ctype_aliases.items():
                if is_int_ctype(norm_ctype(ty)) or is_float_ctype(norm_ctype(ty)):
                    mod.ns.setdefault(al, CTypeObj.get(norm_ctype(ty)))
            mod.ns["cython"] = self.import_module(interp, "cython")
            mod.ns.setdefault("np", self.import_module(interp, "numpy"))
        skipped = []
        for st in tree.body:
            try:
                if isinstance(st, (ast.Import, ast.ImportFrom, ast.FunctionDef, ast.ClassDef)):
                    interp.exec_stmt(st, env)
                elif isinstance(st, (ast.Assign, ast.AnnAssign, ast.AugAssign)):
                    try:
                        interp.exec_stmt(st, env)
                    except (Unsupported, Raised) as e:
                        for n in ast.walk(st):
                            if isinstance(n, ast.Name) and isinstance(n.ctx, ast.Store):
                                env.vars[n.id] = Opaque("module-level " + n.id)
                        skipped.append((st.lineno, str(e)))
                elif isinstance(st, (ast.Expr, ast.Pass)):
                    pass
                elif isinstance(st, (ast.If, ast.Try)):
                    try:
                        interp.exec_stmt(st, env)
                    except (Unsupported, Raised) as e:
                        skipped.append((st.lineno, str(e)))
                else:
                    skipped.append((st.lineno, type(st).__name__))
            except Unsupported as e:
                skipped.append((getattr(st, "lineno", 0), str(e)))
        mod.skipped = skipped
        if info:
            # members of a named `cdef enum` are also visible unqualified
            for en in info.get("enums", {}):
                c = mod.ns.get(en)
                if isinstance(c, Class):
                    for k, v in c.ns.items():
                        if isinstance(v, int) and not k.startswith("_"):
                            mod.ns.setdefault(k, v)
        return mod

    # ---- imports
    def import_module(self, interp, name):
        top = name.split(".")[0]
        if name in self.libs:
            return self.libs[name]
        extra = getattr(interp, "extra_libs", {})
        m = extra[name](interp) if name in extra else make_lib(interp, name)
        if m is None and top != name:
            m = make_lib(interp, top)
        if m is None:
            m = Module(name, {})
            m.unknown = True
        self.libs[name] = m
        return m

    def import_from(self, interp, module, name, level, cur_module):
        # repo-internal imports
        rel = None
        if level and cur_module is not None:
            base = os.path.dirname(cur_module.relpath)
            for _ in range(level - 1):
                base = os.path.dirname(base)
            rel = os.path.join(base, *(module.split(".") if module else []))
        elif module and module.startswith("biotite"):
            rel = os.path.join(*module.split(".")[1:]) if "." in module else ""
        if rel is not None:
            for cand in (rel + ".py", rel + ".pyx", os.path.join(rel, name + ".py"),
                         os.path.join(rel, name + ".pyx"), os.path.join(rel, "__init__.py")):
                full = os.path.join(self.src_root, cand)
                if os.path.isfile(full):
                    if cand.endswith("__init__.py"):
                        # package: search its star-imported submodules for the name
                        found = self._search_package(interp, os.path.dirname(cand), name)
                        if found is not None:
                            return found
                        continue
                    mod = self.load(interp, cand)
                    if os.path.basename(cand).rsplit(".", 1)[0] == name and name not in mod.ns:
                        return mod
                    if name in mod.ns:
                        v = mod.ns[name]
                        if isinstance(v, LazyImport):
                            v = v.resolve(interp)
                            mod.ns[name] = v
                        return v
            return Opaque(f"{module}.{name}")
        lib = self.import_module(interp, module)
        if name in lib.ns:
            return lib.ns[name]
        return Opaque(f"{module}.{name}")

    def _search_package(self, interp, pkgdir, name):
        init = os.path.join(self.src_root, pkgdir, "__init__.py")
        try:
            tree = ast.parse(open(init).read())
        except Exception:
            return None
        for st in tree.body:
            if isinstance(st, ast.ImportFrom) and st.level == 1 and st.module:
                for ext in (".py", ".pyx"):
                    cand = os.path.join(pkgdir, st.module + ext)
                    if os.path.isfile(os.path.join(self.src_root, cand)):
                        try:
                            text = open(os.path.join(self.src_root, cand)).read()
                        except Exception:
                            continue
                        if ("def " + name) in text or ("class " + name) in text or (name + " =") in text:
                            mod = self.load(interp, cand)
                            if name in mod.ns:
                                return mod.ns[name]
        return None


# --------------------------------------------------------------------------
# library models

def make_lib(I, name):
    B = I.builtins

    def N(nm, fn):
        return Native(nm, fn)
    if name == "sys":
        return Module("sys", {"maxsize": sys.maxsize,
                              "float_info": Opaque("float_info"),
                              "version_info": (3, 12, 1)})
    if name == "numbers":
        ns = {}
        for n in ("Number", "Real", "Integral"):
            ns[n] = Class(n, (), {}, None, "builtin")
        return Module("numbers", ns)
    if name == "copy":
        def _copy(I_, a, k):
            return shallow_copy(I_, a[0])

        def _deepcopy(I_, a, k):
            return deep_copy(I_, a[0], {})
        return Module("copy", {"copy": N("copy.copy", _copy), "deepcopy": N("copy.deepcopy", _deepcopy)})
    if name == "enum":
        def mk(kind, nm):
            c = Class(nm, (), {"__enumkind__": kind}, None, "enumbase")
            return c
        return Module("enum", {"Enum": mk("enum", "Enum"), "Flag": mk("flag", "Flag"),
                               "IntEnum": mk("intenum", "IntEnum"), "IntFlag": mk("flag", "IntFlag"),
                               "auto": N("auto", lambda I_, a, k: AutoVal()),
                               "unique": N("unique", lambda I_, a, k: a[0])})
    if name == "abc":
        ident = N("abstractmethod", lambda I_, a, k: _mark_abstract(a[0]))
        return Module("abc", {"abstractmethod": ident, "ABCMeta": Class("ABCMeta", (), {}, None, "builtin"),
                              "ABC": Class("ABC", (), {}, None, "user")})
    if name == "functools":
        def _wraps(I_, a, k):
            wrapped = a[0]

            def deco(I2, a2, k2):
                f = a2[0]
                if isinstance(f, Func):
                    f.attrs["__wrapped__"] = wrapped
                    if isinstance(wrapped, Func):
                        f.attrs["__name__"] = wrapped.node.name
                return f
            return N("wraps.deco", deco)
        return Module("functools", {"wraps": N("wraps", _wraps),
                                    "partial": N("partial", _partial),
                                    "cache": N("cache", lambda I_, a, k: a[0]),
                                    "lru_cache": N("lru_cache", lambda I_, a, k: a[0] if a and isinstance(a[0], Func) else N("d", lambda I2, a2, k2: a2[0]))})
    if name == "time":
        def _time(I_, a, k):
            t = I_.ctx.fresh_real("time")
            return t
        return Module("time", {"time": N("time.time", _time),
                               "sleep": N("time.sleep", lambda I_, a, k: None)})
    if name == "dataclasses":
        def _dataclass(I_, a, k):
            if a and isinstance(a[0], Class):
                return a[0]
            return N("dataclass.deco", lambda I2, a2, k2: a2[0])
        return Module("dataclasses", {"dataclass": N("dataclass", _dataclass),
                                      "field": N("field", lambda I_, a, k: k.get("default"))})
    if name == "re":
        return Module("re", {"compile": N("re.compile", lambda I_, a, k: Opaque("regex")),
                             "search": Opaque("re.search"), "match": Opaque("re.match"),
                             "sub": Opaque("re.sub")})
    if name == "warnings":
        return Module("warnings", {"warn": N("warnings.warn", lambda I_, a, k: None)})
    if name == "typing":
        return Module("typing", {})
    if name == "cython":
        def flag(fname):
            def outer(I_, a, k):
                val = a[0] if a else True

                def deco(I2, a2, k2):
                    tgt = a2[0]
                    if isinstance(tgt, Func):
                        tgt.attrs.setdefault("cyflags", {})[fname] = val
                    elif isinstance(tgt, Class):
                        if not hasattr(tgt, "cyflags"):
                            tgt.cyflags = {}
                        tgt.cyflags[fname] = val
                    return tgt
                return N("cython." + fname + ".deco", deco)
            return N("cython." + fname, outer)
        ns = {f: flag(f) for f in ("boundscheck", "wraparound", "cdivision", "cpow",
                                   "initializedcheck", "nonecheck", "overflowcheck")}
        return Module("cython", ns)
    if name in ("numpy", "np"):
        from . import nplib
        return nplib.make_module(I)
    if name == "itertools":
        from .interp import ConcIter

        def _product(I_, a, k):
            import itertools
            return ConcIter(list(itertools.product(*[I_.iter_concrete(x) for x in a], repeat=k.get("repeat", 1))))

        def _chain(I_, a, k):
            out = []
            for x in a:
                out.extend(I_.iter_concrete(x))
            return ConcIter(out)
        return Module("itertools", {"product": N("product", _product), "chain": N("chain", _chain)})
    if name == "collections":
        return Module("collections", {"OrderedDict": B["dict"], "namedtuple": Opaque("namedtuple")})
    if name == "collections.abc":
        return Module("collections.abc", {k: Class(k, (), {}, None, "builtin") for k in ("Iterable", "Sequence", "Mapping", "MutableMapping")})
    if name == "string":
        import string
        return Module("string", {k: getattr(string, k) for k in ("ascii_letters", "ascii_lowercase", "ascii_uppercase", "digits", "printable", "whitespace")})
    if name == "math":
        return Module("math", {"inf": Opaque("inf"), "pi": z3.RealVal("3.141592653589793"),
                               "ceil": N("math.ceil", lambda I_, a, k: _ceil(I_, a[0])),
                               "floor": N("math.floor", lambda I_, a, k: _floor(I_, a[0]))})
    return None


def _floor(I, v):
    v = I.unC(v)
    if isinstance(v, int):
        return v
    return z3.ToInt(v)


def _ceil(I, v):
    v = I.unC(v)
    if isinstance(v, int):
        return v
    return -z3.ToInt(-v)


def _partial(I, a, k):
    f = a[0]
    pre = a[1:]

    def call(I2, a2, k2):
        kk = dict(k)
        kk.update(k2)
        return I2.call(f, list(pre) + list(a2), kk)
    return Native("partial", call)


def _mark_abstract(f):
    if isinstance(f, Func):
        f.attrs["abstract"] = True
    return f


def shallow_copy(I, v):
    if isinstance(v, PList):
        r = PList(v.items)
        r.summary = v.summary
        return r
    if isinstance(v, PSet):
        if v.frozen:
            return v
        r = PSet(v.items, frozen=v.frozen)
        r.summary = v.summary
        return r
    if isinstance(v, PDict):
        r = PDict()
        for kk in v.order:
            I.dict_set(r, getattr(v, "keyobjs", {}).get(kk, kk), v.items[kk])
        return r
    if isinstance(v, AbsColl):
        return v if v.kind == "frozenset" else v.clone()
    if isinstance(v, Opaque):
        # a copy of an opaque value: equal content (same ident), new identity
        return Opaque(v.name + "'", v.ident)
    if isinstance(v, Obj):
        m, _ = v.cls.lookup("__copy__")
        if m is not None:
            from .heap import BoundMethod
            return I.call(BoundMethod(m, v), [], {})
        return Obj(v.cls, dict(v.attrs))
    return v


def deep_copy(I, v, memo):
    if isinstance(v, PList):
        r = PList([deep_copy(I, x, memo) for x in v.items])
        r.summary = v.summary
        return r
    if isinstance(v, PDict):
        r = PDict()
        for kk in v.order:
            I.dict_set(r, getattr(v, "keyobjs", {}).get(kk, kk), deep_copy(I, v.items[kk], memo))
        return r
    if isinstance(v, PSet):
        r = PSet([deep_copy(I, x, memo) for x in v.items], frozen=v.frozen)
        r.summary = v.summary
        return r
    if isinstance(v, tuple):
        return tuple(deep_copy(I, x, memo) for x in v)
    if isinstance(v, Opaque):
        return Opaque(v.name + "''", v.ident)
    if isinstance(v, Obj):
        return Obj(v.cls, {k: deep_copy(I, x, memo) for k, x in v.attrs.items()})
    return v
