#!/bin/sh
# offline setup: nothing to build; verify the tool inventory the checks rely on
set -e
cd "$(dirname "$0")"
python3-vt -c "import z3; assert z3.get_version_string().startswith('5.'), z3.get_version_string()"
test -x /usr/bin/cvc5
test -x /venv/bin/python
/venv/bin/python -c "import biotite, numpy"
mkdir -p evidence replays
echo "setup ok"
