#!/venv/bin/python
"""BOUNDED stand-in for C01: operation histories on AtomArray / AtomArrayStack
against a plain list-of-atoms reference model.  Bound: histories of length
<= 2 (quick) / 3 (thorough) over a 4-atom array and a 4-atom x 2-model stack
(with bonds, box and an extra annotation), index objects from a fixed pool
(integers incl. negative, slices incl. negative bounds and steps, boolean
masks, index arrays incl. reordering, ellipsis, 2-d stack indices)."""
import itertools
import sys
import numpy as np
sys.path.insert(0, "/verif")
from bounded.common import Run
import biotite.structure as struc

R = Run("C01", "operation histories (indexing, concatenate, delete atom/model, set element, annotation edit, copy) of bounded length "
                "on one AtomArray and one AtomArrayStack vs. a list-of-atoms reference model")
N, M = 4, 2


# ---------------------------------------------------------------- reference model
class Model:
    def __init__(self, ann, coord, bonds, box, stack):
        self.ann, self.coord, self.bonds, self.box, self.stack = ann, coord, bonds, box, stack

    def n(self):
        return len(self.coord[0])

    def copy(self):
        return Model({k: list(v) for k, v in self.ann.items()}, [list(m) for m in self.coord],
                     None if self.bonds is None else set(self.bonds), None if self.box is None else list(self.box), self.stack)

    def take(self, idxs):
        ann = {k: [v[i] for i in idxs] for k, v in self.ann.items()}
        coord = [[m[i] for i in idxs] for m in self.coord]
        bonds = None
        if self.bonds is not None:
            pos = {old: new for new, old in enumerate(idxs)}
            bonds = {(min(pos[a], pos[b]), max(pos[a], pos[b]), t) for a, b, t in self.bonds if a in pos and b in pos}
        return Model(ann, coord, bonds, self.box, self.stack)

    def take_models(self, ms):
        return Model(self.ann, [self.coord[m] for m in ms], self.bonds,
                     None if self.box is None else [self.box[m] for m in ms], True)


def build(stack):
    n = N
    ann = {"chain_id": ["A", "A", "B", "B"], "res_id": [1, 1, 2, 3], "ins_code": ["", "", "", "A"],
           "res_name": ["GLY", "GLY", "ALA", "SER"], "hetero": [False, False, True, False],
           "atom_name": ["N", "CA", "C", "O"], "element": ["N", "C", "C", "O"], "extra": [0.5, 1.5, 2.5, 3.5]}
    coord = [[(float(m * 10 + a), float(a), float(-a)) for a in range(n)] for m in range(M if stack else 1)]
    bonds = {(0, 1, 1), (1, 2, 2), (2, 3, 1)}
    box = [float(m + 1) for m in range(M if stack else 1)]
    a = struc.AtomArrayStack(M, n) if stack else struc.AtomArray(n)
    for k, v in ann.items():
        if k == "extra":
            a.add_annotation("extra", dtype=float)
        a.set_annotation(k, np.array(v))
    a.coord = np.array(coord, dtype=np.float32) if stack else np.array(coord[0], dtype=np.float32)
    a.bonds = struc.BondList(n, np.array(sorted(bonds)))
    bx = np.array([np.eye(3) * b for b in box], dtype=np.float32)
    a.box = bx if stack else bx[0]
    return a, Model(ann, coord, bonds, box, stack)


def compare(a, m):
    """contract: container == reference model, all parts of matching length/depth"""
    is_stack = isinstance(a, struc.AtomArrayStack)
    n = m.n()
    if a.array_length() != n:
        return f"array_length {a.array_length()} != {n}"
    for k, v in m.ann.items():
        got = a.get_annotation(k)
        if len(got) != n or [x for x in got.tolist()] != [type(got.tolist()[0])(x) if n else x for x in v][:n] and got.tolist() != list(v):
            if got.tolist() != list(v):
                return f"annotation {k}: {got.tolist()} != {v}"
    coord = a.coord if is_stack else a.coord[None]
    if coord.shape != (len(m.coord), n, 3):
        return f"coord shape {coord.shape} != {(len(m.coord), n, 3)}"
    if not np.array_equal(coord, np.array(m.coord, dtype=np.float32).reshape(len(m.coord), n, 3)):
        return "coordinates differ"
    if (a.bonds is None) != (m.bonds is None):
        return "bond list presence differs"
    if a.bonds is not None:
        if a.bonds.get_atom_count() != n:
            return f"bond list has {a.bonds.get_atom_count()} atoms, array has {n}"
        got = {(int(x), int(y), int(t)) for x, y, t in a.bonds.as_array()}
        if got != m.bonds:
            return f"bonds {sorted(got)} != {sorted(m.bonds)}"
    if (a.box is None) != (m.box is None):
        return "box presence differs"
    if a.box is not None:
        box = a.box if is_stack else a.box[None]
        if box.shape[0] != len(m.box):
            return f"box depth {box.shape[0]} != coord depth {len(m.box)}"
        if [float(b[0, 0]) for b in box] != m.box:
            return f"box {[float(b[0, 0]) for b in box]} != {m.box}"
    return None


def atom_indices(n):
    out = []
    for i in sorted({-n, -1, 0, n - 1} & set(range(-n, n))):
        out.append(("int", i))
    for s in [(None, None, None), (1, None, None), (None, -1, None), (-2, None, None), (None, None, 2), (1, 3, None)]:
        out.append(("slice", s))
    if n >= 2:
        out.append(("mask", [i % 2 == 0 for i in range(n)]))
        out.append(("mask", [i != 0 for i in range(n)]))
        out.append(("array", [n - 1, 0]))
        out.append(("array", [-1]))
    return out


def to_index(kind, v):
    if kind == "int":
        return v
    if kind == "slice":
        return slice(*v)
    if kind == "mask":
        return np.array(v, dtype=bool)
    return np.array(v, dtype=int)


def model_idx(kind, v, n):
    if kind == "int":
        return [v % n]
    if kind == "slice":
        return list(range(n))[slice(*v)]
    if kind == "mask":
        return [i for i, b in enumerate(v) if b]
    return [i % n for i in v]


def ops_for(a, m):
    """applicable operations: (description, function(a, m) -> (a', m'))"""
    n = m.n()
    ops = []
    if n == 0:
        return ops
    for kind, v in atom_indices(n):
        if kind == "int" and not m.stack:
            continue        # returns an Atom, not a container
        def f(a, m, kind=kind, v=v):
            ix = to_index(kind, v)
            if m.stack:
                if kind == "int":
                    return a[:, ix:ix + 1 if ix != -1 else None] if False else a[:, [ix]], m.take(model_idx(kind, v, m.n()))
                return a[:, ix], m.take(model_idx(kind, v, m.n()))
            return a[ix], m.take(model_idx(kind, v, m.n()))
        ops.append((f"index atoms {kind} {v}", f))
    if m.stack:
        for i in sorted({-1, 0, len(m.coord) - 1}):
            def f(a, m, i=i):
                return a[:, i], None
        for kind, v in [("int", -1), ("int", 0)]:
            def g(a, m, v=v):
                # stack[:, k] with an integer atom index keeps the stack (one atom)
                return a[:, v], m.take([v % m.n()])
            ops.append((f"stack[:, {v}] (integer atom index)", g))
        for msel in [slice(0, 1), slice(None, None, -1), [len(m.coord) - 1]]:
            def h(a, m, msel=msel):
                ms = list(range(len(m.coord)))[msel] if isinstance(msel, slice) else msel
                return a[msel], m.take_models(ms)
            ops.append((f"index models {msel}", h))
        def ell(a, m):
            return a[..., 1:], m.take(list(range(1, m.n())))
        ops.append(("stack[..., 1:]", ell))
        # integer model index (Python and NumPy integer types alike) with an atom selection: one model as an AtomArray
        for typ in (int, np.int64, np.int32, np.uint8, np.intp):
            for k in (0, -1, len(m.coord) - 1):
                if k < 0 and typ is np.uint8:
                    continue
                def one_model(a, m, typ=typ, k=k):
                    r = a[typ(k), 1:]
                    if not isinstance(r, struc.AtomArray):
                        return f"stack[{typ.__name__}({k}), 1:] is a {type(r).__name__} of shape {getattr(r, 'shape', None)}, an AtomArray is expected", None
                    m2 = m.take_models([k % len(m.coord)]).take(list(range(1, m.n())))
                    m2.stack = False
                    same = a[typ(k)][1:]
                    if not (r == same):
                        return f"stack[{typ.__name__}({k}), 1:] != stack[{k}][1:]", None
                    return r, m2
                ops.append((f"stack[{typ.__name__}({k}), 1:]", one_model))
            def one_atom(a, m, typ=typ):
                at = a[typ(0), typ(m.n() - 1)]
                if not isinstance(at, struc.Atom):
                    return f"stack[{typ.__name__}(0), {typ.__name__}(n-1)] is a {type(at).__name__}, an Atom is expected", None
                if tuple(float(x) for x in at.coord) != m.coord[0][m.n() - 1]:
                    return "stack[i, j] is another atom than model i, atom j", None
                return a, None
            ops.append((f"stack[{typ.__name__}(0), {typ.__name__}(n-1)]", one_atom))
        if len(m.coord) >= 2:
            for i in (0, -1):
                def dm(a, m, i=i):
                    a = a.copy()
                    del a[i]
                    ms = list(range(len(m.coord)))
                    del ms[i]
                    return a, m.take_models(ms)
                ops.append((f"delete model {i}", dm))
    for i in sorted({0, -1, n - 1} & set(range(-n, n))):
        def d(a, m, i=i):
            a = a.copy()
            if m.stack:
                a = a[:, [j for j in range(m.n()) if j != i % m.n()]]
            else:
                del a[i]
            idx = [j for j in range(m.n()) if j != i % m.n()]
            return a, m.take(idx)
        ops.append((f"delete atom {i}", d))
    def cat(a, m):
        b = a + a
        nn = m.n()
        m2 = m.copy()
        m2.ann = {k: v + v for k, v in m.ann.items()}
        m2.coord = [c + c for c in m.coord]
        if m.bonds is not None:
            m2.bonds = set(m.bonds) | {(x + nn, y + nn, t) for x, y, t in m.bonds}
        return b, m2
    ops.append(("concatenate a + a", cat))
    def cat_one(a, m):
        # a list of one operand (the chains of a single-chain structure, ...): the result is a container of its own
        # like every other concatenation -- the list-of-atoms model builds a new list
        b = struc.concatenate([a])
        if m.n() > 0 and isinstance(b, (struc.AtomArray, struc.AtomArrayStack)):
            old = int(b.res_id[0])
            b.res_id[0] = old + 7
            c = compare(a, m)
            b.res_id[0] = old
            if c:
                return "editing the result of concatenate([a]) changed the operand: " + c, None
        return b, m.copy()
    ops.append(("concatenate([a]) of one operand", cat_one))
    def cat_other(a, m):
        # documented: the box of the first element that has a box is kept
        o = a.copy()
        if o.box is not None:
            o.box = o.box * 3
        first = a.copy()
        first.box = None
        b = struc.concatenate([first, a, o])
        nn = m.n()
        m2 = m.copy()
        m2.ann = {k: v + v + v for k, v in m.ann.items()}
        m2.coord = [c + c + c for c in m.coord]
        if m.bonds is not None:
            m2.bonds = set(m.bonds) | {(x + nn, y + nn, t) for x, y, t in m.bonds} | {(x + 2 * nn, y + 2 * nn, t) for x, y, t in m.bonds}
        return b, m2
    ops.append(("concatenate([boxless copy, a, copy with another box])", cat_other))
    def rep(a, m):
        # repeat(): k copies of the atoms in the same model(s), each with its own coordinates
        nn = m.n()
        if nn == 0 or nn > 6:
            return a, None
        base = a.coord if m.stack else a.coord[None]
        shifts = [100.0, 200.0]
        new = np.stack([base + s for s in shifts])                 # (k, m, n, 3)
        b = struc.repeat(a, new if m.stack else new[:, 0])
        m2 = m.copy()
        m2.ann = {k: v + v for k, v in m.ann.items()}
        m2.coord = [[tuple(float(x) + shifts[r] for x in c[i]) for r in range(2) for i in range(nn)] for c in m.coord]
        if m.bonds is not None:
            m2.bonds = set(m.bonds) | {(x + nn, y + nn, t) for x, y, t in m.bonds}
        return b, m2
    ops.append(("repeat twice (shifted coordinates)", rep))
    def rep_once(a, m):
        nn = m.n()
        if nn == 0 or nn > 6:
            return a, None
        base = a.coord if m.stack else a.coord[None]
        b = struc.repeat(a, (base + 100.0)[None] if m.stack else (base + 100.0))
        m2 = m.copy()
        m2.coord = [[tuple(float(x) + 100.0 for x in c[i]) for i in range(nn)] for c in m.coord]
        return b, m2
    ops.append(("repeat once (shifted coordinates)", rep_once))
    def add_other(a, m):
        o = a.copy()
        if o.box is not None:
            o.box = o.box * 5
        b = a + o
        nn = m.n()
        m2 = m.copy()
        m2.ann = {k: v + v for k, v in m.ann.items()}
        m2.coord = [c + c for c in m.coord]
        if m.bonds is not None:
            m2.bonds = set(m.bonds) | {(x + nn, y + nn, t) for x, y, t in m.bonds}
        return b, m2
    ops.append(("a + (copy with another box)", add_other))
    def cat_nobonds(a, m):
        # operands without a bond list contribute no bonds; the others keep theirs (shifted)
        if m.bonds is None:
            return a, None
        o = a.copy()
        o.bonds = None
        b = struc.concatenate([o, a]) if m.n() % 2 else (a + o)
        nn = m.n()
        off = nn if m.n() % 2 else 0
        m2 = m.copy()
        m2.ann = {k: v + v for k, v in m.ann.items()}
        m2.coord = [c + c for c in m.coord]
        m2.bonds = {(x + off, y + off, t) for x, y, t in m.bonds}
        return b, m2
    ops.append(("concatenate with a copy that has no bond list", cat_nobonds))
    def edit(a, m):
        a = a.copy()
        a.res_id[0] = 42
        m2 = m.copy()
        m2.ann["res_id"][0] = 42
        return a, m2
    ops.append(("annotation edit res_id[0] = 42", edit))
    def replace_then_widen(a, m):
        # a whole category is replaced by short values, then single entries get values of the documented width
        # (chain ids of 4, atom names of 6, residue names of 5 characters): the list model keeps them in full
        nn = m.n()
        if nn == 0:
            return a, None
        a = a.copy()
        m2 = m.copy()
        for cat, short, wide in (("chain_id", "Q", "WXYZ"), ("atom_name", "X", "HD11AB"), ("res_name", "R", "LONGR"), ("element", "H", "ZN")):
            a.set_annotation(cat, np.array([short] * nn)) if cat != "chain_id" else setattr(a, "chain_id", np.array([short] * nn))
            a.get_annotation(cat)[nn - 1] = wide
            m2.ann[cat] = [short] * (nn - 1) + [wide]
        a.res_id = np.arange(nn, dtype=np.int8)          # narrower integers, then a value beyond int8
        a.res_id[0] = 70000
        m2.ann["res_id"] = [70000] + list(range(1, nn))
        return a, m2
    ops.append(("replace whole categories by short values, then write wide ones", replace_then_widen))
    def setel(a, m):
        a = a.copy()
        m2 = m.copy()
        if m.stack:
            a[0] = a[-1]
            m2.coord[0] = list(m2.coord[-1])
            if m2.box is not None:
                m2.box[0] = m2.box[-1]
        else:
            a[0] = a[m.n() - 1]
            for k in m2.ann:
                m2.ann[k][0] = m2.ann[k][-1]
            m2.coord[0][0] = m2.coord[0][-1]
        return a, m2
    ops.append(("set element 0", setel))
    def cp(a, m):
        c = a.copy()
        # mutating the copy must not touch the original
        c.coord[..., 0, 0] = 777.0
        c.res_id[0] = -5
        if c.box is not None:
            c.box[..., 0, 0] = 99.0
        if c.bonds is not None and m.n() >= 2:
            c.bonds.add_bond(0, m.n() - 1, 5)
        return a, m
    ops.append(("copy, then mutate the copy", cp))
    def atom_edit(a, m):
        # an extracted Atom is a value of its own: editing it must not write through into the container
        at = a[0, m.n() - 1] if m.stack else a[m.n() - 1]
        at.coord[0] = 555.0
        at.res_id = -77
        c = at.copy()
        c.coord[1] = 444.0
        if at.coord[1] == 444.0:
            return "Atom.copy() shares its coordinates with the original", None
        return a, m
    ops.append(("extract an atom, edit it", atom_edit))
    def swap(a, m):
        if m.stack or m.n() < 2:
            return a, None
        a = a.copy()
        x, y = a[0], a[m.n() - 1]
        a[0] = y
        a[m.n() - 1] = x
        m2 = m.copy()
        for k in m2.ann:
            m2.ann[k][0], m2.ann[k][-1] = m2.ann[k][-1], m2.ann[k][0]
        m2.coord[0][0], m2.coord[0][-1] = m2.coord[0][-1], m2.coord[0][0]
        return a, m2
    ops.append(("swap the first and the last atom through Atom objects", swap))
    return ops


def run_histories(stack, depth):
    a0, m0 = build(stack)
    R.check("container == model", "build", "initial", lambda: compare(a0, m0))

    def rec(a, m, hist, d):
        if d == 0:
            return
        for desc, f in ops_for(a, m):
            h2 = hist + [desc]
            key = ("stack: " if stack else "array: ") + desc
            res = {}

            def step():
                a2, m2 = f(a, m)
                if isinstance(a2, str):
                    return a2
                if m2 is None:
                    return None
                res["a"], res["m"] = a2, m2
                c = compare(a2, m2)
                if c is None and isinstance(a2, (struc.AtomArray, struc.AtomArrayStack)):
                    c2 = compare(a, m)           # the operand itself must be unchanged
                    if c2:
                        return "operand changed: " + c2
                    # ... and stays so when the bond list of a result is edited afterwards: every operation
                    # hands out a bond list of its own ("bonds keep connecting the same atoms")
                    a3, m3 = f(a, m)
                    if a3 is not a and isinstance(a3, (struc.AtomArray, struc.AtomArrayStack)) and a3.bonds is not None and m3 is not None and m3.n() >= 2:
                        a3.bonds.add_bond(0, m3.n() - 1, 6)
                        a3.bonds.remove_bond(0, 1)
                        c3 = compare(a, m)
                        if c3:
                            return "editing the bond list of the result changed the operand: " + c3
                return c
            fail = R.check("history step: container == list-of-atoms model", key, {"container": "stack" if stack else "array", "history": h2}, step)
            if not fail and "a" in res and isinstance(res["a"], (struc.AtomArray, struc.AtomArrayStack)):
                rec(res["a"], res["m"], h2, d - 1)
    rec(a0, m0, [], depth)


# ---------------------------------------------------------------- extra annotations of any dtype
def _same(x, y):
    """element-wise identity of two annotation arrays, NaN == NaN"""
    if x.dtype != y.dtype or x.shape != y.shape:
        return False
    if np.issubdtype(x.dtype, np.floating):
        return bool(np.array_equal(x, y, equal_nan=True))
    return x.tolist() == y.tolist()


def dtype_cases():
    """the operations of the statement on arrays whose extra annotation has another dtype /
    special values (NaN = 'not available' in float columns of every width)"""
    nan = float("nan")
    pool = [(np.float16, [1.0, nan, 2.5, nan]), (np.float32, [10.0, 11.5, 12.0, nan]), (np.float64, [nan, 0.0, -0.0, 1e300]),
            (np.float32, [1.0, 2.0, 3.0, 4.0]), (np.int8, [-128, 0, 1, 127]), (np.uint64, [0, 1, 2, 2 ** 64 - 1]),
            (bool, [True, False, True, True]), ("U5", ["", "a", "abcde", "'"]), (object, [None, (1, 2), "x", 3.5])]
    for stack in (False, True):
        for dt, vals in pool:
            a, _ = build(stack)
            arr = np.empty(N, dtype=dt)
            for i, v in enumerate(vals):
                arr[i] = v
            a.set_annotation("special", arr)
            inp = {"container": "stack" if stack else "array", "dtype": str(np.dtype(dt)), "values": repr(vals)}
            key = ("stack: " if stack else "array: ") + "annotation dtype operations"

            def f(a=a, arr=arr, stack=stack):
                c = a.copy()
                if not _same(c.get_annotation("special"), arr):
                    return "copy() changed the annotation"
                if not a.equal_annotations(c):
                    return "equal_annotations(copy) is False"
                if not (c == a):
                    return "copy() does not compare equal to its original"
                if np.issubdtype(arr.dtype, np.floating) and np.isnan(arr).any() and a.equal_annotations(c, equal_nan=False):
                    return "equal_annotations(copy, equal_nan=False) is True although NaN values are present"
                sub = a[..., [3, 0]]
                if not _same(sub.get_annotation("special"), arr[[3, 0]]):
                    return "index array [3, 0] changed the annotation"
                cat = a + c
                if not _same(cat.get_annotation("special"), np.concatenate([arr, arr])):
                    return f"a + copy: annotation {cat.get_annotation('special')!r}"
                if not stack:
                    second = a.copy()
                    second.coord += 1
                    st = struc.stack([a, second])
                    if st.stack_depth() != 2 or not _same(st.get_annotation("special"), arr):
                        return "stack([a, copy]) changed the annotation"
                    for k in range(2):
                        if not _same(st.get_array(k).get_annotation("special"), arr) or not st.get_array(k).equal_annotations(a):
                            return f"get_array({k}) of stack([a, copy]) has other annotations than a"
                    third = a.copy()
                    third.coord -= 5
                    st[1] = third
                    if not np.array_equal(st.coord[1], third.coord):
                        return "stack[1] = array did not set the coordinates"
                    x = a.copy()
                    x[0] = a[3]
                    exp = arr.copy()
                    exp[0] = arr[3]
                    if not _same(x.get_annotation("special"), exp):
                        return "a[0] = a[3] did not copy the annotation value"
                else:
                    m0 = a[0]
                    if not _same(m0.get_annotation("special"), arr):
                        return "stack[0] changed the annotation"
                    x = a.copy()
                    x[1] = m0
                    if not np.array_equal(x.coord[1], m0.coord):
                        return "stack[1] = stack[0] did not set the coordinates"
                    st = struc.stack([a[0], a[1]])
                    if not (st == a):
                        return "stack of the models does not compare equal to the stack"
                c.get_annotation("special")[0] = arr[1]
                if not _same(a.get_annotation("special"), arr):
                    return "editing the copy's annotation changed the original"
                return None
            R.check("annotation of any dtype survives copy / compare / index / concatenate / stack / assignment", key, inp, f)


def stack_bonds_case(variant):
    """stack(): the models share one bond list - the one of the FIRST array (documented); later arrays may carry
    another one or none.  The stack, its models and its atom selections connect the atoms as the first array does."""
    a, m = build(False)
    others = []
    for k in range(2):
        o = a.copy()
        o.coord += k + 1
        if variant == "later arrays without bonds":
            o.bonds = None
        elif variant == "later arrays with fewer bonds":
            o.bonds = struc.BondList(N, np.array(sorted(m.bonds))[: 1 + k])
        elif variant == "later arrays with more bonds":
            bl = o.bonds.copy()
            bl.add_bond(0, N - 1, 1)
            o.bonds = bl
        others.append(o)
    st = struc.stack([a] + others)
    exp = set(m.bonds)
    got = {(int(x), int(y), int(t)) for x, y, t in st.bonds.as_array()} if st.bonds is not None else None
    if got != exp:
        return f"stack.bonds = {None if got is None else sorted(got)}, the first array has {sorted(exp)}"
    for k in range(3):
        g = st[k].bonds
        gk = {(int(x), int(y), int(t)) for x, y, t in g.as_array()} if g is not None else None
        if gk != exp:
            return f"model {k} of the stack has bonds {None if gk is None else sorted(gk)}"
    sub = st[:, [0, 1]]
    gs = {(int(x), int(y), int(t)) for x, y, t in sub.bonds.as_array()} if sub.bonds is not None else None
    if gs != {(x, y, t) for x, y, t in exp if x < 2 and y < 2}:
        return f"stack[:, [0, 1]] has bonds {gs}"
    if {(int(x), int(y), int(t)) for x, y, t in a.bonds.as_array()} != exp:
        return "stack() changed the bonds of the first array"
    return None


for variant in ("same bonds", "later arrays without bonds", "later arrays with fewer bonds", "later arrays with more bonds"):
    R.check("stack(): one bond list for all models, that of the first array", "stack: bonds of the first array", {"variant": variant},
            lambda variant=variant: stack_bonds_case(variant))


def protocol_case(stack):
    """the container protocol around the operations of the statement: length / shape / iteration, rebuilding from
    the iterated elements, ==, and that arrays of the wrong length are refused without changing the container"""
    a, m = build(stack)
    n = m.n()
    if a.array_length() != n or (stack and (a.stack_depth() != M or a.shape != (M, n) or len(a) != M)) or (not stack and (a.shape != (n,) or len(a) != n)):
        return f"length / shape: array_length {a.array_length()}, shape {a.shape}, len {len(a)}"
    items = list(a)
    if stack:
        if len(items) != M or any(not isinstance(x, struc.AtomArray) for x in items):
            return "iterating a stack does not give its models"
        for k, x in enumerate(items):
            c = compare(x, m.take_models([k]).__class__(m.ann, [m.coord[k]], m.bonds, [m.box[k]], False))
            if c:
                return f"model {k} from iteration: {c}"
        back = struc.stack(items)
        if not (back == a) or compare(back, m):
            return "stack(list(stack)) differs from the stack"
        if not (a.get_array(1) == items[1]):
            return "get_array(1) differs from the iterated model"
    else:
        if len(items) != n or any(not isinstance(x, struc.Atom) for x in items):
            return "iterating an array does not give its atoms"
        back = struc.array(items)
        back.bonds = a.bonds.copy()
        back.box = a.box.copy()
        if not (back == a) or compare(back, m):
            return "array(list(array)) differs from the array (annotations / coordinates)"
        for i, at in enumerate(items):
            if at.res_id != m.ann["res_id"][i] or at.atom_name != m.ann["atom_name"][i] or tuple(float(x) for x in at.coord) != m.coord[0][i]:
                return f"atom {i} from iteration differs from the model"
    # == tells the parts apart
    for what, change in (("coord", lambda c: c.coord.__setitem__((Ellipsis, 0, 0), 123.0)), ("annotation", lambda c: c.res_id.__setitem__(0, 99)),
                         ("bonds", lambda c: c.bonds.add_bond(0, n - 1, 3)), ("box", lambda c: c.box.__setitem__((Ellipsis, 0, 0), 77.0))):
        c = a.copy()
        if not (c == a):
            return "copy != original"
        change(c)
        if c == a:
            return f"== does not notice a difference in {what}"
    # wrong lengths are refused, nothing changes
    for what, f in (("coord", lambda: setattr(a, "coord", np.zeros(((M, n + 1, 3) if stack else (n + 1, 3)), dtype=np.float32))),
                    ("annotation", lambda: a.set_annotation("res_id", np.arange(n + 1))),
                    ("bonds", lambda: setattr(a, "bonds", struc.BondList(n + 1))),
                    # (a stack accepts coordinates / boxes of another depth - models may be replaced as a whole -, so only
                    #  the dimensionality and the 3x3 shape are checked for the box)
                    ("box", lambda: setattr(a, "box", np.zeros(((3, 3) if stack else (2, 3, 3)), dtype=np.float32))),
                    ("box vectors", lambda: setattr(a, "box", np.zeros(((M, 3, 2) if stack else (3, 2)), dtype=np.float32)))):
        try:
            f()
            return f"{what} of the wrong length was accepted"
        except (ValueError, IndexError, TypeError):
            pass
        c = compare(a, m)
        if c:
            return f"a refused {what} assignment changed the container: {c}"
    cats = set(a.get_annotation_categories())
    if cats != set(m.ann):
        return f"annotation categories {sorted(cats)}"
    a.del_annotation("extra")
    if "extra" in a.get_annotation_categories():
        return "del_annotation"
    return None


for st in (False, True):
    R.check("container protocol: length, iteration, rebuilding, ==, refused assignments", ("stack: " if st else "array: ") + "container protocol",
            {"container": "stack" if st else "array"}, lambda st=st: protocol_case(st))


depth = 3 if R.thorough else 2
for st in (False, True):
    run_histories(st, depth)
dtype_cases()
R.finish()
