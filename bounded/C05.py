#!/venv/bin/python
"""BOUNDED stand-in for C05 (never counted as proved): every array of length
1..3 over boundary values of each dtype goes through the real compress() and
the real BinaryCIFData serialise/deserialise; the decoded array must equal the
input (integers exactly, floats within the relative tolerance, non-finite
values kept or rejected)."""
import itertools
import json
import sys
import warnings

import numpy as np
from biotite.structure.io.pdbx import compress
from biotite.structure.io.pdbx.bcif import BinaryCIFData

TOL = 1e-6
FLOATS = [0.0, 1.5, -2.5, 1e-7, 123456.789, 3.0e6, -1.0e10, float("nan"), float("inf")]
INTS = {np.int8: [-128, -1, 0, 127], np.uint8: [0, 1, 255], np.int16: [-32768, 0, 32767],
        np.uint16: [0, 65535], np.int32: [-2 ** 31, -1, 0, 2 ** 31 - 1], np.uint32: [0, 2 ** 32 - 1]}


def roundtrip(arr, tol=None):
    data = compress(BinaryCIFData(arr), float_tolerance=TOL if tol is None else tol)
    back = BinaryCIFData.deserialize(data.serialize())
    return back.array, [type(e).__name__ for e in data.encoding]


def check(arr, tol=None):
    """returns failure text or None"""
    TOLV = TOL if tol is None else tol
    try:
        with warnings.catch_warnings():
            warnings.simplefilter("ignore")
            back, encs = roundtrip(arr, tol)
    except (ValueError, OverflowError, TypeError) as e:
        return None          # rejected with an error: allowed by the property
    back = np.asarray(back)
    if back.shape != arr.shape:
        return f"shape {back.shape} != {arr.shape} via {encs}"
    if np.issubdtype(arr.dtype, np.integer):
        if not np.array_equal(back.astype(np.int64), arr.astype(np.int64)):
            return f"decoded {back.tolist()} via {encs}"
        return None
    fin = np.isfinite(arr)
    if not np.array_equal(np.isnan(arr), np.isnan(back.astype(float))) or not np.array_equal(np.isinf(arr), np.isinf(back.astype(float))):
        return f"non-finite values altered: decoded {back.tolist()} via {encs}"
    err = np.abs(back[fin].astype(np.float64) - arr[fin].astype(np.float64))
    # float32 inputs carry their own representation error
    eps = np.finfo(arr.dtype).eps
    if np.any(err > (TOLV + 4 * eps) * np.abs(arr[fin].astype(np.float64)) + 1e-300):
        return f"decoded {back.tolist()} (error {err.max():.3g}) via {encs}"
    return None


def main():
    known = json.load(open("/verif/known_findings.json"))
    evals, fails, samples = 0, [], []
    for dt in (np.float32, np.float64):
        for n in (1, 2, 3):
            for combo in itertools.product(FLOATS, repeat=n):
                arr = np.array(combo, dtype=dt)
                evals += 1
                f = check(arr)
                if f:
                    fails.append({"dtype": dt.__name__, "array": [repr(x) for x in combo], "what": f})
                elif len(samples) < 3 and n == 3:
                    samples.append({"dtype": dt.__name__, "array": [repr(x) for x in combo]})
    # magnitudes and tolerances: the relative tolerance passed to compress() must hold for small and large values alike
    SMALL = [1.321746e-4, 7.7123456e-3, 1.004899415, 0.25, 123.456789012, 3.3333333333e-6]
    for tol in (1e-3, 1e-6, 1e-10):
        for combo in itertools.product(SMALL, repeat=2):
            arr = np.array(combo + (combo[0] * 3,), dtype=np.float64)
            evals += 1
            f = check(arr, tol)
            if f:
                fails.append({"dtype": "float64", "array": [repr(x) for x in arr.tolist()], "tolerance": tol, "what": f})
    for dt, vals in INTS.items():
        for n in (1, 2, 3):
            for combo in itertools.product(vals, repeat=n):
                arr = np.array(combo, dtype=dt)
                evals += 1
                f = check(arr)
                if f:
                    fails.append({"dtype": dt.__name__, "array": list(map(int, combo)), "what": f})
    print(json.dumps({"evaluations": evals, "failures": fails[:40], "n_failures": len(fails), "samples": samples}))


if __name__ == "__main__":
    main()
