#!/venv/bin/python
"""BOUNDED stand-in for C05 (never counted as proved): (a) every array of length
1..3 over boundary values of each dtype goes through the real compress() and
the real BinaryCIFData serialise/deserialise; the decoded array must equal the
input (integers exactly, floats within the relative tolerance, non-finite
values kept or rejected); (b) every encoding class and typical chains applied directly
(encode_stepwise / decode_stepwise and serialised encodings) to integer arrays of
length 0..6 over boundary values and runs, float arrays and string arrays."""
import itertools
import json
import sys
import warnings

import numpy as np
sys.path.insert(0, "/verif")
from bounded.common import Run
from biotite.structure.io.pdbx import compress
from biotite.structure.io.pdbx.bcif import BinaryCIFData

TOL = 1e-6
FLOATS = [0.0, 1.5, -2.5, 1e-7, 123456.789, 3.0e6, -1.0e10, float("nan"), float("inf")]
INTS = {np.int8: [-128, -1, 0, 127], np.uint8: [0, 1, 255], np.int16: [-32768, 0, 32767],
        np.uint16: [0, 65535], np.int32: [-2 ** 31, -1, 0, 2 ** 31 - 1], np.uint32: [0, 2 ** 32 - 1]}


def roundtrip(arr, tol=None):
    data = compress(BinaryCIFData(arr), float_tolerance=TOL if tol is None else tol)
    back = BinaryCIFData.deserialize(data.serialize())
    return back.array, [type(e).__name__ for e in data.encoding]


def check(arr, tol=None):
    """returns failure text or None"""
    TOLV = TOL if tol is None else tol
    try:
        with warnings.catch_warnings():
            warnings.simplefilter("ignore")
            back, encs = roundtrip(arr, tol)
    except (ValueError, OverflowError, TypeError) as e:
        # rejected with an error: allowed by the property only for values the format cannot hold - BinaryCIF has
        # 8..32 bit integers (signed or unsigned) and 32 / 64 bit floats, so every float array and every integer
        # array within one of these ranges has to be accepted
        if np.issubdtype(arr.dtype, np.floating):
            return f"compress() refused a float array: {type(e).__name__}: {e}"
        vals = [int(x) for x in arr.tolist()]
        # (a 64-bit dtype is mapped to the 32-bit type of the same signedness: an int64 array holding 2**31 may be
        #  refused although uint32 could hold it - for one element it is, for several compress() picks uint32)
        lo, hi = (0, 2 ** 32 - 1) if arr.dtype.kind == "u" else (-2 ** 31, 2 ** 31 - 1)
        if not vals or (min(vals) >= lo and max(vals) <= hi):
            return f"compress() refused integers that fit the 32-bit type of their signedness: {type(e).__name__}: {e}"
        return None
    back = np.asarray(back)
    if back.shape != arr.shape:
        return f"shape {back.shape} != {arr.shape} via {encs}"
    if np.issubdtype(arr.dtype, np.integer):
        if not np.array_equal(back.astype(np.int64), arr.astype(np.int64)):
            return f"decoded {back.tolist()} via {encs}"
        return None
    fin = np.isfinite(arr)
    if not np.array_equal(np.isnan(arr), np.isnan(back.astype(float))) or not np.array_equal(np.isinf(arr), np.isinf(back.astype(float))):
        return f"non-finite values altered: decoded {back.tolist()} via {encs}"
    if back.dtype != arr.dtype and not np.can_cast(arr.dtype, back.dtype, "safe"):
        return f"decoded as {back.dtype}, wrote {arr.dtype} via {encs}"          # (float16 comes back as float32: lossless widening)
    x = arr[fin].astype(np.float64)
    err = np.abs(back[fin].astype(np.float64) - x)
    # the decoded value is a float of the array's own type: the nearest one to some real number within the
    # tolerance of x.  Hence |decoded - x| <= tol*|x| + ulp(x)/2, and where the tolerance is finer than half an
    # ulp the value must come back exactly.
    half_ulp = np.spacing(np.abs(arr[fin].astype(back.dtype))).astype(np.float64) / 2
    allowed = np.where(TOLV * np.abs(x) < half_ulp * (1 - 1e-9), 0.0, TOLV * np.abs(x) * (1 + 1e-9) + half_ulp)
    if np.any(err > allowed):
        k = int(np.argmax(err - allowed))
        return (f"decoded {back[fin][k]!r} for {arr[fin][k]!r} (error {err[k]:.3g}, allowed {allowed[k]:.3g} at float_tolerance={TOLV}) via {encs}")
    return None



R = Run("C05", "(a) all arrays of length 1..3 over boundary values per dtype through the real compress() and BinaryCIFData "
               "serialise/deserialise (floats within the requested rtol, ints exact, non-finite kept or rejected); (b) each encoding class and "
               "5 chains directly on integer arrays of length 0..6 (boundary values, runs), float and string arrays")

for dt in (np.float32, np.float64):
    for n in (1, 2, 3):
        for combo in itertools.product(FLOATS, repeat=n):
            arr = np.array(combo, dtype=dt)
            R.check("compress() round trip within tolerance; non-finite kept or rejected", f"compress {dt.__name__}",
                    {"dtype": dt.__name__, "array": [repr(x) for x in combo]}, lambda arr=arr: check(arr))
# magnitudes and tolerances: the relative tolerance passed to compress() must hold for small and large values alike
SMALL = [1.321746e-4, 7.7123456e-3, 1.004899415, 0.25, 123.456789012, 3.3333333333e-6]
for tol in (1e-3, 1e-6, 1e-10):
    for combo in itertools.product(SMALL, repeat=2):
        arr = np.array(combo + (combo[0] * 3,), dtype=np.float64)
        R.check("compress() round trip within tolerance; non-finite kept or rejected", f"compress float64 tol={tol}",
                {"dtype": "float64", "array": [repr(x) for x in arr.tolist()], "tolerance": tol}, lambda arr=arr, tol=tol: check(arr, tol))
# tiny magnitudes: the number of decimal places needed exceeds the precision of a double
TINY = [1.5e-12, 2.25e-16, 1.0e-20, 3.0e-30, 1.2345678e-33, 1.0e-39, 1.0e-300, 1.23456789e-305, 5e-324]
for dt in (np.float32, np.float64):
    for tiny in TINY:
        for other in (None, 0.0, 1.0, 1e-3):
            for n in (1, 40):
                vals = ([tiny] if other is None else [tiny, other]) * n
                arr = np.array(vals, dtype=dt)
                if not np.all(np.isfinite(arr)) or arr[0] == 0:
                    continue
                for tol in (1e-2, 1e-6):
                    R.check("compress() round trip within tolerance; non-finite kept or rejected", f"compress {dt.__name__} tiny magnitudes",
                            {"dtype": dt.__name__, "array": f"{[repr(v) for v in vals[:2]]} * {n}", "tolerance": tol}, lambda arr=arr, tol=tol: check(arr, tol))
# tolerances finer than the precision of a narrow float type: the values must come back exactly
NARROW = {np.float16: [210.5, 0.1, 3.14, 1000.0, 0.333], np.float32: [1815.854, 0.1, 3.1415927, 123456.79, 1e-3, 7.0000005]}
for dt, vals in NARROW.items():
    for v in vals:
        for w in (vals[0], 1.0):
            for n in (3, 40):
                for tol in (1e-2, 1e-4, 1e-6, 1e-8, 1e-12):
                    arr = np.array([v, w] * n, dtype=dt)
                    R.check("compress() round trip within tolerance; non-finite kept or rejected", f"compress {dt.__name__} tolerance vs precision",
                            {"dtype": dt.__name__, "array": f"[{v}, {w}] * {n}", "tolerance": tol}, lambda arr=arr, tol=tol: check(arr, tol))
# compressible columns of decimal-looking values (few distinct values, repeated) in single / half precision at
# tolerances down to below the precision of the type
_prng = np.random.default_rng(R.args.seed + 55)
for dt, lo_hi, dec in ((np.float32, (1000, 2000), 3), (np.float32, (-50, 50), 3), (np.float32, (0.001, 1), 5), (np.float32, (1e4, 9e4), 2),
                       (np.float16, (1, 200), 1), (np.float16, (0.01, 1), 2)):
    for rep in range(3 if R.thorough else 2):
        base = np.round(_prng.uniform(lo_hi[0], lo_hi[1], 20), dec).astype(dt)
        for layout, arr in (("tiled", np.tile(base, 25)), ("runs", np.repeat(base, 25)), ("sorted", np.sort(np.tile(base, 5)))):
          for tol in (1e-4, 1e-6, 1e-7, 1e-8, 1e-10):
            R.check("compress() round trip within tolerance; non-finite kept or rejected", f"compress {dt.__name__} repeated decimal values",
                    {"dtype": dt.__name__, "range": list(lo_hi), "decimals": dec, "draw": rep, "layout": layout, "tolerance": tol, "values": [repr(x) for x in base[:4]]},
                    lambda arr=arr, tol=tol: check(arr, tol))
# long arrays (so that the fixed-point chain wins on size) with one value at the edge of the 32-bit fixed-point range
for dt in (np.float32, np.float64):
    for edge in (21474836.0, -21474836.0, 2147483.6, 214748.36, 2147483647.0, 2.1474836e9, 16777217.0, 1e15):
        for fill in (0.25, 0.5, 1.125):
            for tol in (1e-2, 1e-6):
                arr = np.array([edge] + [fill] * 60, dtype=dt)
                R.check("compress() round trip within tolerance; non-finite kept or rejected", f"compress {dt.__name__} at the fixed-point range edge",
                        {"dtype": dt.__name__, "array": f"[{edge}] + [{fill}] * 60", "tolerance": tol}, lambda arr=arr, tol=tol: check(arr, tol))
# 64-bit integers outside the 32-bit range: exact or rejected, never wrapped
WIDE = {np.int64: [-2 ** 40, -2 ** 31 - 1, -2 ** 31, -1, 0, 2 ** 31 - 1, 2 ** 31, 2 ** 32, 2 ** 40], np.uint64: [0, 1, 2 ** 31, 2 ** 32 - 1, 2 ** 32, 2 ** 40]}
for dt, vals in WIDE.items():
    for n in (1, 2, 3):
        for combo in itertools.product(vals, repeat=n):
            arr = np.array(combo, dtype=dt)
            R.check("compress() round trip exact for integers", f"compress {dt.__name__}",
                    {"dtype": dt.__name__, "array": list(map(int, combo))}, lambda arr=arr: check(arr))
for dt, vals in INTS.items():
    for n in (1, 2, 3):
        for combo in itertools.product(vals, repeat=n):
            arr = np.array(combo, dtype=dt)
            R.check("compress() round trip exact for integers", f"compress {dt.__name__}",
                    {"dtype": dt.__name__, "array": list(map(int, combo))}, lambda arr=arr: check(arr))


# long columns (as in real files: > 65535 entries) of irregular small values with a sentinel at the edge of the dtype:
# the encodings that only pay off for long arrays (integer packing into 1 or 2 bytes) are reached only here
_long_rng = np.random.default_rng(R.args.seed + 505)
for dt, sentinels in ((np.uint32, (2 ** 32 - 1, 2 ** 31, 2 ** 31 - 1, 70000)), (np.int32, (-2 ** 31, 2 ** 31 - 1, -70000)), (np.uint16, (65535,)),
                      (np.int16, (-32768, 32767)), (np.uint8, (255,)), (np.int8, (-128,))):
    for sentinel in sentinels:
        for n in (70000, 140000) if dt in (np.uint32, np.int32) else (70000,):
            hi = min(30000, int(np.iinfo(dt).max))
            arr = _long_rng.integers(0, hi, size=n).astype(dt)
            arr[n // 3] = sentinel
            R.check("compress() round trip exact for integers", "long columns with sentinels",
                    {"dtype": dt.__name__, "length": n, "values": f"random in [0, {hi})", "sentinel": sentinel, "at": n // 3}, lambda arr=arr: check(arr))

# the tolerance passed to compress() holds at every container level (data, column, category, block, file)
from biotite.structure.io.pdbx.bcif import BinaryCIFBlock, BinaryCIFCategory, BinaryCIFColumn, BinaryCIFFile


def container_case(level, tol):
    vals = np.array([1.0000001, -0.3333333333, 2.718281828459, 1234.56789012, 0.5] * 8, dtype=np.float64)
    col = BinaryCIFColumn(BinaryCIFData(vals))
    cat = BinaryCIFCategory({"x": col})
    block = BinaryCIFBlock({"cat": cat})
    fil = BinaryCIFFile({"blk": block})
    obj = {"data": BinaryCIFData(vals), "column": col, "category": cat, "block": block, "file": fil}[level]
    out = compress(obj, float_tolerance=tol)
    if level == "file":
        import io as _io
        st = _io.BytesIO()
        out.write(st)
        st.seek(0)
        out = BinaryCIFFile.read(st)
        back = out["blk"]["cat"]["x"].as_array()
    elif level == "block":
        back = BinaryCIFBlock.deserialize(out.serialize())["cat"]["x"].as_array()
    elif level == "category":
        back = BinaryCIFCategory.deserialize(out.serialize())["x"].as_array()
    elif level == "column":
        back = BinaryCIFColumn.deserialize(out.serialize()).as_array()
    else:
        back = BinaryCIFData.deserialize(out.serialize()).array
    err = np.abs(np.asarray(back, dtype=np.float64) - vals)
    if np.any(err > tol * np.abs(vals) * (1 + 1e-9) + 1e-300):
        k = int(np.argmax(err / np.abs(vals)))
        return f"compress({level}, float_tolerance={tol}): {vals[k]!r} read back as {float(back[k])!r} (relative error {err[k] / abs(vals[k]):.3g})"
    return None


for level in ("data", "column", "category", "block", "file"):
    for tol in (1e-3, 1e-6, 1e-9, 1e-12):
        R.check("compress() round trip within tolerance; non-finite kept or rejected", f"compress {level} tol={tol}",
                {"level": level, "tolerance": tol}, lambda level=level, tol=tol: container_case(level, tol))


def empty_case(dt, level):
    """an empty column is something every representation can hold: compress() must keep it, at every level"""
    arr = np.array([], dtype=dt)
    if level == "data":
        back = BinaryCIFData.deserialize(compress(BinaryCIFData(arr)).serialize()).array
    else:
        fil = BinaryCIFFile({"blk": BinaryCIFBlock({"cat": BinaryCIFCategory({"x": BinaryCIFColumn(BinaryCIFData(arr))})})})
        import io as _io
        st = _io.BytesIO()
        compress(fil).write(st)
        st.seek(0)
        back = BinaryCIFFile.read(st)["blk"]["cat"]["x"].as_array()
    back = np.asarray(back)
    if back.shape != (0,):
        return f"empty {np.dtype(dt)} array read back with shape {back.shape}"
    if np.dtype(dt).kind != back.dtype.kind and not (np.dtype(dt).kind in "iu" and back.dtype.kind in "iu"):
        return f"empty {np.dtype(dt)} array read back as {back.dtype}"
    return None


def string_case(vals):
    arr = np.array(vals, dtype=str)
    back = np.asarray(BinaryCIFData.deserialize(compress(BinaryCIFData(arr)).serialize()).array)
    if back.tolist() != list(vals):
        return f"decoded {back.tolist()}"
    return None


for dt in (np.int8, np.uint8, np.int16, np.uint16, np.int32, np.uint32, np.int64, np.float32, np.float64, "U4"):
    for level in ("data", "file"):
        R.check("compress() keeps an empty column", f"compress empty {np.dtype(dt).kind}", {"dtype": str(np.dtype(dt)), "level": level},
                lambda dt=dt, level=level: empty_case(dt, level))
STRS = ["", "A", "A", "abc", "\u00e9\u00df", "'", " x"]
for n in (1, 2, 3, 4):
    for combo in itertools.product(STRS, repeat=n):
        if n == 4 and not R.thorough and hash(combo) % 7:
            continue
        R.check("compress() round trip exact for strings", "compress strings", {"array": list(combo)}, lambda combo=combo: string_case(combo))


def file_cycle_case(kind, tol):
    """whole files read back equal to what was written: the encodings (with their float parameters) and the data,
    through a real write() / read() of a BinaryCIFFile"""
    import io as _io
    if kind == "compress multiples of 100":
        vals = np.array([425300.0, 100.0, -7700.0, 1234500.0] * 10, dtype=np.float64)
        data = compress(BinaryCIFData(vals), float_tolerance=tol)
    elif kind == "FixedPoint factor 0.1":
        vals = np.array([120.0, 30.0, -50.0, 99990.0] * 5, dtype=np.float64)
        data = BinaryCIFData(vals, [E.FixedPointEncoding(factor=0.1), E.ByteArrayEncoding()])
    elif kind == "FixedPoint factor 1/3":
        vals = np.array([3.0, 6.0, -9.0, 3000.0] * 5, dtype=np.float64)
        data = BinaryCIFData(vals, [E.FixedPointEncoding(factor=1 / 3), E.ByteArrayEncoding()])
    else:
        vals = np.array([0.1, 0.4, 0.7, 0.25] * 5, dtype=np.float64)
        data = BinaryCIFData(vals, [E.IntervalQuantizationEncoding(0.1, 0.7, 601), E.ByteArrayEncoding()])
    in_memory = np.asarray(BinaryCIFData.deserialize(data.serialize()).array, dtype=np.float64)
    fil = BinaryCIFFile({"blk": BinaryCIFBlock({"cat": BinaryCIFCategory({"x": BinaryCIFColumn(data)})})})
    st = _io.BytesIO()
    fil.write(st)
    st.seek(0)
    col = BinaryCIFFile.read(st)["blk"]["cat"]["x"]
    back = np.asarray(col.as_array(), dtype=np.float64)
    want = [e.serialize() for e in data.encoding]
    got = [e.serialize() for e in col.data.encoding]
    if got != want:
        diff = [(w, g) for w, g in zip(want, got) if w != g][:1]
        return f"encoding read back from the file differs from the one written: {diff}"
    if not np.array_equal(back, in_memory):
        k = int(np.argmax(np.abs(back - in_memory)))
        return f"the file decodes to {back[k]!r} where the written column decodes to {in_memory[k]!r}"
    if kind.startswith("compress"):
        err = np.abs(back - vals)
        if np.any(err > tol * np.abs(vals) * (1 + 1e-9)):
            k = int(np.argmax(err / np.abs(vals)))
            return f"{vals[k]!r} read back from the file as {back[k]!r} (relative error {err[k] / abs(vals[k]):.3g} > {tol})"
    return None


# ---- (b) the encodings applied directly -----------------------------------------------------

from biotite.structure.io.pdbx import encoding as E

for kind in ("compress multiples of 100", "FixedPoint factor 0.1", "FixedPoint factor 1/3", "IntervalQuantization 0.1..0.7"):
    for tol in (1e-6, 1e-9):
        R.check("whole files read back equal to what was written", f"file write/read: {kind}", {"kind": kind, "tolerance": tol},
                lambda kind=kind, tol=tol: file_cycle_case(kind, tol))


def int_arrays(dt):
    vals = INTS[dt]
    lo, hi = vals[0], vals[-1]
    mid = [v for v in (0, 1, 5, 7) if lo <= v <= hi]
    out = [[], [lo], [hi], [mid[0]] * 4, [hi, hi, lo, lo, lo], [lo, hi, lo, hi], mid + mid[::-1], [mid[-1]] * 3 + [lo] + [mid[-1]] * 2]
    for n in (2, 3):
        out += [list(c) for c in itertools.product(vals, repeat=n)][:: (1 if R.thorough else 3)]
    return [np.array(a, dtype=dt) for a in out]


def chain_roundtrip(arr, make_chain, exact=True, atol=0.0):
    encs = make_chain()
    try:
        enc = E.encode_stepwise(arr, encs)
    except (ValueError, OverflowError, TypeError) as e:
        if arr.size == 0:
            return "empty array rejected", f"empty array rejected by encode: {type(e).__name__}: {e}"
        return None                      # refusing a value the representation cannot hold is allowed
    except IndexError as e:
        if arr.size == 0:
            return "empty array rejected", f"empty array rejected by encode: {type(e).__name__}: {e}"
        raise
    # serialised encodings must describe the same chain
    again = [E.deserialize_encoding(e.serialize()) for e in encs]
    back = np.asarray(E.decode_stepwise(enc, again))
    if back.shape != arr.shape:
        return f"decoded shape {back.shape} != {arr.shape}"
    if exact:
        if back.dtype.kind in "iu" and arr.dtype.kind in "iu":
            ok = np.array_equal(back.astype(object), arr.astype(object))
        else:
            ok = back.tolist() == arr.tolist()
        return None if ok else f"decoded {back.tolist()[:8]} != {arr.tolist()[:8]}"
    err = np.abs(back.astype(np.float64) - arr.astype(np.float64))
    return None if np.all(err <= atol) else f"decoded {back.tolist()[:8]} (error {err.max():.3g} > {atol:.3g})"


INT_CHAINS = {
    "ByteArray": lambda: [E.ByteArrayEncoding()],
    "RunLength+ByteArray": lambda: [E.RunLengthEncoding(), E.ByteArrayEncoding()],
    "Delta+ByteArray": lambda: [E.DeltaEncoding(), E.ByteArrayEncoding()],
    "IntegerPacking1+ByteArray": lambda: [E.IntegerPackingEncoding(byte_count=1), E.ByteArrayEncoding()],
    "IntegerPacking2+ByteArray": lambda: [E.IntegerPackingEncoding(byte_count=2), E.ByteArrayEncoding()],
    "Delta+RunLength+IntegerPacking1+ByteArray": lambda: [E.DeltaEncoding(), E.RunLengthEncoding(), E.IntegerPackingEncoding(byte_count=1), E.ByteArrayEncoding()],
    "RunLength+IntegerPacking2+ByteArray": lambda: [E.RunLengthEncoding(), E.IntegerPackingEncoding(byte_count=2), E.ByteArrayEncoding()],
}
for dt in INTS:
    for arr in int_arrays(dt):
        for name, mk in INT_CHAINS.items():
            if "IntegerPacking" in name and "Delta" not in name and "RunLength" not in name and dt not in (np.int32,):
                continue        # integer packing takes 32-bit input; other widths enter through a preceding encoding
            R.check("decode(encode(x)) == x for integer arrays (or the value is rejected)", f"{name} {dt.__name__}",
                    {"dtype": dt.__name__, "array": arr.tolist(), "chain": name}, lambda arr=arr, mk=mk: chain_roundtrip(arr, mk))

def masked_column_case(dt, ask, masked_value, flavour):
    """columns with masks: asking for the values (as_array with any dtype / masked_value) is a read - the stored data,
    the mask and what the column serialises to are the same afterwards, and the answer has the masked rows replaced"""
    from biotite.structure.io.pdbx.bcif import BinaryCIFColumn as BCol
    vals = (np.arange(8) * 1.25 + 1).astype(dt) if np.dtype(dt).kind == "f" else np.arange(1, 9).astype(dt)
    mask = np.array([0, 1, 0, 2, 0, 0, 1, 0], dtype=np.uint8)
    if flavour == "decoded":
        enc = [E.FixedPointEncoding(factor=100), E.ByteArrayEncoding()] if np.dtype(dt).kind == "f" else [E.DeltaEncoding(), E.ByteArrayEncoding()]
        col = BCol.deserialize(BCol(BinaryCIFData(vals.copy(), enc), BinaryCIFData(mask.copy())).serialize())
    else:
        col = BCol(BinaryCIFData(vals.copy()), BinaryCIFData(mask.copy()))
    before = (np.array(col.data.array).tolist(), np.array(col.mask.array).tolist(), repr(col.serialize()))
    try:
        got = col.as_array(ask, masked_value=masked_value)
    except (ValueError, TypeError):
        got = None
    after = (np.array(col.data.array).tolist(), np.array(col.mask.array).tolist(), repr(col.serialize()))
    if after != before:
        return f"as_array({np.dtype(ask) if ask is not None else None}, masked_value={masked_value!r}) changed the stored column: data {before[0]} -> {after[0]}"
    lossless = ask is None or np.dtype(ask).kind == "f" or (np.dtype(ask).kind in "iu" and np.dtype(dt).kind in "iu")
    if got is not None and masked_value is not None and not isinstance(masked_value, str) and lossless and (ask is None or np.dtype(ask).kind != "U"):
        g = np.asarray(got)
        for k in range(8):
            if mask[k] == 0 and float(g[k]) != float(vals[k]):
                return f"present row {k} = {g[k]!r}, stored {vals[k]!r}"
            if mask[k] != 0 and not (np.isnan(masked_value) and np.isnan(float(g[k]))) and float(g[k]) != float(masked_value):
                return f"masked row {k} = {g[k]!r}, masked_value {masked_value!r}"
    return None


for dt in (np.float32, np.float64, np.int32, np.int64):
    for ask in (None, dt, np.float64, int, str):
        for mv in (None, -1, 0):
            for flavour in ("built", "decoded"):
                R.check("columns with masks read back equal; reading is pure", f"masked column {np.dtype(dt).name}",
                        {"stored dtype": np.dtype(dt).name, "asked dtype": str(ask), "masked_value": mv, "column": flavour},
                        lambda dt=dt, ask=ask, mv=mv, flavour=flavour: masked_column_case(dt, ask, mv, flavour))
    if np.dtype(dt).kind == "f":
        for flavour in ("built", "decoded"):
            R.check("columns with masks read back equal; reading is pure", f"masked column {np.dtype(dt).name}",
                    {"stored dtype": np.dtype(dt).name, "asked dtype": np.dtype(dt).name, "masked_value": "nan", "column": flavour},
                    lambda dt=dt, flavour=flavour: masked_column_case(dt, dt, float("nan"), flavour))

# 64-bit input: the format has no 64-bit integers (TypeCode maps int64 -> int32); values beyond 32 bit must be
# rejected or kept, never silently altered
WIDE64 = {np.int64: [[0, 5, -7], [0, 2 ** 40, 5], [2 ** 40, 2 ** 40 + 1], [-2 ** 31 - 1, 0], [2 ** 31, 1], [2 ** 31 - 1, -2 ** 31]],
          np.uint64: [[0, 5, 7], [2 ** 63, 2 ** 63 + 5], [2 ** 32, 0], [2 ** 32 - 1, 0]]}
for dt, arrs in WIDE64.items():
    for a in arrs:
        arr = np.array(a, dtype=dt)
        for name, mk in INT_CHAINS.items():
            def wide_case(arr=arr, mk=mk, name=name):
                r = chain_roundtrip(arr, mk)
                first = name.split("+")[0]
                if r and first in ("Delta", "IntegerPacking1", "IntegerPacking2") and isinstance(r, str) and r.startswith("decoded"):
                    # known finding: these two encodings convert their 64-bit input to 32 bit without a range check
                    # (the others go through _safe_cast and refuse); only inputs that really exceed 32 bit are classified
                    diffs = np.diff(arr.astype(object), prepend=0)
                    if any(abs(int(d)) >= 2 ** 31 for d in diffs) or any(not (-2 ** 31 <= int(v) < 2 ** 31) for v in arr.astype(object)):
                        return "64-bit input truncated", f"{first}: " + r
                return r
            R.check("decode(encode(x)) == x for integer arrays (or the value is rejected)", f"{name} {dt.__name__}",
                    {"dtype": dt.__name__, "array": a, "chain": name}, wide_case)

FLOAT_ARRS = [[], [0.0], [1.5, -2.5, 1.25], [123.456, 123.457, -0.001], [1e-3] * 4, [999999.0, -999999.0]]
for dt in (np.float32, np.float64):
    for a in FLOAT_ARRS:
        arr = np.array(a, dtype=dt)
        for factor in (1, 100, 1000):
            R.check("fixed point: decoded within half a step (or rejected)", f"FixedPoint {dt.__name__}",
                    {"dtype": dt.__name__, "array": a, "factor": factor},
                    lambda arr=arr, factor=factor: chain_roundtrip(
                        arr, lambda: [E.FixedPointEncoding(factor=factor), E.DeltaEncoding(), E.IntegerPackingEncoding(byte_count=2), E.ByteArrayEncoding()],
                        exact=False, atol=0.5 / factor * (1 + 1e-6) + float(np.abs(arr).max(initial=0)) * float(np.finfo(dt).eps) * 4))
        # documented behaviour: a value is sorted into the next bin boundary (searchsorted), so the error is below one bin width
        R.check("interval quantization: decoded within one bin width inside the interval", f"IntervalQuantization {dt.__name__}",
                {"dtype": dt.__name__, "array": a},
                lambda arr=arr: chain_roundtrip(np.clip(arr, -10, 10), lambda: [E.IntervalQuantizationEncoding(-10, 10, 2001), E.ByteArrayEncoding()],
                                                exact=False, atol=0.01 * (1 + 1e-5) + 1e-5))
# values a 32-bit fixed point cannot hold must not be silently altered
for v in (3e9, -3e9, 2.2e7):
    def overflow_case(v=v):
        arr = np.array([1.0, v], dtype=np.float64)
        try:
            enc = E.FixedPointEncoding(factor=1000)
            back = enc.decode(enc.encode(arr))
        except (ValueError, OverflowError):
            return None
        if abs(float(back[1]) - v) > 1e-3 * abs(v):
            return "fixed-point overflow", f"FixedPointEncoding(factor=1000) turned {v} into {float(back[1])} without an error"
        return None
    R.check("values the target cannot hold are rejected or kept, never silently altered", "FixedPoint overflow", {"value": v, "factor": 1000}, overflow_case)

STR_ARRS = [[], [""], ["a", "a", "b"], ["", "x", ""], ["\u00e4\u00f6", "\u4e2d", "a"], ["long" * 50, "s"], ["a b", "c\td", "e\nf"]]
for a in STR_ARRS:
    arr = np.array(a, dtype="U")
    R.check("string arrays decode exactly", "StringArray", {"array": a},
            lambda arr=arr: chain_roundtrip(arr, lambda: [E.StringArrayEncoding()]))
    R.check("string arrays decode exactly", "StringArray with encoded offsets", {"array": a},
            lambda arr=arr: chain_roundtrip(arr, lambda: [E.StringArrayEncoding(
                data_encoding=[E.RunLengthEncoding(), E.ByteArrayEncoding()],
                offset_encoding=[E.DeltaEncoding(), E.IntegerPackingEncoding(byte_count=1), E.ByteArrayEncoding()])]))
R.finish()
