#!/venv/bin/python
"""BOUNDED stand-in for C08 / C09 drivers: align_optimal (and, as upper-bound
checks, the banded / seeded heuristics) against a brute-force optimum over all
alignments.  Bound: all pairs of sequences of length 1..3 over {A, C, G},
three substitution matrices, linear and affine gap penalties, global /
semi-global / local mode."""
import itertools
import sys
import numpy as np
sys.path.insert(0, "/verif")
from bounded.common import Run
import biotite.sequence as seq
import biotite.sequence.align as align

R = Run("C08", "all pairs of sequences of length 1..3 over {A,C,G} x 3 matrices x linear/affine penalties x global/semi-global/local: "
                "align_optimal vs brute force over all alignments")
ALPH = seq.NucleotideSequence.alphabet_unamb


def matrix(match, mismatch):
    m = np.full((4, 4), mismatch, dtype=np.int32)
    np.fill_diagonal(m, match)
    return align.SubstitutionMatrix(ALPH, ALPH, m)


MATRICES = {"+1/-1": matrix(1, -1), "+2/-3": matrix(2, -3), "+1/0": matrix(1, 0)}


def all_traces(n1, n2, i0=0, j0=0):
    out = []

    def rec(i, j, cur):
        if i == n1 and j == n2:
            out.append(list(cur))
            return
        if i < n1 and j < n2:
            rec(i + 1, j + 1, cur + [(i0 + i, j0 + j)])
        if i < n1:
            rec(i + 1, j, cur + [(i0 + i, -1)])
        if j < n2:
            rec(i, j + 1, cur + [(-1, j0 + j)])
    rec(0, 0, [])
    return out


def score_of(trace, c1, c2, sm, gap, terminal, n1, n2):
    go, ge = (gap, gap) if not isinstance(gap, tuple) else gap
    total = 0
    for a, b in trace:
        if a != -1 and b != -1:
            total += sm[c1[a], c2[b]]
    for row in (0, 1):
        col = [t[row] for t in trace]
        # terminal gaps of this row (free when terminal penalty is off)
        first = next((k for k, x in enumerate(col) if x != -1), None)
        last = max((k for k, x in enumerate(col) if x != -1), default=None)
        in_gap = False
        for k, x in enumerate(col):
            if x == -1:
                free = (not terminal) and (first is None or k < first or k > last)
                if not free:
                    total += ge if in_gap else go
                in_gap = True
            else:
                in_gap = False
    return total


def abutting(trace):
    for (a1, b1), (a2, b2) in zip(trace, trace[1:]):
        if (a1 == -1 and b2 == -1) or (b1 == -1 and a2 == -1):
            return True
    return False


def brute(c1, c2, sm, gap, terminal, local):
    n1, n2 = len(c1), len(c2)
    affine = isinstance(gap, tuple)
    best = None
    if not local:
        for tr in all_traces(n1, n2):
            if affine and abutting(tr):
                continue
            s = score_of(tr, c1, c2, sm, gap, terminal, n1, n2)
            best = s if best is None or s > best else best
        return best
    best = 0
    for i0 in range(n1):
        for i1 in range(i0 + 1, n1 + 1):
            for j0 in range(n2):
                for j1 in range(j0 + 1, n2 + 1):
                    for tr in all_traces(i1 - i0, j1 - j0, i0, j0):
                        if tr[0][0] == -1 or tr[0][1] == -1 or tr[-1][0] == -1 or tr[-1][1] == -1:
                            continue
                        if affine and abutting(tr):
                            continue
                        s = score_of(tr, c1, c2, sm, gap, True, n1, n2)
                        best = max(best, s)
    return best


def contract(a, b, mname, gap, terminal, local):
    s1, s2 = seq.NucleotideSequence(a), seq.NucleotideSequence(b)
    m = MATRICES[mname]
    sm = m.score_matrix()
    alis = align.align_optimal(s1, s2, m, gap_penalty=gap, terminal_penalty=terminal, local=local, max_number=50)
    if len(alis) == 0:
        return "no alignment returned"
    if len(alis) > 50:
        return "more than max_number alignments"
    exp = brute(s1.code, s2.code, sm, gap, terminal, local)
    seen = set()
    for ali in alis:
        if ali.score is None or int(ali.score) != int(exp):
            return f"reported score {ali.score!r}, maximum over all alignments is {exp}"
        tr = [tuple(int(x) for x in t) for t in ali.trace]
        for row, n in ((0, len(a)), (1, len(b))):
            idx = [t[row] for t in tr if t[row] != -1]
            if idx != sorted(set(idx)) or (idx and (idx[0] < 0 or idx[-1] >= n)):
                return f"invalid trace {tr}"
            if idx and idx != list(range(idx[0], idx[-1] + 1)):
                return f"trace not contiguous {tr}"
            if not local and idx != list(range(n)):
                return f"global alignment does not cover sequence {row}: {tr}"
        if any(t == (-1, -1) for t in tr):
            return "all-gap column"
        if tr:
            rec = score_of(tr, s1.code, s2.code, sm, gap, terminal if not local else True, len(a), len(b))
            if rec != int(ali.score):
                return f"recomputed score of the returned alignment {rec} != reported {ali.score} for {tr}"
            if align.score(ali, m, gap, terminal_penalty=terminal if not local else True) != int(ali.score):
                return "align.score(alignment) != reported score"
        key = tuple(tr)
        if tr and key in seen:
            return "duplicate alignments returned"
        seen.add(key)
    return None


words = ["".join(w) for n in (1, 2, 3) for w in itertools.product("ACG", repeat=n)]
if not R.thorough:
    words = words[::3] + ["AAC", "CAA", "ACA"]
for a, b in itertools.product(words, repeat=2):
    for mname in MATRICES:
        for gap in (-1, -3, (-3, -1)):
            for terminal, local in ((True, False), (False, False), (True, True)):
                if mname != "+1/-1" and gap == -3 and not R.thorough:
                    continue
                R.check("align_optimal: reported score == maximum over all alignments; returned alignments valid, honestly scored, distinct",
                        f"optimal {'local' if local else ('global' if terminal else 'semi-global')} gap={gap}",
                        {"seq1": a, "seq2": b, "matrix": mname, "gap": gap, "terminal_penalty": terminal, "local": local},
                        lambda a=a, b=b, mname=mname, gap=gap, terminal=terminal, local=local: contract(a, b, mname, gap, terminal, local))
R.finish()
