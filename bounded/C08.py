#!/venv/bin/python
"""BOUNDED stand-in for C08 / C09 drivers: align_optimal (and, as upper-bound
checks, the banded / seeded heuristics) against a brute-force optimum over all
alignments.  Bound: all pairs of sequences of length 1..3 over {A, C, G},
three substitution matrices, linear and affine gap penalties, global /
semi-global / local mode."""
import itertools
import sys
import numpy as np
sys.path.insert(0, "/verif")
from bounded.common import Run
import biotite.sequence as seq
import biotite.sequence.align as align

R = Run("C08", "all pairs of sequences of length 1..3 over {A,C,G} x 3 matrices x linear/affine penalties x global/semi-global/local: "
                "align_optimal vs brute force over all alignments")
from bounded.alignref import ALPH, MATRICES, all_traces, score_of, abutting, brute


def contract(a, b, mname, gap, terminal, local):
    s1, s2 = seq.NucleotideSequence(a), seq.NucleotideSequence(b)
    m = MATRICES[mname]
    sm = m.score_matrix()
    alis = align.align_optimal(s1, s2, m, gap_penalty=gap, terminal_penalty=terminal, local=local, max_number=50)
    if len(alis) == 0:
        return "no alignment returned"
    if len(alis) > 50:
        return "more than max_number alignments"
    exp = brute(s1.code, s2.code, sm, gap, terminal, local)
    seen = set()
    for ali in alis:
        if ali.score is None or int(ali.score) != int(exp):
            return f"reported score {ali.score!r}, maximum over all alignments is {exp}"
        tr = [tuple(int(x) for x in t) for t in ali.trace]
        for row, n in ((0, len(a)), (1, len(b))):
            idx = [t[row] for t in tr if t[row] != -1]
            if idx != sorted(set(idx)) or (idx and (idx[0] < 0 or idx[-1] >= n)):
                return f"invalid trace {tr}"
            if idx and idx != list(range(idx[0], idx[-1] + 1)):
                return f"trace not contiguous {tr}"
            if not local and idx != list(range(n)):
                return f"global alignment does not cover sequence {row}: {tr}"
        if any(t == (-1, -1) for t in tr):
            return "all-gap column"
        if tr:
            rec = score_of(tr, s1.code, s2.code, sm, gap, terminal if not local else True, len(a), len(b))
            if rec != int(ali.score):
                return f"recomputed score of the returned alignment {rec} != reported {ali.score} for {tr}"
            if align.score(ali, m, gap, terminal_penalty=terminal if not local else True) != int(ali.score):
                return "align.score(alignment) != reported score"
        key = tuple(tr)
        if tr and key in seen:
            return "duplicate alignments returned"
        seen.add(key)
    return None


# a matrix over two different alphabets built from a {(symbol1, symbol2): score} dictionary: the reference
# scores come from the dictionary itself, not from the matrix object
A1, A2 = seq.NucleotideSequence.alphabet_unamb, seq.NucleotideSequence.alphabet_amb
DICT = {(x, y): (3 if x == y else (1 if y in "NRYWSMK" else -2)) + (A2.encode(y) % 3 == 0) for x in A1.get_symbols() for y in A2.get_symbols()}
DICT_MATRIX = align.SubstitutionMatrix(A1, A2, DICT)
DICT_REF = np.array([[DICT[(x, y)] for y in A2.get_symbols()] for x in A1.get_symbols()], dtype=np.int32)


def dict_matrix_contract(a, b, gap, terminal, local):
    s1, s2 = seq.NucleotideSequence(a), seq.NucleotideSequence(b, ambiguous=True)
    if DICT_MATRIX.score_matrix().tolist() != DICT_REF.tolist():
        return "SubstitutionMatrix built from a dictionary over two alphabets does not hold the dictionary's scores"
    alis = align.align_optimal(s1, s2, DICT_MATRIX, gap_penalty=gap, terminal_penalty=terminal, local=local, max_number=20)
    exp = brute(s1.code, s2.code, DICT_REF, gap, terminal, local)
    for ali in alis:
        if int(ali.score) != int(exp):
            return f"reported score {ali.score}, maximum over all alignments under the dictionary's scores is {exp}"
        tr = [tuple(int(x) for x in t) for t in ali.trace]
        if tr and score_of(tr, s1.code, s2.code, DICT_REF, gap, terminal if not local else True, len(a), len(b)) != int(ali.score):
            return f"recomputed score of {tr} differs from the reported {ali.score}"
    return None


for a, b in (("ACG", "ANR"), ("AC", "YCW"), ("GAT", "GNT"), ("TTA", "KTM"), ("C", "SBN")):
    for gap in (-1, (-3, -1)):
        for terminal, local in ((True, False), (False, False), (True, True)):
            R.check("align_optimal: reported score == maximum over all alignments; returned alignments valid, honestly scored, distinct",
                    "dictionary matrix over two alphabets", {"seq1": a, "seq2": b, "gap": gap, "terminal_penalty": terminal, "local": local},
                    lambda a=a, b=b, gap=gap, terminal=terminal, local=local: dict_matrix_contract(a, b, gap, terminal, local))

def matrix_contract(name, m, ref):
    """SubstitutionMatrix accessors against the plain score table `ref` (rows: alphabet 1), transpose() included"""
    a1, a2 = m.get_alphabet1(), m.get_alphabet2()
    if m.score_matrix().tolist() != ref.tolist() or m.shape != ref.shape:
        return "score_matrix() differs from the scores the matrix was built from"
    for i, x in enumerate(a1.get_symbols()):
        for j, y in enumerate(a2.get_symbols()):
            if m.get_score(x, y) != ref[i, j] or m.get_score_by_code(i, j) != ref[i, j]:
                return f"get_score({x!r}, {y!r}) = {m.get_score(x, y)}, table says {ref[i, j]}"
    t = m.transpose()
    if t.get_alphabet1() != a2 or t.get_alphabet2() != a1:
        return "transpose() does not swap the alphabets"
    if t.score_matrix().tolist() != ref.T.tolist():
        return f"transpose().score_matrix() = {t.score_matrix().tolist()}, expected {ref.T.tolist()}"
    for i, x in enumerate(a1.get_symbols()):
        for j, y in enumerate(a2.get_symbols()):
            if t.get_score(y, x) != ref[i, j]:
                return f"transpose().get_score({y!r}, {x!r}) = {t.get_score(y, x)}, but get_score({x!r}, {y!r}) = {ref[i, j]}"
    if t.transpose() != m or t.transpose().score_matrix().tolist() != ref.tolist():
        return "transpose() twice is not the identity"
    if a1 == a2 and m.is_symmetric() != bool((ref == ref.T).all()):
        return f"is_symmetric() = {m.is_symmetric()}"
    if m.score_matrix().tolist() != ref.tolist():
        return "transpose() changed the matrix it was called on"
    return None


def swapped_roles(a, b, amb, m, ref, gap, terminal, local):
    """the sequences given in the opposite order with the transposed matrix have the same optimum"""
    s1, s2 = seq.NucleotideSequence(a), seq.NucleotideSequence(b, ambiguous=amb)
    exp = brute(s1.code, s2.code, ref, gap, terminal, local)
    alis = align.align_optimal(s2, s1, m.transpose(), gap_penalty=gap, terminal_penalty=terminal, local=local, max_number=20)
    for ali in alis:
        if int(ali.score) != int(exp):
            return f"align_optimal(seq2, seq1, M.transpose()) reports {ali.score}, the maximum over all alignments under M is {exp}"
        tr = [(int(y), int(x)) for x, y in ali.trace]
        if tr and score_of(tr, s1.code, s2.code, ref, gap, terminal if not local else True, len(a), len(b)) != int(ali.score):
            return f"alignment {tr} re-scored under M differs from the reported {ali.score}"
    return None


def matrix_is_a_value(dtype, how):
    """a SubstitutionMatrix keeps the scores it was built with: later writes to the caller's array (or to a buffer the
    array is a view of) do not reach it, and its own score table cannot be written"""
    table = np.zeros((5, 5), dtype=dtype)
    table[:4, :4] = np.where(np.eye(4, dtype=bool), 5, -4)
    src = {"the array itself": table[:4, :4].copy(), "a slice of a larger table": table[:4, :4], "a transposed view": table[:4, :4].T,
           "a reshaped view": table[:4, :4].copy().reshape(16).reshape(4, 4)}[how]
    base = src if src.base is None else src.base
    m = align.SubstitutionMatrix(ALPH, ALPH, src)
    before = m.score_matrix().tolist()
    s1, s2 = seq.NucleotideSequence("ACGTT"), seq.NucleotideSequence("AGGT")
    first = align.align_optimal(s1, s2, m, gap_penalty=-6)[0].score
    try:
        base[...] = 1            # the caller goes on using his buffer
    except ValueError:
        pass                      # (the constructor may have write-protected exactly this array)
    if m.score_matrix().tolist() != before:
        return f"writing to the caller's buffer afterwards changed the matrix built from {how} ({np.dtype(dtype)})"
    again = align.align_optimal(s1, s2, m, gap_penalty=-6)[0].score
    if again != first:
        return f"the same alignment scores {first}, then {again}"
    try:
        m.score_matrix()[0, 0] = 99
    except ValueError:
        pass
    if m.score_matrix().tolist() != before:
        return "score_matrix() hands out the writable score table"
    return None


for dtype in (np.int32, np.int64, np.int16, np.uint8):
    for how in ("the array itself", "a slice of a larger table", "a transposed view", "a reshaped view"):
        R.check("substitution matrix accessors and transpose() agree with the score table", "matrix keeps the scores it was built with",
                {"dtype": str(np.dtype(dtype)), "built from": how}, lambda dtype=dtype, how=how: matrix_is_a_value(dtype, how))


def database_matrices_are_values(name):
    """the documented recipe for a custom matrix (take dict_from_db(), edit it, build a matrix from it) must not
    change what the database name stands for afterwards: later matrices of that name have the database scores"""
    alph = seq.ProteinSequence.alphabet if name != "NUC" else seq.NucleotideSequence.alphabet_amb
    before = align.SubstitutionMatrix(alph, alph, name)
    ref = before.score_matrix().copy()
    d = align.SubstitutionMatrix.dict_from_db(name)
    k0 = sorted(d)[0]
    keys = [k for k in d if k[0] != k[1]][:3]
    for k in keys:
        d[k] = 100
    custom = align.SubstitutionMatrix(alph, alph, d)
    if any(custom.get_score(*k) != 100 for k in keys):
        return "the matrix built from the edited dictionary lacks the edits"
    after = align.SubstitutionMatrix(alph, alph, name)
    if after.score_matrix().tolist() != ref.tolist():
        bad = [k for k in keys if after.get_score(*k) != before.get_score(*k)]
        return f"after editing a dictionary obtained from dict_from_db({name!r}), SubstitutionMatrix(..., {name!r}) scores {bad} as {[after.get_score(*k) for k in bad]}"
    again = align.SubstitutionMatrix.dict_from_db(name)
    if any(again[k] == 100 for k in keys):
        return f"dict_from_db({name!r}) returns the edited scores on the next call"
    std = align.SubstitutionMatrix.std_protein_matrix() if name == "BLOSUM62" else (align.SubstitutionMatrix.std_nucleotide_matrix() if name == "NUC" else None)
    if std is not None and std.score_matrix().tolist() != ref.tolist():
        return "the standard matrix differs from the database matrix of its name"
    if before.score_matrix().tolist() != ref.tolist():
        return "a matrix built earlier changed"
    # however a matrix was built (database name, dictionary, standard matrix), its score table cannot be written:
    # an in-place rescaling attempt is refused and later alignments see the documented scores
    candidates = [("built from the database name", after), ("built from a dictionary", align.SubstitutionMatrix(alph, alph, align.SubstitutionMatrix.dict_from_db(name)))]
    if std is not None:
        candidates.append(("standard matrix", std))
    for how, mat in candidates:
        keep = mat.score_matrix().copy()
        for attempt in (lambda t: t.__imul__(3), lambda t: np.fill_diagonal(t, 99), lambda t: t.__setitem__((0, 0), 77)):
            try:
                attempt(mat.score_matrix())
            except (ValueError, TypeError):
                pass
        if mat.score_matrix().tolist() != keep.tolist():
            return f"the score table of a matrix {how} ({name}) can be written in place: its scores changed"
        if mat.score_matrix().flags.writeable:
            return f"score_matrix() of a matrix {how} ({name}) is writeable"
    return None


for name in ("BLOSUM62", "PAM250", "NUC", "BLOSUM62", "BLOSUM50"):
    R.check("substitution matrix accessors and transpose() agree with the score table", "database matrices keep their scores", {"name": name},
            lambda name=name: database_matrices_are_values(name))


def positional_contract(n1, n2, order):
    """as_positional(): the position-specific matrix scores every pair of positions as the original matrix scores the
    symbols there, and aligning the positional sequences gives the original optimum - for alphabets on both sides of
    the 256-symbol code-width step"""
    a1, a2 = seq.Alphabet(list(range(n1))), seq.Alphabet(list(range(n2)))
    table = np.random.default_rng(n1 * 1000 + n2).integers(-6, 7, size=(n1, n2)).astype(np.int32)
    m = align.SubstitutionMatrix(a1, a2, table)
    s1 = seq.GeneralSequence(a1, [0, n1 - 1, n1 // 2, 1 % n1])
    s2 = seq.GeneralSequence(a2, [n2 - 1, 0, min(n2 - 1, 257), min(n2 - 1, 256), min(n2 - 1, 255)])
    if order == "swapped":
        m, s1, s2, table = m.transpose(), s2, s1, table.T
    pm, p1, p2 = m.as_positional(s1, s2)
    for i in range(len(s1)):
        for j in range(len(s2)):
            exp = int(table[s1.code[i], s2.code[j]])
            if int(pm.get_score(p1[i], p2[j])) != exp or int(pm.score_matrix()[p1.code[i], p2.code[j]]) != exp:
                return f"positional score of positions ({i}, {j}) = {pm.get_score(p1[i], p2[j])}, the matrix scores symbols ({s1.code[i]}, {s2.code[j]}) as {exp}"
    for gap, local in ((-3, False), ((-5, -1), False), (-3, True)):
        ref = align.align_optimal(s1, s2, m, gap_penalty=gap, local=local, max_number=1)[0].score
        got = align.align_optimal(p1, p2, pm, gap_penalty=gap, local=local, max_number=1)[0].score
        if ref != got or ref != brute(s1.code, s2.code, table, gap, True, local):
            return f"optimum of the positional sequences {got}, of the original sequences {ref}, brute force {brute(s1.code, s2.code, table, gap, True, local)} (gap {gap}, local {local})"
    return None


for n1, n2 in ((4, 4), (4, 300), (256, 257), (200, 70), (3, 66000)):
    for order in ("as built", "swapped"):
        R.check("substitution matrix accessors and transpose() agree with the score table", "as_positional", {"alphabet sizes": [n1, n2], "order": order},
                lambda n1=n1, n2=n2, order=order: positional_contract(n1, n2, order))


def long_positional_contract(l1, l2, n_sym):
    """sequences longer than 256 positions (the positional alphabet then needs wider codes than the original one):
    every position keeps a code of its own, scores as its symbol does, and the optimum is the original one"""
    rng = np.random.default_rng(l1 * 1000 + l2 + n_sym)
    a = seq.Alphabet(list(range(n_sym)))
    table = rng.integers(-5, 8, size=(n_sym, n_sym)).astype(np.int32)
    m = align.SubstitutionMatrix(a, a, table)
    s1 = seq.GeneralSequence(a, rng.integers(0, n_sym, size=l1).tolist())
    s2 = seq.GeneralSequence(a, rng.integers(0, n_sym, size=l2).tolist())
    pm, p1, p2 = m.as_positional(s1, s2)
    for name, p, s in (("first", p1, s1), ("second", p2, s2)):
        if len(p) != len(s) or sorted(int(c) for c in p.code) != list(range(len(s))):
            dup = [int(c) for c in p.code][250:262]
            return f"positions of the {name} sequence ({len(s)} symbols) do not have codes of their own: codes around position 256 are {dup}"
        if p.reconstruct() != s:
            return f"the {name} positional sequence does not reconstruct the original"
    for i in list(range(0, l1, 37)) + [255, 256, 257, l1 - 1]:
        for j in list(range(0, l2, 41)) + [255, 256, 257, l2 - 1]:
            if i < l1 and j < l2 and int(pm.score_matrix()[p1.code[i], p2.code[j]]) != int(table[s1.code[i], s2.code[j]]):
                return f"positional score of positions ({i}, {j}) differs from the score of the symbols there"
    for gap, local in ((-4, False), ((-6, -1), True)):
        ref = align.align_optimal(s1, s2, m, gap_penalty=gap, local=local, max_number=1)[0]
        got = align.align_optimal(p1, p2, pm, gap_penalty=gap, local=local, max_number=1)[0]
        if ref.score != got.score:
            return f"optimum of the positional sequences {got.score}, of the original sequences {ref.score} (gap {gap}, local {local})"
        if align.score(align.Alignment([s1, s2], got.trace), m, gap_penalty=gap, terminal_penalty=True) != got.score and not local:
            return "the trace found for the positional sequences does not have that score on the original sequences"
    return None


for l1, l2, n_sym in ((300, 40, 4), (40, 300, 4), (257, 257, 20), (520, 30, 4)):
    R.check("substitution matrix accessors and transpose() agree with the score table", "as_positional of long sequences",
            {"lengths": [l1, l2], "alphabet size": n_sym}, lambda l1=l1, l2=l2, n_sym=n_sym: long_positional_contract(l1, l2, n_sym))


def float_table_contract(values):
    """a score table given as floating-point numbers: refused (the documented behaviour: integer scores only), or -
    if a version accepts floats that are whole numbers up to rounding error - stored as the *nearest* integers;
    never silently truncated (0.57 * 100 = 56.99999999999999 is 57, not 56) and never accepted when fractional"""
    alph = seq.Alphabet(list(range(2)))
    table = np.array(values, dtype=np.float64).reshape(2, 2)
    try:
        m = align.SubstitutionMatrix(alph, alph, table)
    except (TypeError, ValueError):
        return None
    got = np.asarray(m.score_matrix()).astype(np.int64)
    near = np.rint(table)
    if np.abs(table - near).max() > 1e-6:
        return f"the fractional score table {table.tolist()} was accepted (stored as {got.tolist()})"
    if not np.array_equal(got, near.astype(np.int64)):
        return f"the score table {table.tolist()} is stored as {got.tolist()}: not the nearest integers {near.astype(int).tolist()}"
    return None


for values in ([1.0, 2.0, 3.0, 4.0], [0.57 * 100, -0.29 * 100, 3.0, 1.0], [56.99999999999999, 0.0, 0.0, -28.999999999999996], [1.5, 0, 0, 1], [0.1 * 3 * 10, 1, 1, 2],
               [2.0000000001, 1, 1, 2], [1e-12, 1, 1, -1e-12]):
    R.check("substitution matrix accessors and transpose() agree with the score table", "score table of floating-point numbers",
            {"table": [repr(v) for v in values]}, lambda values=values: float_table_contract(values))


def equal_alphabet_objects(kind):
    """sequences whose alphabet *equals* the alphabet of the matrix without being the same object (built separately,
    or copied / unpickled as in multiprocessing) are aligned like any other: same optimum as with the shared object"""
    import copy
    import pickle
    if kind == "letter alphabets built separately":
        mk = lambda: seq.LetterAlphabet("ACGT")
        a_m, a_1, a_2 = mk(), mk(), mk()
        table = np.array([[5, -4, -4, -4], [-4, 5, -4, -4], [-4, -4, 5, -4], [-4, -4, -4, 5]], dtype=np.int32)
        m = align.SubstitutionMatrix(a_m, a_m, table)
        s1, s2 = seq.GeneralSequence(a_1, "ACGTTGCA"), seq.GeneralSequence(a_2, "ACTTGGCA")
        r1, r2 = seq.GeneralSequence(a_m, "ACGTTGCA"), seq.GeneralSequence(a_m, "ACTTGGCA")
    elif kind == "general alphabets built separately":
        mk = lambda: seq.Alphabet(["x", "yy", 3])
        a_m, a_1 = mk(), mk()
        table = np.array([[2, -1, -1], [-1, 2, -1], [-1, -1, 2]], dtype=np.int32)
        m = align.SubstitutionMatrix(a_m, a_m, table)
        s1, s2 = seq.GeneralSequence(a_1, ["x", "yy", 3, "x"]), seq.GeneralSequence(a_1, ["x", 3, "x"])
        r1, r2 = seq.GeneralSequence(a_m, ["x", "yy", 3, "x"]), seq.GeneralSequence(a_m, ["x", 3, "x"])
    else:
        m = align.SubstitutionMatrix.std_nucleotide_matrix()
        r1, r2 = seq.NucleotideSequence("ACGTNNGCA", ambiguous=True), seq.NucleotideSequence("ACTTRGCA", ambiguous=True)
        dup = (lambda x: pickle.loads(pickle.dumps(x))) if kind == "ambiguous nucleotide sequences after pickling" else copy.deepcopy
        s1, s2 = dup(r1), dup(r2)
    for gap, local in ((-3, False), ((-5, -1), True)):
        ref = align.align_optimal(r1, r2, m, gap_penalty=gap, local=local, max_number=1)[0].score
        try:
            got = align.align_optimal(s1, s2, m, gap_penalty=gap, local=local, max_number=1)[0].score
        except Exception as e:
            return f"{kind}: align_optimal refused sequences whose alphabet equals the matrix alphabet: {type(e).__name__}: {e}"
        if got != ref:
            return f"{kind}: score {got}, with the alphabet object of the matrix {ref}"
    return None


for kind in ("letter alphabets built separately", "general alphabets built separately", "ambiguous nucleotide sequences after pickling",
             "ambiguous nucleotide sequences after deepcopy"):
    R.check("align_optimal: reported score == maximum over all alignments; returned alignments valid, honestly scored, distinct", "equal alphabets that are different objects", {"kind": kind},
            lambda kind=kind: equal_alphabet_objects(kind))


def extreme_scores(value):
    """scores at the edge of the 32-bit range would overflow in the alignment table: the constructor refuses the two
    extreme values; large but safe magnitudes are accepted and aligned correctly"""
    table = np.where(np.eye(4, dtype=bool), 5, -3).astype(np.int64)
    table[0, 1] = value
    info = np.iinfo(np.int32)
    try:
        m = align.SubstitutionMatrix(ALPH, ALPH, table)
    except ValueError:
        return None if value in (info.min, info.max) or not (info.min <= value <= info.max) else f"a score of {value} was refused"
    if value in (info.min, info.max):
        return f"a score of {value} (the {'minimum' if value < 0 else 'maximum'} of int32) was accepted: the alignment table would overflow"
    if int(m.score_matrix()[0, 1]) != value:
        return f"score {value} stored as {int(m.score_matrix()[0, 1])}"
    if abs(value) <= 10 ** 6:
        s1, s2 = seq.NucleotideSequence("CAAC"), seq.NucleotideSequence("ACAC")
        got = align.align_optimal(s1, s2, m, gap_penalty=-4, max_number=1)[0].score
        exp = brute(s1.code, s2.code, table, -4, True, False)
        if got != exp:
            return f"optimum with a score of {value} in the matrix: {got}, brute force {exp}"
    return None


for value in (-2 ** 31, 2 ** 31 - 1, -10 ** 6, 10 ** 6, -1000, 12345):      # (the property quantifies over int32 matrices)
    R.check("substitution matrix accessors and transpose() agree with the score table", "extreme scores", {"score": value},
            lambda value=value: extreme_scores(value))


_mrng = np.random.default_rng(8)
RECT = _mrng.integers(-5, 6, size=(4, len(A2))).astype(np.int32)
RECT_MATRIX = align.SubstitutionMatrix(A1, A2, RECT)
ASYM = MATRICES["asymmetric"]
for name, m, ref in (("asymmetric 4x4", ASYM, ASYM.score_matrix().copy()), ("dictionary 4x15", DICT_MATRIX, DICT_REF), ("random 4x15", RECT_MATRIX, RECT),
                     ("random 15x4", align.SubstitutionMatrix(A2, A1, RECT.T.copy()), RECT.T.copy()), ("+2/-3", MATRICES["+2/-3"], MATRICES["+2/-3"].score_matrix().copy())):
    R.check("substitution matrix accessors and transpose() agree with the score table", f"matrix {name}", {"matrix": name},
            lambda name=name, m=m, ref=ref: matrix_contract(name, m, ref))
for a, b in (("ACG", "ANR"), ("AC", "YCW"), ("GAT", "GNT"), ("CT", "TC"), ("CCT", "TTC")):
    for gap in (-1, (-3, -1)):
        for terminal, local in ((True, False), (False, False), (True, True)):
            for name, m, ref, amb in (("random 4x15", RECT_MATRIX, RECT, True), ("asymmetric 4x4", ASYM, ASYM.score_matrix(), False)):
                if not amb and set(b) - set("ACGT"):
                    continue
                R.check("align_optimal: reported score == maximum over all alignments; returned alignments valid, honestly scored, distinct",
                        "sequences swapped, matrix transposed", {"seq1": a, "seq2": b, "matrix": name, "gap": gap, "terminal_penalty": terminal, "local": local},
                        lambda a=a, b=b, amb=amb, m=m, ref=ref, gap=gap, terminal=terminal, local=local: swapped_roles(a, b, amb, m, ref, gap, terminal, local))

words = ["".join(w) for n in (1, 2, 3) for w in itertools.product("ACG", repeat=n)]
if not R.thorough:
    words = words[::3] + ["AAC", "CAA", "ACA"]
words += ["T", "CT", "TC", "TCT", "CTC", "GAT"]          # (with T: the asymmetric matrix distinguishes C over T from T over C)
for a, b in itertools.product(words, repeat=2):
    for mname in MATRICES:
        for gap in (-1, -3, (-3, -1)):
            for terminal, local in ((True, False), (False, False), (True, True)):
                if mname != "+1/-1" and gap == -3 and not R.thorough:
                    continue
                if mname == "asymmetric" and not R.thorough and not (set(a + b) & set("TG") and set(a + b) & set("CA")):
                    continue
                R.check("align_optimal: reported score == maximum over all alignments; returned alignments valid, honestly scored, distinct",
                        f"optimal {'local' if local else ('global' if terminal else 'semi-global')} gap={gap}",
                        {"seq1": a, "seq2": b, "matrix": mname, "gap": gap, "terminal_penalty": terminal, "local": local},
                        lambda a=a, b=b, mname=mname, gap=gap, terminal=terminal, local=local: contract(a, b, mname, gap, terminal, local))
R.finish()
