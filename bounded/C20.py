#!/venv/bin/python
"""BOUNDED stand-in for C20: the real MSA wrappers (MSAApp subclass, ClustalOmegaApp,
MuscleApp, Muscle5App, MafftApp) driven with the fake executable
fixtures/bin/fake_msa.  Bound: 2, 3, 12 and 13 sequences x 4 output orders x
nucleotide / protein / mapped custom alphabet x external behaviours (success,
exit code 3, garbage output, missing record, hang + timeout, hang + cancel,
missing binary)."""
import os
import shutil
import sys
import tempfile
import warnings
import numpy as np
sys.path.insert(0, "/verif")
from bounded.common import Run
import biotite.sequence as seq
import biotite.sequence.align as align
from biotite.application import AppState, AppStateError
from biotite.application.msaapp import MSAApp
from biotite.application.clustalo import ClustalOmegaApp
from biotite.application.muscle import MuscleApp, Muscle5App
from biotite.application.mafft import MafftApp

R = Run("C20", "real MSA wrappers x fake executable: n in {2,3,12,13} sequences x 4 output orders x nucleotide/protein/mapped x "
               "{ok, exit 3, garbage, missing record, hang+timeout, hang+cancel, missing binary}")
FAKE = "/verif/fixtures/bin/fake_msa"
SLEEPER = "/verif/fixtures/bin/sleeper"


class GenericMSA(MSAApp):
    def __init__(self, sequences, bin_path=FAKE, matrix=None):
        super().__init__(sequences, bin_path, matrix)

    def run(self):
        self.set_arguments([self.get_input_file_path(), self.get_output_file_path()])
        super().run()

    @staticmethod
    def supports_nucleotide():
        return True

    @staticmethod
    def supports_protein():
        return True

    @staticmethod
    def supports_custom_nucleotide_matrix():
        return True

    @staticmethod
    def supports_custom_protein_matrix():
        return True


APPS = {"generic": (GenericMSA, "3.8"), "clustalo": (ClustalOmegaApp, "1.2"), "muscle3": (MuscleApp, "3.8"),
        "muscle5": (Muscle5App, "5.1"), "mafft": (MafftApp, "7.4")}
CUSTOM = seq.Alphabet(["foo", "bar", 42, "baz"])


def sequences(kind, n):
    out = []
    for i in range(n):
        if kind == "nucleotide":
            s = seq.NucleotideSequence("ACGT"[i % 4] * (1 + i % 5) + "GATTACA"[: 1 + i % 7] + "ACGT"[(i // 4) % 4])
        elif kind == "protein":
            s = seq.ProteinSequence("ACDEFGHIKLMNPQRSTVWY"[i % 20] * (1 + i % 4) + "BIQTITE"[: 1 + i % 7])
        else:
            s = seq.GeneralSequence(CUSTOM, [CUSTOM.get_symbols()[(i + k) % 4] for k in range(2 + i % 5)])
        out.append(s)
    return out


def expected_order(n, order):
    idx = list(range(n))
    if order == "reversed":
        return idx[::-1]
    if order == "rotate":
        return idx[n // 2:] + idx[:n // 2]
    if order == "lex":
        return sorted(idx, key=str)
    return idx


def resources_ok(app, tmpdir, cwd):
    left = sorted(os.listdir(tmpdir))
    if left:
        return f"temporary files left behind: {left}"
    if os.getcwd() != cwd:
        return f"working directory changed to {os.getcwd()}"
    p = getattr(app, "_process", None)
    if p is not None:
        try:
            p.wait(timeout=2)
        except Exception:
            return "child process still alive"
    return None


def in_sandbox(fn):
    """run fn(tmpdir, cwd) with a private temp directory so that leaked files are visible"""
    tmpdir = tempfile.mkdtemp(prefix="verif_c20_")
    old = tempfile.tempdir
    tempfile.tempdir = tmpdir
    cwd = os.getcwd()
    try:
        return fn(tmpdir, cwd)
    finally:
        tempfile.tempdir = old
        os.chdir(cwd)
        shutil.rmtree(tmpdir, ignore_errors=True)


def make(appname, kind, n, bin_path=FAKE):
    cls, version = APPS[appname]
    os.environ["FAKE_MSA_VERSION"] = version
    seqs = sequences(kind, n)
    if kind == "custom":
        m = align.SubstitutionMatrix(CUSTOM, CUSTOM, np.identity(4, dtype=np.int32))
        return seqs, cls(seqs, bin_path, matrix=m)
    return seqs, cls(seqs, bin_path)


def ok_contract(appname, kind, n, order, noise_kb=0, timeout=None):
    def body(tmpdir, cwd):
        os.environ["FAKE_MSA_BEHAVIOUR"] = "ok"
        os.environ["FAKE_MSA_ORDER"] = order
        os.environ["FAKE_MSA_NOISE_KB"] = str(noise_kb)
        seqs, app = make(appname, kind, n)
        for getter in ("get_alignment", "get_alignment_order"):
            try:
                getattr(app, getter)()
                return f"{getter}() before start did not raise"
            except AppStateError:
                pass
        app.start()
        try:
            app.get_alignment()
            return "get_alignment() readable before join"
        except AppStateError:
            pass
        with warnings.catch_warnings():
            warnings.simplefilter("ignore")
            try:
                app.join() if timeout is None else app.join(timeout=timeout)
            except TimeoutError:
                return f"join(timeout={timeout}) timed out although the program finishes at once (it writes {noise_kb} KiB of messages first)"
            finally:
                os.environ["FAKE_MSA_NOISE_KB"] = "0"
        if app.get_app_state() != AppState.JOINED:
            return f"state after join is {app.get_app_state()}"
        ali = app.get_alignment()
        if len(ali.sequences) != n or any(a is not b for a, b in zip(ali.sequences, seqs)):
            return "alignment.sequences are not the inputs in input order"
        if ali.trace.shape[1] != n:
            return f"trace has {ali.trace.shape[1]} columns for {n} sequences"
        for i, s in enumerate(seqs):
            col = [int(x) for x in ali.trace[:, i]]
            lead = i % 3
            exp = [-1] * lead + list(range(len(s)))
            exp += [-1] * (len(col) - len(exp))
            if col != exp:
                return f"row {i} is not what the program produced for input {i}: trace column {col}, expected {exp}"
            if type(ali.sequences[i]) is not type(s):
                return "sequence type changed"
        got = [int(x) for x in app.get_alignment_order()]
        if got != expected_order(n, order):
            return f"get_alignment_order() {got} != output order of the program {expected_order(n, order)}"
        for meth in ("start", "join", "cancel"):
            try:
                getattr(app, meth)()
                return f"{meth}() after join did not raise"
            except AppStateError:
                pass
        return resources_ok(app, tmpdir, cwd)
    return in_sandbox(body)


def fail_contract(appname, kind, n, behaviour):
    def body(tmpdir, cwd):
        os.environ["FAKE_MSA_ORDER"] = "identity"
        os.environ["FAKE_MSA_BEHAVIOUR"] = behaviour.split("+")[0]
        if behaviour == "missing-binary":
            # version probes of the MUSCLE wrappers run in the constructor already
            if appname in ("muscle3", "muscle5"):
                return None
            seqs, app = make(appname, kind, n, bin_path="/verif/fixtures/bin/does_not_exist")
            try:
                app.start()
                return "start() with a missing binary did not raise"
            except AppStateError:
                return "AppStateError instead of the launch failure"
            except Exception:
                pass
        else:
            seqs, app = make(appname, kind, n)
            app.start()
            try:
                with warnings.catch_warnings():
                    warnings.simplefilter("ignore")
                    if behaviour == "hang+timeout":
                        import time as _time
                        t0 = _time.time()
                        try:
                            app.join(timeout=0.2)
                        except TimeoutError:
                            if _time.time() - t0 > 10:
                                return f"join(timeout=0.2) on a hanging program raised TimeoutError only after {_time.time() - t0:.0f} s"
                            raise
                        except AppStateError:
                            raise
                        except Exception as e:
                            return (f"join(timeout=0.2) on a program that hangs for 60 s ended after {_time.time() - t0:.0f} s with "
                                    f"{type(e).__name__}: {e} (TimeoutError after 0.2 s expected: the timeout did not fire)")
                    elif behaviour == "hang+cancel":
                        app.cancel()
                        raise RuntimeError("cancelled")
                    else:
                        app.join()
                return f"join() returned normally although the program behaved as '{behaviour}'"
            except AppStateError as e:
                return f"AppStateError from join: {e}"
            except TimeoutError:
                if behaviour != "hang+timeout":
                    return "unexpected TimeoutError"
            except Exception as e:
                import subprocess as _sp
                if behaviour.startswith("exit3") and not isinstance(e, _sp.SubprocessError):
                    return f"the failing exit code is reported as {type(e).__name__}: {e} (SubprocessError expected)"
        if app.get_app_state() != AppState.CANCELLED:
            return f"state after the failed run is {app.get_app_state()}"
        for meth in ("get_alignment", "get_alignment_order", "join", "start", "cancel"):
            try:
                getattr(app, meth)()
                return f"{meth}() after the failed run did not raise"
            except AppStateError:
                pass
        return resources_ok(app, tmpdir, cwd)
    return in_sandbox(body)


NS = (2, 3, 12, 13) if R.thorough else (3, 12)
for appname in APPS:
    kinds = ("nucleotide", "protein") + (("custom",) if appname in ("generic", "muscle3", "mafft") else ())
    for kind in kinds:
        for n in NS:
            for order in ("identity", "reversed", "rotate", "lex"):
                if not R.thorough and kind != "nucleotide" and order in ("identity", "rotate"):
                    continue
                R.check("start/join: rows and order map back to the inputs; result readable only after join; nothing left behind",
                        f"ok {appname}", {"app": appname, "seqtype": kind, "n": n, "order": order},
                        lambda a=appname, k=kind, n=n, o=order: ok_contract(a, k, n, o))
    # a chatty program: more output on STDERR than a pipe buffer holds
    for noise_kb in (1, 300):
        R.check("start/join: rows and order map back to the inputs; result readable only after join; nothing left behind",
                f"ok {appname} with {noise_kb} KiB of messages", {"app": appname, "n": 3, "noise_kb": noise_kb},
                lambda a=appname, nk=noise_kb: ok_contract(a, "nucleotide", 3, "reversed", noise_kb=nk, timeout=20))
    for behaviour in ("exit3", "exit3delete", "garbage", "missing", "hang+timeout", "hang+cancel", "missing-binary"):
        R.check("failed run: error raised, state CANCELLED, results unreadable, clean-up done (no temp file, child or cwd change left)",
                f"fail {appname} {behaviour}", {"app": appname, "behaviour": behaviour},
                lambda a=appname, b=behaviour: fail_contract(a, "protein", 3, b))
def base_join_contract(run_s, timeout):
    """the generic life cycle of the base class (what web applications and user-defined wrappers inherit): join()
    polls until the job has finished or the time limit has passed - also a limit of 0 - then the application is
    JOINED, or CANCELLED with TimeoutError; clean-up runs once and the child is gone"""
    import subprocess
    import time
    from biotite.application import Application
    from biotite.application.application import TimeoutError as AppTimeoutError

    class SleepApp(Application):
        def __init__(self):
            super().__init__()
            self.cleanups = 0
            self.proc = None

        def run(self):
            self.proc = subprocess.Popen(["/bin/sleep", str(run_s)])

        def is_finished(self):
            return self.proc.poll() is not None

        def wait_interval(self):
            return 0.01

        def evaluate(self):
            self.result = self.proc.returncode

        def clean_up(self):
            self.cleanups += 1
            if self.proc is not None and self.proc.poll() is None:
                self.proc.kill()
                self.proc.wait()
    app = SleepApp()
    app.start()
    t0 = time.time()
    expect_timeout = timeout is not None and timeout < run_s
    try:
        try:
            app.join() if timeout is None else app.join(timeout=timeout)
            out = "returned"
        except AppTimeoutError:
            out = "TimeoutError"
        took = time.time() - t0
        if expect_timeout and (out != "TimeoutError" or took > timeout + 1.0):
            return f"join(timeout={timeout}) on a job that runs {run_s} s: {out} after {took:.2f} s (TimeoutError at once expected), state {app.get_app_state().name}"
        if not expect_timeout and out != "returned":
            return f"join(timeout={timeout}) on a job that runs {run_s} s: {out}"
        want = AppState.CANCELLED if expect_timeout else AppState.JOINED
        if app.get_app_state() != want or app.cleanups != 1 or app.proc.poll() is None:
            return (f"after join(timeout={timeout}): state {app.get_app_state().name} (expected {want.name}), clean_up calls {app.cleanups}, "
                    f"child still running: {app.proc.poll() is None}")
        for meth in ("join", "cancel", "start"):
            try:
                getattr(app, meth)()
                return f"{meth}() after the run ended did not raise"
            except AppStateError:
                pass
    finally:
        if app.proc is not None and app.proc.poll() is None:
            app.proc.kill()
    return None


for run_s, timeout in ((1.5, 0), (1.5, 0.0), (1.5, 0.05), (0.2, None), (0.2, 5), (0.1, 2.0)):
    R.check("failed run: error raised, state CANCELLED, results unreadable, clean-up done (no temp file, child or cwd change left)",
            "base-class join with a time limit", {"job runs (s)": run_s, "timeout": timeout}, lambda run_s=run_s, timeout=timeout: base_join_contract(run_s, timeout))
R.finish()
