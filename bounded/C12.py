#!/venv/bin/python
"""BOUNDED stand-in for C12: sequence file formats return what was written and
file objects stay consistent under editing.  Bound: FASTA/FASTQ files of 1..3
entries (sequence lengths around the wrapping width, every offset, quality
strings starting with '@' and '+'), GenBank files with 1..2 features whose
locations cover every strand/defect class, GFF3 entries over a pool of special
strings, and edit histories (set / replace / insert / delete) of length <= 2
on GenBank, FASTA and FASTQ files, always compared with a list/dict model and
with a re-read of the written text."""
import io
import itertools
import sys
import numpy as np
sys.path.insert(0, "/verif")
from bounded.common import Run
import biotite.sequence as seq
import biotite.sequence.io.fasta as fasta
import biotite.sequence.io.fastq as fastq
import biotite.sequence.io.genbank as gb
import biotite.sequence.io.gff as gff
from biotite.sequence import Annotation, AnnotatedSequence, Feature, Location, NucleotideSequence

R = Run("C12", "FASTA/FASTQ/GenBank/GFF3 write->read round trips and edit histories of length <= 2 on small files")


def text_of(f):
    s = io.StringIO()
    f.write(s)
    return s.getvalue()


# ------------------------------------------------------------------ FASTA
def fasta_case(entries, chars):
    f = fasta.FastaFile(chars_per_line=chars)
    for h, s in entries:
        f[h] = s
    g = fasta.FastaFile.read(io.StringIO(text_of(f)))
    got = list(g.items())
    exp = list(dict(entries).items())
    if got != exp:
        return f"read {got}, wrote {exp}"
    if list(f.items()) != exp:
        return f"in-memory view {list(f.items())} != {exp}"
    # the streaming API gives the same entries / the same text as the file object
    text = text_of(f)
    it = list(fasta.FastaFile.read_iter(io.StringIO(text)))
    if it != exp:
        return f"read_iter gives {it}, wrote {exp}"
    out = io.StringIO()
    fasta.FastaFile.write_iter(out, iter(exp), chars_per_line=chars)
    if out.getvalue() != text:
        return f"write_iter writes {out.getvalue()!r}, the file object writes {text!r}"
    return None


seqs = ["A", "ACGT" * 2, "ACGTA" * 3 + "C"]
for chars in (4, 8):
    for n in (1, 2, 3):
        for combo in itertools.product(seqs, repeat=n):
            ent = [(f"h{i} x", s) for i, s in enumerate(combo)]
            R.check("FASTA round trip", f"fasta {n} entries", {"entries": ent, "chars_per_line": chars},
                    lambda ent=ent, chars=chars: fasta_case(ent, chars))


def fasta_edit(ops):
    f = fasta.FastaFile(chars_per_line=4)
    model = {}
    for op in ops:
        if op[0] == "set":
            f[op[1]] = op[2]
            model[op[1]] = op[2]
        elif op[0] == "del":
            if op[1] in model:
                del f[op[1]]
                del model[op[1]]
        if dict(f.items()) != model or len(f) != len(model):
            return f"after {op}: view {dict(f.items())} != model {model}"
        g = fasta.FastaFile.read(io.StringIO(text_of(f))) if model else None
        if g is not None and list(g.items()) != list(f.items()):
            return f"after {op}: text re-read {list(g.items())} != view {list(f.items())}"
    return None


fops = [("set", "a", "ACGTACG"), ("set", "b", "TT"), ("set", "a", "G"), ("del", "a"), ("del", "b"), ("set", "c", "ACGTACGTA")]
for n in (1, 2, 3):
    for combo in itertools.product(fops, repeat=n):
        R.check("FASTA editing keeps text and view consistent", "fasta edit", {"ops": list(combo)}, lambda combo=combo: fasta_edit(list(combo)))


# ------------------------------------------------------------------ FASTQ
def fastq_case(entries, offset, chars):
    f = fastq.FastqFile(offset=offset, chars_per_line=chars)
    for h, s, q in entries:
        f[h] = (NucleotideSequence(s), np.array(q))
    g = fastq.FastqFile.read(io.StringIO(text_of(f)), offset=offset)
    got = [(h, str(s), q.tolist()) for h, (s, q) in g.items()]
    exp = [(h, s, list(q)) for h, s, q in entries]
    if got != exp:
        return f"read {got}, wrote {exp}"
    inm = [(h, str(s), q.tolist()) for h, (s, q) in f.items()]
    if inm != exp:
        return f"in-memory view {inm} != {exp}"
    text = text_of(f)
    it = [(h, str(s), np.asarray(q).tolist()) for h, (s, q) in fastq.FastqFile.read_iter(io.StringIO(text), offset=offset)]
    if it != exp:
        return f"read_iter gives {it}, wrote {exp}"
    out = io.StringIO()
    fastq.FastqFile.write_iter(out, ((h, (s, np.array(q))) for h, s, q in entries), offset=offset, chars_per_line=chars)      # (sequence as string: documented)
    back = [(h, str(s), q.tolist()) for h, (s, q) in fastq.FastqFile.read(io.StringIO(out.getvalue()), offset=offset).items()]
    if back != exp:
        return f"what write_iter wrote reads back as {back}, wrote {exp}"
    return None


OFFSETS = {"Sanger": 33, "Solexa": 64, "Illumina-1.3": 64, "Illumina-1.5": 64, "Illumina-1.8": 33}
for offname, off in OFFSETS.items():
    at, plus = ord("@") - off, ord("+") - off
    quals = [[0, 1, 2, 3], [40, 30, 20, 10]]
    for special in (at, plus):
        if 0 <= special <= 93:
            quals.append([special, special, 5, 6])
            quals.append([7, special, special, special])
    if offname == "Solexa":
        quals += [[-5, -1, 0, 62], [-5, -5, -5, -5]]        # Solexa scores start at -5
    quals.append([0, 1, 61, 62] if off == 64 else [0, 1, 92, 93])  # the ends of the printable range
    for chars in (None, 2, 3):
        for q in quals:
            ent = [("r1", "ACGT", q), ("r2 d", "TTGA", quals[1])]
            R.check("FASTQ round trip", f"fastq {offname} wrap {chars}", {"entries": ent, "offset": offname, "chars_per_line": chars},
                    lambda ent=ent, offname=offname, chars=chars: fastq_case(ent, offname, chars))


def fasta_objects(items, as_rna, typed):
    """the sequence-object layer of FASTA: set_sequence(s) -> text -> get_sequence(s) returns equal objects of the same
    type, in order; `as_rna` writes U for T in NUCLEOTIDE sequences only and both letters read back as T"""
    f = fasta.FastaFile()
    d = {f"h{i}": (seq.ProteinSequence(t) if kind == "prot" else NucleotideSequence(t)) for i, (kind, t) in enumerate(items)}
    if len(d) == 1:
        fasta.set_sequence(f, list(d.values())[0], header="h0", as_rna=as_rna)
    else:
        fasta.set_sequences(f, d, as_rna=as_rna)
    text = text_of(f)
    for (kind, t), body in zip(items, [b for b in text.replace("\n", "").split(">")[1:]]):
        want = t.replace("T", "U") if (as_rna and kind == "nuc") else t
        if not body.endswith(want):
            return f"{kind} sequence {t!r} written as {body!r} (as_rna={as_rna})"
    g = fasta.FastaFile.read(io.StringIO(text))
    with warnings.catch_warnings():
        warnings.simplefilter("ignore")
        if typed:
            back = {h: fasta.get_sequence(g, header=h, seq_type=type(v)) for h, v in d.items()}
        else:
            back = fasta.get_sequences(g)
    if list(back) != list(d):
        return f"headers {list(back)} != {list(d)}"
    for h, v in d.items():
        b = back[h]
        # (without a requested type a protein made only of nucleotide letters is read as nucleotide: accepted)
        if typed or type(b) is type(v):
            if type(b) is not type(v) or str(b) != str(v):
                return f"{type(v).__name__} {str(v)!r} read back as {type(b).__name__} {str(b)!r} (as_rna={as_rna})"
        elif str(b) != str(v):
            return f"{type(v).__name__} {str(v)!r} read back as {type(b).__name__} {str(b)!r} (as_rna={as_rna})"
    return None


import warnings
FO = [[("nuc", "ACGTTTGA")], [("nuc", "ACGTNNRY")], [("prot", "MTLTKTEW*")], [("prot", "MKV")], [("nuc", "TTTT"), ("prot", "MTLTKTEW")],
      [("prot", "TTAGC"), ("nuc", "ACGT")], [("prot", "ACDEFGHIKLMNPQRSTVWY"), ("nuc", "T"), ("prot", "T")]]
for items in FO:
    for as_rna in (False, True):
        for typed in (False, True):
            R.check("FASTA round trip", "fasta sequence objects", {"items": items, "as_rna": as_rna, "seq_type given": typed},
                    lambda items=items, as_rna=as_rna, typed=typed: fasta_objects(items, as_rna, typed))


def fastq_objects(text, scores, as_rna, offset):
    f = fastq.FastqFile(offset=offset)
    s0 = NucleotideSequence(text)
    fastq.set_sequence(f, s0, np.array(scores), header="r1", as_rna=as_rna)
    fastq.set_sequences(f, {"r2": (s0.reverse(), np.array(scores[::-1]))}, as_rna=as_rna)
    body = text_of(f)
    if (text.replace("T", "U") if as_rna else text) not in body:
        return f"sequence {text!r} not written as expected (as_rna={as_rna}): {body!r}"
    g = fastq.FastqFile.read(io.StringIO(body), offset=offset)
    s1, q1 = fastq.get_sequence(g, "r1")
    allq = fastq.get_sequences(g)
    if str(s1) != text or q1.tolist() != list(scores) or type(s1) is not NucleotideSequence:
        return f"get_sequence: {str(s1)!r} {q1.tolist()}"
    if list(allq) != ["r1", "r2"] or str(allq["r2"][0]) != text[::-1] or allq["r2"][1].tolist() != list(scores[::-1]):
        return f"get_sequences: {[(h, str(s), q.tolist()) for h, (s, q) in allq.items()]}"
    return None


for text, scores in (("ACGT", [0, 10, 20, 40]), ("TTTTNACG", [1, 2, 3, 4, 5, 6, 7, 8]), ("T", [31])):
    for as_rna in (False, True):
        for offset in ("Sanger", "Illumina-1.3"):
            R.check("FASTQ round trip", "fastq sequence objects", {"sequence": text, "scores": scores, "as_rna": as_rna, "offset": offset},
                    lambda text=text, scores=scores, as_rna=as_rna, offset=offset: fastq_objects(text, scores, as_rna, offset))


def fresh_files():
    """file objects created without arguments share nothing with each other"""
    a, b = fasta.FastaFile(), fasta.FastaFile()
    a["h"] = "ACGT"
    if len(b) != 0 or len(fasta.FastaFile()) != 0 or text_of(b).strip() != "":
        return "FastaFile(): entries of one instance show up in another"
    a, b = fastq.FastqFile(offset="Sanger"), fastq.FastqFile(offset="Sanger")
    a["r"] = (NucleotideSequence("AC"), np.array([1, 2]))
    if len(b) != 0 or len(fastq.FastqFile(offset="Sanger")) != 0:
        return "FastqFile(): entries of one instance show up in another"
    a, b = gb.GenBankFile(), gb.GenBankFile()
    a.append("DEFINITION", ["x"])
    if len(b) != 0 or len(gb.GenBankFile()) != 0:
        return "GenBankFile(): fields of one instance show up in another"
    a, b = gff.GFFFile(), gff.GFFFile()
    a.append("s", "src", "gene", 1, 2, None, Location.Strand.FORWARD, None, {"ID": "z"})
    if len(b) != 0 or len(gff.GFFFile()) != 0:
        return "GFFFile(): entries of one instance show up in another"
    f1, f2 = Feature("gene", [Location(1, 2)]), Feature("gene", [Location(1, 2)])
    if f1.qual is f2.qual and f1.qual is not None and hasattr(f1.qual, "__setitem__"):
        return "two features created without qualifiers share one qualifier dictionary"
    x, y = Annotation(), Annotation()
    x.add_feature(f1)
    if len(list(y)) != 0 or len(list(Annotation())) != 0:
        return "Annotation(): features of one instance show up in another"
    return None


R.check("editing a file object keeps text and parsed view consistent", "fresh file objects are independent", {}, fresh_files)


# ------------------------------------------------------------------ GenBank
D = Location.Defect
LOCS = [Location(1, 10), Location(5, 5), Location(3, 8, Location.Strand.REVERSE), Location(2, 9, defect=D.BEYOND_LEFT),
        Location(2, 9, defect=D.BEYOND_RIGHT), Location(4, 4, defect=D.BEYOND_RIGHT), Location(4, 4, defect=D.BEYOND_LEFT),
        Location(2, 9, defect=D.BEYOND_LEFT | D.BEYOND_RIGHT), Location(3, 4, defect=D.BETWEEN), Location(3, 7, defect=D.UNK_LOC),
        Location(6, 12, Location.Strand.REVERSE, D.BEYOND_LEFT)]


def gb_annot(features, with_seq):
    annot = Annotation(features)
    f = gb.GenBankFile()
    gb.set_locus(f, "TEST", 12, "DNA", False, "UNK", "01-JAN-2000")
    if with_seq:
        gb.set_annotated_sequence(f, AnnotatedSequence(annot, NucleotideSequence("ACGTACGTACGT")))
    else:
        gb.set_annotation(f, annot)
    g = gb.GenBankFile.read(io.StringIO(text_of(f)))
    back = gb.get_annotation(g)
    if set(back) != set(annot):
        return f"read {sorted(map(repr, back))}, wrote {sorted(map(repr, annot))}"
    if with_seq:
        bs = gb.get_annotated_sequence(g)
        if str(bs.sequence) != "ACGTACGTACGT" or bs.sequence_start != 1:
            return f"sequence {bs.sequence} start {bs.sequence_start}"
    if set(gb.get_annotation(f)) != set(annot):
        return "in-memory file view differs from what was set"
    return None


for loc in LOCS:
    for qual in ({"gene": "x"}, {"note": "a b", "gene": "y"}, {}):
        feats = [Feature("CDS", [loc], dict(qual))]
        R.check("GenBank annotation round trip", f"genbank 1 feature {loc.defect} {loc.strand}", {"features": repr(feats)},
                lambda feats=feats: gb_annot(feats, False))
# qualifier values: empty string, flag without value (None), several values, quotes, long values that wrap
QUALS = [{"note": ""}, {"pseudo": None}, {"note": "", "pseudo": None, "gene": "abcA"}, {"db_xref": "GI:1\nGI:2"},
         {"note": "a very long note " * 8}, {"product": "5'-3' exonuclease"}, {"codon_start": "1", "note": "x=y; z"},
         {"pseudo": None, "partial": None}, {"pseudo": None, "partial": None, "ribosomal_slippage": None},
         {"pseudo": None, "trans_splicing": None, "gene": "abcA"}, {"gene": "abcA", "pseudo": None, "partial": None},
         {"pseudo": None, "note": "a /b c", "partial": None}, {"note": "x /pseudo y"}]
for qual in QUALS:
    feats = [Feature("CDS", [Location(2, 9)], dict(qual)), Feature("gene", [Location(1, 12)], {"gene": "g"})]
    for with_seq in (False, True):
        R.check("GenBank annotation round trip", "genbank qualifier values", {"qualifiers": repr(qual), "with_sequence": with_seq},
                lambda feats=feats, with_seq=with_seq: gb_annot(feats, with_seq))
for a, b in itertools.combinations(LOCS[:8], 2):
    if a.strand == b.strand:
        feats = [Feature("gene", [a, b], {"gene": "j"})]
        R.check("GenBank annotation round trip", "genbank joined locations", {"features": repr(feats)},
                lambda feats=feats: gb_annot(feats, True))


def gb_sequence(text, fmt, start, annotated):
    """GenBank / GenPept: the ORIGIN field returns the symbols and the sequence start that were written"""
    sq = seq.ProteinSequence(text) if fmt == "gp" else NucleotideSequence(text)
    f = gb.GenBankFile()
    gb.set_locus(f, "TEST", len(text), "DNA" if fmt == "gb" else "", False, "UNK", "01-JAN-2000")
    if annotated:
        feats = [Feature("gene", [Location(start, start + max(len(text) - 1, 0))], {"gene": "g"})]
        gb.set_annotated_sequence(f, AnnotatedSequence(Annotation(feats), sq, sequence_start=start))
    else:
        gb.set_sequence(f, sq, sequence_start=start)
    g = gb.GenBankFile.read(io.StringIO(text_of(f)))
    for src, label in ((g, "re-read file"), (f, "file object")):
        back = gb.get_sequence(src, format=fmt)
        if str(back) != text or type(back) is not type(sq):
            return f"get_sequence({label}, format={fmt!r}) = {str(back)!r} ({type(back).__name__}), wrote {text!r}"
        if gb.get_raw_sequence(src).upper() != text.upper():
            return f"get_raw_sequence({label}) = {gb.get_raw_sequence(src)!r}, wrote {text!r}"
        if annotated:
            a = gb.get_annotated_sequence(src, format=fmt)
            if str(a.sequence) != text or a.sequence_start != start:
                return f"get_annotated_sequence({label}): {str(a.sequence)!r} start {a.sequence_start}, wrote {text!r} start {start}"
    return None


GB_SEQS = [("gb", "ACGTACGTACGT"), ("gb", "ACGTNNRYACGTWSKMBDHV" * 4), ("gb", "A"), ("gb", "ACGT" * 31),
           ("gp", "MAKVL"), ("gp", "MA*KVL*"), ("gp", "*"), ("gp", "ACDEFGHIKLMNPQRSTVWYBZX*" * 3), ("gp", "M" * 60 + "*"), ("gp", "MK*" * 21)]
for fmt, text in GB_SEQS:
    for start in (1, 7, 100):
        for annotated in (False, True):
            R.check("GenBank / GenPept sequence round trip", f"genbank sequence ({fmt})", {"format": fmt, "sequence": text[:40], "length": len(text), "start": start, "annotated": annotated},
                    lambda fmt=fmt, text=text, start=start, annotated=annotated: gb_sequence(text, fmt, start, annotated))


def gb_edit(ops):
    """field editing: the parsed view (get_fields / indexing) must match a list model
    and the text after every step"""
    f = gb.GenBankFile()
    model = []
    for op in ops:
        if op[0] == "append":
            f.append(op[1], op[2])
            model.append((op[1], op[2]))
        elif op[0] == "insert":
            i = min(op[3], len(model))
            f.insert(i, op[1], op[2])
            model.insert(i, (op[1], op[2]))
        elif op[0] == "replace" and model:
            i = op[3] % len(model)
            f[i] = (op[1], op[2])
            model[i] = (op[1], op[2])
        elif op[0] == "delete" and model:
            i = op[3] % len(model)
            del f[i]
            del model[i]
        view = [(name, content) for name, content, sub in f]
        if view != [(n, c) for n, c in model] or len(f) != len(model):
            return f"after {op}: view {view} != model {model}"
        if model:
            g = gb.GenBankFile.read(io.StringIO(text_of(f)))
            view2 = [(name, content) for name, content, sub in g]
            if view2 != view:
                return f"after {op}: text re-read {view2} != view {view}"
            # representation invariant: the field index equals the index computed from the text
            if [tuple(p) for p in g._field_pos] != [tuple(p) for p in f._field_pos]:
                return f"after {op}: field index {f._field_pos} != index of the re-read text {g._field_pos}"
    return None


gops = [("append", "DEFINITION", ["a def"]), ("append", "VERSION", ["V1.1"]), ("append", "COMMENT", ["l1", "l2", "l3"]),
        ("insert", "KEYWORDS", ["k"], 0), ("insert", "SOURCE", ["s1", "s2"], 1),
        ("replace", "COMMENT", ["only one"], 0), ("replace", "DEFINITION", ["d1", "d2", "d3"], 0), ("replace", "SOURCE", ["x"], 1),
        ("delete", None, None, 0), ("delete", None, None, 1)]
for n in (2, 3):
    pool = gops if (R.thorough or n == 2) else gops[:3] + gops[5:9]
    for combo in itertools.product(pool, repeat=n):
        if not combo[0][0] in ("append", "insert"):
            continue
        R.check("GenBank field editing keeps text and view consistent", "genbank edit", {"ops": list(combo)},
                lambda combo=combo: gb_edit(list(combo)))


# ------------------------------------------------------------------ GFF3
STR = ["chr1", "a b", "semi;colon", "eq=ual", "amp&er", "com,ma", "#hash", "tab\tx", "per%cent", "x", "ID", ">gt"]


def gff_case(seqid, source, typ, attrs):
    f = gff.GFFFile()
    try:
        f.append(seqid, source, typ, 5, 20, 1.5, Location.Strand.FORWARD, 0, attrs)
    except ValueError as e:
        # refused with an error: allowed only for what the format cannot express (a seqid starting with '>')
        if str(seqid).startswith(">"):
            return None
        return f"an entry the format can express was refused: {type(e).__name__}: {e}"
    f.append("other", "src", "gene", 1, 2, None, Location.Strand.REVERSE, None, {"ID": "z"})
    g = gff.GFFFile.read(io.StringIO(text_of(f)))
    if len(g) != 2:
        return f"{len(g)} entries read, 2 written; text {text_of(f)!r}"
    e = g[0]
    exp = (seqid, source, typ, 5, 20, 1.5, Location.Strand.FORWARD, 0, attrs)
    if tuple(e) != exp:
        return f"read {tuple(e)!r}, wrote {exp!r}"
    if tuple(f[0]) != exp:
        return f"in-memory entry {tuple(f[0])!r} != {exp!r}"
    return None


def gff_columns(start, end, score, strand, phase, how):
    """the numeric columns and the 'undefined' markers: score (any float incl. 0 and None), strand (+, -, None),
    phase (0, 1, 2, None) come back as given, through append / insert / item assignment, from the file object and
    from its text read again"""
    f = gff.GFFFile()
    entry = ("chr1", "src", "CDS", start, end, score, strand, phase, {"ID": "x"})
    f.append("chr0", "src", "gene", 1, 2, 7.0, Location.Strand.FORWARD, 1, {"ID": "first"})
    if how == "append":
        f.append(*entry)
        at = 1
    elif how == "insert":
        f.insert(0, *entry)
        at = 0
    else:
        f[0] = entry
        at = 0
    g = gff.GFFFile.read(io.StringIO(text_of(f)))
    for name, obj in (("file object", f), ("text read again", g)):
        got = tuple(obj[at])
        if got != entry or type(got[5]) is not type(entry[5]) and entry[5] is not None and not isinstance(got[5], float):
            return f"{how}: {name} gives {got!r}, given {entry!r}; text {text_of(f)!r}"
    return None


for score in (None, 0, 0.0, -0.0, 1e-30, 57.5, -3.25, 1, 1e10):
    for strand, phase in ((Location.Strand.FORWARD, 0), (Location.Strand.REVERSE, 2), (None, None), (Location.Strand.FORWARD, 1)):
        for how in ("append", "insert", "setitem"):
            R.check("GFF3 round trip", "gff score / strand / phase columns", {"score": score, "strand": str(strand), "phase": phase, "how": how},
                    lambda score=score, strand=strand, phase=phase, how=how: gff_columns(3, 30, score, strand, phase, how))


GFF_START = ("##gff-version 3\nchr1\tsrc\tgene\t1\t10\t.\t+\t.\tID=a\n##sequence-region chr2 1 500\n"
             "chr2\tsrc\tgene\t5\t20\t.\t-\t.\tID=b\n##some-directive x y\nchr2\tsrc\tCDS\t6\t9\t2.5\t-\t0\tID=c\n")


def gff_edit(ops):
    """list interface of a GFF3 file that also holds directive lines between its entries: after every edit the
    entries equal a list model, and entries *and directives* (name and line) equal those of the text parsed again"""
    f = gff.GFFFile.read(io.StringIO(GFF_START))
    model = [tuple(e) for e in f]
    if len(model) != 3:
        return f"{len(model)} entries parsed from the start text"
    for op in ops:
        ent = ("chrN", "src", "exon", 3 + len(model), 40, None, Location.Strand.FORWARD, None, {"ID": f"n{len(model)}"})
        if op[0] == "append":
            f.append(*ent)
            model.append(ent)
        elif op[0] == "insert":
            i = min(op[1], len(model))
            f.insert(i, *ent)
            model.insert(i, ent)
        elif op[0] == "replace" and model:
            i = op[1] % len(model)
            f[i] = ent
            model[i] = ent
        elif op[0] == "delete" and model:
            i = op[1] % len(model)
            del f[i]
            del model[i]
        elif op[0] == "directive":
            f.append_directive("added-directive", "v", str(len(model)))
        view = [tuple(e) for e in f]
        if view != model or len(f) != len(model):
            return f"after {op}: entries {view} != model {model}"
        g = gff.GFFFile.read(io.StringIO(text_of(f)))
        if [tuple(e) for e in g] != view:
            return f"after {op}: the text parsed again has the entries {[tuple(e) for e in g]}, the file object {view}"
        if list(f.directives()) != list(g.directives()):
            return f"after {op}: directives() = {list(f.directives())}, the text parsed again has {list(g.directives())}"
        for name, line in f.directives():
            if not f.lines[line].startswith("##" + name.split()[0]):
                return f"after {op}: directive {name!r} is reported at line {line}, which reads {f.lines[line]!r}"
    return None


gffops = [("append",), ("insert", 0), ("insert", 1), ("insert", 3), ("replace", 0), ("replace", 2), ("delete", 0), ("delete", 1), ("delete", 2), ("directive",)]
for n in (1, 2, 3):
    for combo in itertools.product(gffops, repeat=n):
        if n == 3 and not R.thorough and (hash(combo) % 3):
            continue
        R.check("GFF3 editing keeps text and view consistent", "gff edit", {"ops": list(combo)}, lambda combo=combo: gff_edit(list(combo)))


def gff_annotation(features):
    annot = Annotation(features)
    f = gff.GFFFile()
    gff.set_annotation(f, annot, seqid="chr1", source="src")
    g = gff.GFFFile.read(io.StringIO(text_of(f)))
    back = gff.get_annotation(g)

    def norm(an):
        out = set()
        for ft in an:
            q = {k: v for k, v in ft.qual.items()}
            out.add((ft.key, frozenset((l.first, l.last, l.strand) for l in ft.locs), frozenset(q.items())))
        return out
    if norm(back) != norm(annot):
        return f"read {sorted(map(str, norm(back)))}, wrote {sorted(map(str, norm(annot)))}"
    return None


FW, RV = Location.Strand.FORWARD, Location.Strand.REVERSE
GFF_FEATS = [
    [Feature("gene", [Location(1, 10, FW)], {"ID": "g1"})],
    [Feature("gene", [Location(1, 10, RV)], {"ID": "g1", "Name": "n"})],
    [Feature("CDS", [Location(1, 10, FW), Location(20, 30, FW)], {"ID": "c1"})],
    [Feature("CDS", [Location(1, 10, RV), Location(20, 30, RV)], {"ID": "c1"})],
    [Feature("mRNA", [Location(1, 10, FW), Location(20, 30, RV)], {"ID": "rna0"})],
    [Feature("mRNA", [Location(1, 10, RV), Location(20, 30, FW), Location(40, 45, RV)], {"ID": "rna1", "Note": "trans spliced"})],
    [Feature("gene", [Location(5, 8, FW)], {"ID": "a"}), Feature("exon", [Location(6, 7, RV)], {"ID": "b"})],
    # features without an ID are separate features, also next to each other
    [Feature("gene", [Location(1, 10, FW)], {"Name": "g"}), Feature("exon", [Location(2, 5, FW)], {"Name": "e"})],
    [Feature("gene", [Location(1, 10, FW)], {}), Feature("exon", [Location(2, 5, RV)], {}), Feature("region", [Location(1, 100, FW)], {"Note": "r"})],
    [Feature("CDS", [Location(1, 10, FW), Location(20, 30, FW)], {"ID": "c1"}), Feature("gene", [Location(1, 40, FW)], {"Name": "x"}),
     Feature("exon", [Location(1, 10, FW)], {"Name": "y"}), Feature("region", [Location(1, 50, FW)], {})],
    [Feature("gene", [Location(1, 10, FW)], {"Name": "same"}), Feature("gene", [Location(20, 30, FW)], {"Name": "same"})],
]
for feats in GFF_FEATS:
    R.check("GFF3 annotation round trip (locations with strand, qualifiers)", "gff annotation", {"features": repr(feats)},
            lambda feats=feats: gff_annotation(feats))

for v in STR:
    R.check("GFF3 round trip", f"gff seqid {v!r}", {"seqid": v}, lambda v=v: gff_case(v, "src", "gene", {"ID": "a"}))
    R.check("GFF3 round trip", f"gff source {v!r}", {"source": v}, lambda v=v: gff_case("chr", v, "gene", {"ID": "a"}))
    R.check("GFF3 round trip", f"gff type {v!r}", {"type": v}, lambda v=v: gff_case("chr", "src", v, {"ID": "a"}))
    R.check("GFF3 round trip", f"gff attribute value {v!r}", {"attr": v}, lambda v=v: gff_case("chr", "src", "gene", {"ID": "a", "Note": v}))
    R.check("GFF3 round trip", f"gff attribute key {v!r}", {"key": v}, lambda v=v: gff_case("chr", "src", "gene", {"ID": "a", v: "val"}))
R.finish()
