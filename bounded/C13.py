#!/venv/bin/python
"""BOUNDED stand-in for C13 (the proofs in contracts/C13.py are the main decision; this adds
failing inputs that replay on the public API): annotated sequences against a per-base
reference model.  Bound: seeded random annotated sequences (8..14 bases, sequence start
1 / 7, 1..3 features with 1..3 disjoint locations, both strands, defects) x slices with
and without bounds x slice of a slice x feature read / feature assignment x reverse
complement (once, twice) x copy."""
import sys
import numpy as np
sys.path.insert(0, "/verif")
from bounded.common import Run
from biotite.sequence import Annotation, AnnotatedSequence, Feature, Location, NucleotideSequence

R = Run("C13", "seeded random annotated sequences (8..14 bases, start 1/7, <= 3 features x <= 3 disjoint locations, both strands, defects) x "
               "slices (open / closed bounds, slice of slice) x feature read and assignment x reverse complement x copy vs a per-base model")
rng = np.random.default_rng(R.args.seed + 13)
D = Location.Defect
# IUPAC pairing, derived from the base sets the codes stand for (independent of the library's table): the
# complement of a code is the code of the complemented set
_SETS = {"A": "A", "C": "C", "G": "G", "T": "T", "R": "AG", "Y": "CT", "W": "AT", "S": "CG", "M": "AC", "K": "GT",
         "H": "ACT", "B": "CGT", "V": "ACG", "D": "AGT", "N": "ACGT"}
_BASE = {"A": "T", "C": "G", "G": "C", "T": "A"}
COMP = {c: next(k for k, v in _SETS.items() if set(v) == {_BASE[b] for b in bases}) for c, bases in _SETS.items()}


def revcomp(s):
    return "".join(COMP[c] for c in reversed(s))


def rand_annot_seq():
    n = int(rng.integers(8, 15))
    start = int(rng.choice([1, 7]))
    # every third sequence uses the ambiguity codes as well (ambiguous alphabet)
    text = "".join(rng.choice(list("ACGTRYWSMKHBVDN" if int(rng.integers(0, 3)) == 0 else "ACGT"), size=n))
    feats = []
    for f in range(int(rng.integers(1, 4))):
        # disjoint locations inside the sequence
        k = int(rng.integers(1, 4))
        cuts = sorted(rng.choice(np.arange(start, start + n), size=min(2 * k, n), replace=False).tolist())
        all_rev = rng.random() < 0.4
        locs = []
        for a, b in zip(cuts[0::2], cuts[1::2]):
            strand = Location.Strand.REVERSE if all_rev else Location.Strand.FORWARD
            defect = D.NONE
            if rng.random() < 0.25:
                defect = D(int(rng.choice([D.MISS_LEFT.value, D.MISS_RIGHT.value, D.BEYOND_LEFT.value, D.UNK_LOC.value,
                                           D.MISS_LEFT.value | D.MISS_RIGHT.value])))
            locs.append(Location(int(a), int(b), strand, defect))
        if locs:
            feats.append(Feature(f"k{f}", locs, {"id": str(f)}))
    return AnnotatedSequence(Annotation(feats), NucleotideSequence(text), sequence_start=start), text, start, feats


def model_slice(feats, lo, hi):
    """per-base model of annotation[lo:hi] (hi exclusive; None = open)"""
    out = []
    for f in feats:
        locs = []
        for l in f.locs:
            a = l.first if lo is None else max(l.first, lo)
            b = l.last if hi is None else min(l.last, hi - 1)
            if a > b:
                continue
            d = l.defect
            if a > l.first:
                d |= D.MISS_LEFT
            if b < l.last:
                d |= D.MISS_RIGHT
            locs.append(Location(a, b, l.strand, d))
        if locs:
            out.append((f.key, frozenset(locs), tuple(sorted(f.qual.items()))))
    return sorted(out, key=repr)


def annot_state(annot):
    return sorted(((f.key, frozenset(f.locs), tuple(sorted(f.qual.items()))) for f in annot), key=repr)


def feature_text(text, start, feat):
    strands = {l.strand for l in feat.locs}
    if len(strands) != 1:
        return None
    if strands == {Location.Strand.FORWARD}:
        return "".join(text[l.first - start:l.last - start + 1] for l in sorted(feat.locs, key=lambda l: l.first))
    return "".join(revcomp(text[l.first - start:l.last - start + 1]) for l in sorted(feat.locs, key=lambda l: l.last, reverse=True))


def contract(draw):
    aseq, text, start, feats = rand_annot_seq()
    n = len(text)
    desc = f"AnnotatedSequence({[(f.key, sorted((l.first, l.last, l.strand.name, int(l.defect.value)) for l in f.locs)) for f in feats]}, {text!r}, sequence_start={start})"
    # slices
    for _ in range(4):
        lo = None if rng.random() < 0.3 else int(rng.integers(start, start + n))
        hi = None if rng.random() < 0.3 else int(rng.integers((lo or start), start + n + 1))
        sub = aseq[lo:hi]
        a, b = (lo if lo is not None else start), (hi if hi is not None else start + n)
        if str(sub.sequence) != text[a - start:b - start]:
            return f"{desc}[{lo}:{hi}]: sequence {str(sub.sequence)!r} != {text[a - start:b - start]!r}"
        if sub.sequence_start != a:
            return f"{desc}[{lo}:{hi}]: sequence_start {sub.sequence_start} != {a}"
        if annot_state(sub.annotation) != model_slice(feats, a, b):
            return f"{desc}[{lo}:{hi}]: annotation {annot_state(sub.annotation)} != per-base model {model_slice(feats, a, b)}"
        # a slice of the slice == the direct slice
        if b - a >= 2:
            lo2 = None if rng.random() < 0.3 else int(rng.integers(a, b))
            hi2 = None if rng.random() < 0.3 else int(rng.integers((lo2 or a), b + 1))
            a2, b2 = (lo2 if lo2 is not None else a), (hi2 if hi2 is not None else b)
            two = sub[lo2:hi2]
            one = aseq[a2:b2]
            if str(two.sequence) != str(one.sequence) or two.sequence_start != one.sequence_start:
                return f"{desc}[{lo}:{hi}][{lo2}:{hi2}]: sequence differs from the direct slice [{a2}:{b2}]"
            if annot_state(two.annotation) != model_slice([Feature(k, list(ls), dict(q)) for k, ls, q in model_slice(feats, a, b)], a2, b2):
                return f"{desc}[{lo}:{hi}][{lo2}:{hi2}]: annotation {annot_state(two.annotation)} differs from slicing the per-base model twice"
    # single positions
    for p in range(start, start + n):
        if aseq[p] != text[p - start]:
            return f"{desc}[{p}] = {aseq[p]!r} != {text[p - start]!r}"
    # feature read / assignment
    for f in feats:
        exp = feature_text(text, start, f)
        if exp is None:
            continue
        got = str(aseq[f])
        if got != exp:
            return f"{desc}[feature {f.key}] = {got!r}, the bases of the locations in biological order are {exp!r}"
        new = "".join(rng.choice(list("ACGT"), size=len(exp)))
        c = aseq.copy()
        c[f] = NucleotideSequence(new)
        if str(c[f]) != new:
            return f"{desc}: after [feature {f.key}] = {new!r} the feature reads {str(c[f])!r}"
        covered = {p for l in f.locs for p in range(l.first, l.last + 1)}
        for p in range(start, start + n):
            if p not in covered and c[p] != text[p - start]:
                return f"{desc}: [feature {f.key}] = ... changed position {p} outside the feature"
        if str(aseq.sequence) != text:
            return f"{desc}: assignment through a copy changed the original"
    # features whose locations overlap or are nested (read only: an assignment to overlapping locations is not
    # well defined): biological order = by the 5' end of each location on its strand
    if n >= 8:
        for strand in (Location.Strand.FORWARD, Location.Strand.REVERSE):
            a0 = start + int(rng.integers(0, 2))
            b0 = start + n - 1 - int(rng.integers(0, 2))
            for locs in ([Location(a0, b0, strand), Location(a0 + 2, b0 - 2, strand)],                       # nested
                         [Location(a0, a0 + 4, strand), Location(a0 + 2, b0, strand)],                      # overlapping
                         [Location(a0 + 1, b0 - 1, strand), Location(a0, a0 + 2, strand), Location(b0 - 2, b0, strand)]):
                f = Feature("nested", locs, {})
                exp = feature_text(text, start, f)
                got = str(aseq[f])
                if got != exp:
                    return (f"{desc}[feature with overlapping locations {[(l.first, l.last, l.strand.name) for l in locs]}] = {got!r}, "
                            f"in biological order (5' ends) {exp!r}")
    # reverse complement
    rc = aseq.reverse_complement(sequence_start=start)
    if str(rc.sequence) != revcomp(text):
        return f"{desc}.reverse_complement(): sequence {str(rc.sequence)!r}"
    for f in feats:
        exp = feature_text(text, start, f)
        if exp is None:
            continue
        twin = [g for g in rc.annotation if g.key == f.key]
        if len(twin) != 1 or str(rc[twin[0]]) != exp:
            return f"{desc}.reverse_complement(): feature {f.key} reads {[str(rc[g]) for g in twin]}, expected the same bases {exp!r}"
    back = rc.reverse_complement(sequence_start=start)
    if str(back.sequence) != text or annot_state(back.annotation) != annot_state(aseq.annotation) or back.sequence_start != start:
        return f"{desc}: reverse complement twice gives {annot_state(back.annotation)} / {str(back.sequence)!r} / start {back.sequence_start}"
    # copy
    c = aseq.copy()
    if c != aseq or str(c.sequence) != text or annot_state(c.annotation) != annot_state(aseq.annotation):
        return f"{desc}.copy() differs from the original"
    # ... and independent of it, in both directions, for the annotation, its slices and the annotated sequence
    before = annot_state(aseq.annotation)
    extra = Feature("verif_extra", [Location(start, start)], {"note": "added to a copy"})
    for what, make in (("AnnotatedSequence.copy().annotation", lambda: aseq.copy().annotation), ("Annotation.copy()", lambda: aseq.annotation.copy()),
                       ("slice [:] of the annotation", lambda: aseq.annotation[:]), ("the annotation of the slice [:]", lambda: aseq[:].annotation),
                       ("Annotation(annotation.get_features())", lambda: Annotation(aseq.annotation.get_features()))):
        other = make()
        other.add_feature(extra)
        if annot_state(aseq.annotation) != before:
            return f"{desc}: add_feature() on {what} changed the original annotation"
        if feats:
            other.del_feature(feats[0])
            if annot_state(aseq.annotation) != before:
                return f"{desc}: del_feature() on {what} changed the original annotation"
    snap = aseq.annotation.copy()
    aseq.annotation.add_feature(extra)
    if annot_state(snap) != before or annot_state(c.annotation) != before:
        return f"{desc}: add_feature() on the original changed an earlier copy"
    aseq.annotation.del_feature(extra)
    given = set(feats)
    ann = Annotation(given)
    ann.add_feature(extra)
    if extra in given:
        return f"{desc}: Annotation(set) keeps the caller's set: add_feature() changed it"
    return None


for draw in range(1200 if R.thorough else 250):
    R.check("annotated sequence operations agree with the per-base model", "annotated sequence", {"draw": draw, "seed": R.args.seed},
            lambda draw=draw: contract(draw))
R.finish()
