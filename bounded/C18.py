#!/venv/bin/python
"""BOUNDED stand-in for C18: small molecules through MOL / SDF files (V2000 and
V3000) and the RDKit bridge.  Bound: molecules of 1..4 atoms built from pools
of elements, charges (-4..4), bond types and boundary coordinates; stacks of
2..3 models; SDF records with metadata keys of every part combination and
multi-line values; files with 1..3 records."""
import io
import itertools
import sys
import warnings
import numpy as np
sys.path.insert(0, "/verif")
from bounded.common import Run
import biotite.structure as struc
import biotite.structure.io.mol as mol
import biotite.interface.rdkit as rd

R = Run("C18", "molecules of 1..4 atoms over pools of elements / charges / bond types / boundary coordinates through MOLFile, SDFile "
                "(V2000, V3000) and RDKit to_mol/from_mol; SDF metadata and multi-record files")
BT = struc.BondType


def molecule(elements, charges, bonds, coords=None, models=None):
    n = len(elements)
    a = struc.AtomArray(n) if models is None else struc.AtomArrayStack(models, n)
    a.element[:] = elements
    a.atom_name[:] = [f"{e}{i}" for i, e in enumerate(elements)]
    a.res_name[:] = "LIG"
    a.hetero[:] = True
    a.set_annotation("charge", np.array(charges, dtype=int))
    if coords is None:
        coords = [[1.5 * i, 0.25 * i * i, -0.5 * i] for i in range(n)]
    c = np.array(coords, dtype=np.float32)
    a.coord = c if models is None else np.stack([c + 10 * m for m in range(models)])
    a.bonds = struc.BondList(n, np.array([(i, j, int(t)) for i, j, t in bonds], dtype=int).reshape(-1, 3) if bonds else None)
    return a


def same(a, b, tol=1e-4, bond_map=None):
    if type(a) is not type(b):
        return f"type {type(b).__name__} != {type(a).__name__}"
    if a.array_length() != b.array_length():
        return f"{b.array_length()} atoms != {a.array_length()}"
    if a.element.tolist() != b.element.tolist():
        return f"elements {b.element.tolist()} != {a.element.tolist()}"
    if a.charge.tolist() != b.charge.tolist():
        return f"charges {b.charge.tolist()} != {a.charge.tolist()}"
    if a.coord.shape != b.coord.shape:
        return f"coord shape {b.coord.shape} != {a.coord.shape}"
    if not np.allclose(a.coord, b.coord, atol=tol):
        return f"coordinates {b.coord.tolist()} != {a.coord.tolist()}"
    ba = {(int(i), int(j)): int(t) for i, j, t in a.bonds.as_array()}
    bb = {(int(i), int(j)): int(t) for i, j, t in b.bonds.as_array()}
    if bond_map:
        ba = {k: bond_map.get(v, v) for k, v in ba.items()}
    if ba != bb:
        return f"bonds {bb} != {ba}"
    return None


EXPRESSIBLE = {int(t) for t in (BT.ANY, BT.SINGLE, BT.DOUBLE, BT.TRIPLE, BT.AROMATIC, BT.AROMATIC_SINGLE, BT.AROMATIC_DOUBLE)}
MOL_MAP = {int(t): int(BT.ANY) for t in BT if int(t) not in EXPRESSIBLE}      # documented default for inexpressible types


def mol_cycle(a, version, may_refuse=True):
    f = mol.MOLFile()
    try:
        with warnings.catch_warnings():
            warnings.simplefilter("ignore")
            f.set_structure(a, version=version)
    except (struc.BadStructureError, ValueError) as e:
        if not may_refuse:
            return f"a molecule that fits the format was refused: {type(e).__name__}: {e}"
        return None     # refused
    s = io.StringIO()
    f.write(s)
    text = s.getvalue()
    if version == "V2000" or (version is None and "V2000" in text):
        for line in text.split("\n")[4:4 + a.array_length()]:
            if len(line.rstrip("\n")) < 31 or line[10] == " " and False:
                pass
    g = mol.MOLFile.read(io.StringIO(text))
    b = g.get_structure()
    return same(a, b, bond_map=MOL_MAP)


ELEMS = [["C"], ["C", "O"], ["N", "C", "O"], ["C", "C", "CL", "H"]]
CHARGES = {1: [[0], [1], [-3], [4], [-4]], 2: [[0, 0], [1, -1], [4, 0]], 3: [[0, 0, 0], [0, 2, -2]], 4: [[0, 0, 0, 0], [-1, 0, 3, 0]]}
BONDTYPES = [BT.SINGLE, BT.DOUBLE, BT.TRIPLE, BT.AROMATIC_SINGLE, BT.AROMATIC_DOUBLE, BT.ANY, BT.QUADRUPLE, BT.AROMATIC, BT.COORDINATION]
for el in ELEMS:
    n = len(el)
    for ch in CHARGES[n]:
        bondsets = [[]] + [[(0, 1, t)] for t in BONDTYPES if n >= 2] + ([[(0, 1, BT.SINGLE), (1, 2, BT.DOUBLE)]] if n >= 3 else [])
        for bonds in bondsets:
            for version in ("V2000", "V3000", None):
                a = molecule(el, ch, bonds)
                R.check("MOL file round trip", f"mol {version}", {"elements": el, "charges": ch, "bonds": [(i, j, int(t)) for i, j, t in bonds], "version": version},
                        lambda a=a, version=version: mol_cycle(a, version, may_refuse=False))
# every formal charge of the stated range, every bond type of the library
for q in range(-15, 16):
    for version in ("V2000", "V3000", None):
        a = molecule(["FE", "O", "C"], [q, -q, 0], [(0, 1, BT.SINGLE)])
        R.check("MOL file round trip", f"mol {version}", {"elements": ["FE", "O", "C"], "charges": [q, -q, 0], "version": version},
                lambda a=a, version=version: mol_cycle(a, version, may_refuse=False))
for t in BT:
    for version in ("V2000", "V3000"):
        a = molecule(["C", "C", "N"], [0, 0, 0], [(0, 1, t), (1, 2, BT.SINGLE)])
        R.check("MOL file round trip", f"mol {version}", {"bond type": t.name, "version": version},
                lambda a=a, version=version: mol_cycle(a, version, may_refuse=False))
for v in [0.0, 0.00004, 9999.9999, -999.9999, 99999.9999, -9999.9999, 99999.99996, -9999.99996, 123456.7, -99999.9, -1200.162, 10000.5, -1000.0]:
    for axis in range(3):
        # the V2000 coordinate columns have no separator: a value that fills its 10 characters touches its neighbour
        xyz = [12.5, 1.0, -1.0]
        xyz[axis] = v
        a = molecule(["C", "O"], [0, 0], [(0, 1, BT.SINGLE)], coords=[[0, 0, 0], xyz])
        for version in ("V2000", "V3000", None):
            R.check("coordinate columns: round trip to 0.0001 or refused/V3000, never shifted", f"mol coord {version}", {"xyz"[axis]: v, "version": version},
                    lambda a=a, version=version: mol_cycle(a, version))
    wide = molecule(["C", "O", "O"], [0, 0, 0], [(0, 1, BT.DOUBLE), (0, 2, BT.DOUBLE)], coords=[[v, v, v], [v, -1201.162, -1000.0], [-9999.5, v, 99999.5]])
    for version in ("V2000", None):
        R.check("coordinate columns: round trip to 0.0001 or refused/V3000, never shifted", f"mol coord {version}", {"all three columns wide": v, "version": version},
                lambda wide=wide, version=version: mol_cycle(wide, version))


def sdf_cycle(models, version):
    a = molecule(["C", "O", "N"], [0, -1, 1], [(0, 1, BT.SINGLE), (1, 2, BT.DOUBLE)], models=models)
    K = mol.Metadata.Key
    meta = {K(name="Name"): "value", K(number=3): "x", K(name="Multi"): "line1\nline2",
            K(number=2, name="Both"): "1.5", K(name="N", registry_internal=7): "reg", K(name="R", registry_external="ext9"): "e"}
    rec = mol.SDRecord(header=mol.Header(mol_name="TestMol", initials="AB", program="PROG", dimensions="3D", comments="a comment"),
                       metadata=mol.Metadata(meta))
    rec.set_structure(a, version=version)
    f = mol.SDFile({"first": rec})
    if True:
        rec2 = mol.SDRecord(header=mol.Header(mol_name="second"))
        rec2.set_structure(molecule(["C"], [0], []))
        f["second"] = rec2
    s = io.StringIO()
    f.write(s)
    g = mol.SDFile.read(io.StringIO(s.getvalue()))
    names = list(g.keys())
    if names != ["TestMol", "second"] and names != ["first", "second"]:
        return f"record names/order {names}"
    r = g[names[0]]
    b = r.get_structure()
    d = same(a, b)
    if d:
        return d
    if r.header.mol_name not in ("TestMol", "first") or r.header.comments != "a comment" or r.header.initials != "AB":
        return f"header {r.header}"
    got = {(k.number, k.name, k.registry_internal, k.registry_external): v for k, v in r.metadata.items()}
    exp = {(k.number, k.name, k.registry_internal, k.registry_external): v for k, v in meta.items()}
    if got != exp:
        return f"metadata {got} != {exp}"
    return None


def per_record_metadata(how, n):
    """every record of a multi-record file keeps its own metadata, however the records were created"""
    f = mol.SDFile()
    exp = {}
    for i in range(n):
        name = f"rec{i}"
        a = molecule(["C", "O"][: 1 + i % 2], [0, 0][: 1 + i % 2], [(0, 1, BT.SINGLE)] if i % 2 else [])
        if how == "SDRecord()":
            rec = mol.SDRecord()
            rec.header = mol.Header(mol_name=name)
            rec.set_structure(a)
            f[name] = rec
        elif how == "SDRecord(header=...)":
            rec = mol.SDRecord(header=mol.Header(mol_name=name))
            rec.set_structure(a)
            f[name] = rec
        else:
            rec = mol.SDRecord(header=mol.Header(mol_name=name), metadata=None)
            rec.set_structure(a)
            f[name] = rec
        f[name].metadata[f"Key{i}"] = f"value {i}"
        if i == 1:
            f[name].metadata["Shared.Name"] = "only in record 1"
        exp[name] = {f"Key{i}": f"value {i}", **({"Shared.Name": "only in record 1"} if i == 1 else {})}
    fresh = mol.SDRecord()
    if len(fresh.metadata) != 0:
        return f"a new SDRecord() starts with metadata {dict((k.name, v) for k, v in fresh.metadata.items())}"
    s = io.StringIO()
    f.write(s)
    g = mol.SDFile.read(io.StringIO(s.getvalue()))
    if list(g.keys()) != list(exp):
        return f"record names/order {list(g.keys())}"
    for src, label in ((f, "file object"), (g, "re-read file")):
        for name in exp:
            got = {k.name: v for k, v in src[name].metadata.items()}
            if got != exp[name]:
                return f"{label}: record {name} has metadata {got}, expected {exp[name]}"
    return None


for how in ("SDRecord()", "SDRecord(header=...)", "SDRecord(metadata=None)"):
    for n in (1, 2, 3):
        R.check("SDF records: models become conformers and return; header/metadata/record order survive", "per-record metadata", {"records": n, "created by": how},
                lambda how=how, n=n: per_record_metadata(how, n))


def fresh_sd_objects():
    """SD files, records and metadata created without arguments share nothing with each other"""
    a, b = mol.SDFile(), mol.SDFile()
    rec = mol.SDRecord()
    rec.set_structure(molecule(["C"], [0], []))
    a["m"] = rec
    if len(b) != 0 or len(mol.SDFile()) != 0:
        return "SDFile(): records of one instance show up in another"
    m1, m2 = mol.Metadata(), mol.Metadata()
    m1["K"] = "v"
    if len(m2) != 0 or len(mol.Metadata()) != 0:
        return "Metadata(): keys of one instance show up in another"
    r1, r2 = mol.SDRecord(), mol.SDRecord()
    r1.metadata["K"] = "v"
    r1.header = mol.Header(mol_name="one")
    if len(r2.metadata) != 0 or r2.header.mol_name == "one" or len(mol.SDRecord().metadata) != 0:
        return "SDRecord(): metadata / header of one instance show up in another"
    f1, f2 = mol.MOLFile(), mol.MOLFile()
    f1.header = mol.Header(mol_name="one")
    if f2.header.mol_name == "one" or mol.MOLFile().header.mol_name == "one":
        return "MOLFile(): the header of one instance shows up in another"
    return None


R.check("SDF records: models become conformers and return; header/metadata/record order survive", "fresh objects are independent", {}, fresh_sd_objects)


def rename_contract(edit):
    """records read from a file, then renamed / edited, are written with the new names and headers"""
    f = mol.SDFile()
    for name, el in (("water", ["O"]), ("hydroxide", ["O", "H"]), ("third", ["C"])):
        rec = mol.SDRecord(header=mol.Header(mol_name=name, comments="c-" + name))
        rec.set_structure(molecule(el, [0] * len(el), [(0, 1, BT.SINGLE)] if len(el) == 2 else []))
        f[name] = rec
    s = io.StringIO()
    f.write(s)
    g = mol.SDFile.read(io.StringIO(s.getvalue()))
    h = mol.SDFile()
    exp_names, exp_comments = [], []
    for name in g.keys():
        rec = g[name]
        if edit == "rename":
            h["LIG_" + name] = rec
            exp_names.append("LIG_" + name)
            exp_comments.append("c-" + name)
        elif edit == "edit header":
            rec.header.comments = "edited " + name
            h[name] = rec
            exp_names.append(name)
            exp_comments.append("edited " + name)
        else:
            hd = rec.header
            hd.mol_name = "X_" + name
            h["X_" + name] = rec
            exp_names.append("X_" + name)
            exp_comments.append("c-" + name)
    s2 = io.StringIO()
    h.write(s2)
    k = mol.SDFile.read(io.StringIO(s2.getvalue()))
    if list(k.keys()) != exp_names:
        return f"records written as {exp_names} read back as {list(k.keys())}"
    got = [k[n].header.comments for n in k.keys()]
    if got != exp_comments:
        return f"header comments {got} != {exp_comments}"
    if [k[n].header.mol_name for n in k.keys()] != exp_names:
        return "header names differ from the record names"
    if [k[n].get_structure().array_length() for n in k.keys()] != [1, 2, 1]:
        return "molecules changed"
    return None


for edit in ("rename", "edit header", "rename through the header object"):
    R.check("SDF records: models become conformers and return; header/metadata/record order survive", f"parsed records, {edit}", {"edit": edit},
            lambda edit=edit: rename_contract(edit))


def key_contract(kw):
    """every metadata key - all combinations of its parts incl. the values 0 and '' - survives serialize/deserialize"""
    K = mol.Metadata.Key
    try:
        k = K(**kw)
    except ValueError as e:
        # a key needs a number or a name: only that is refused
        if kw.get("number") is None and kw.get("name") is None:
            return None
        return f"a key of the grammar was refused: {type(e).__name__}: {e}"
    text = k.serialize()
    back = K.deserialize(text)
    if back != k:
        return f"key {k!r} serialised as {text!r} reads back as {back!r}"
    md = mol.Metadata({k: "v"})
    rec = mol.SDRecord(header=mol.Header(mol_name="m"), metadata=md)
    rec.set_structure(molecule(["C"], [0], []))
    f = mol.SDFile({"m": rec})
    s = io.StringIO()
    f.write(s)
    g = mol.SDFile.read(io.StringIO(s.getvalue()))
    got = list(g["m"].metadata.keys())
    if got != [k]:
        return f"key {k!r} in a file reads back as {got!r}"
    return None


for number in (None, 0, 1, 25):
    for name in (None, "x", "Name.1", "1abc", "2", "9.x_y", "a_b", "Z9"):
        for ri in (None, 0, 7):
            for re_ in (None, "", "ext-9"):
                kw = {"number": number, "name": name, "registry_internal": ri, "registry_external": re_}
                R.check("SDF metadata keys (names, numbers, registry parts) survive unchanged", "metadata key", {k: repr(v) for k, v in kw.items()},
                        lambda kw=kw: key_contract(kw))


def header_contract(fields):
    import datetime
    h = mol.Header(**fields)
    a = molecule(["C"], [0], [])
    f = mol.MOLFile()
    f.header = h
    f.set_structure(a)
    s = io.StringIO()
    f.write(s)
    g = mol.MOLFile.read(io.StringIO(s.getvalue()))
    for k, v in fields.items():
        got = getattr(g.header, k)
        if got != v:
            return f"header field {k}: read {got!r}, wrote {v!r}"
    # the order of the two assignments does not matter, nor does replacing the header of a file that was read:
    # the molecule and the header are both there afterwards
    a2 = molecule(["C", "O", "N"], [0, -1, 1], [(0, 1, BT.SINGLE), (1, 2, BT.DOUBLE)])
    for version in ("V2000", "V3000"):
        for how in ("structure, then header", "read, then header", "header twice"):
            f2 = mol.MOLFile()
            if how == "header twice":
                f2.header = mol.Header(mol_name="first")
            f2.set_structure(a2, version=version)
            if how == "read, then header":
                s2 = io.StringIO()
                f2.write(s2)
                f2 = mol.MOLFile.read(io.StringIO(s2.getvalue()))
            f2.header = h
            s2 = io.StringIO()
            f2.write(s2)
            try:
                g2 = mol.MOLFile.read(io.StringIO(s2.getvalue()))
                b2 = g2.get_structure()
            except Exception as e:
                return f"{how} ({version}): the written file cannot be read: {type(e).__name__}: {e}"
            d = same(a2, b2)
            if d:
                return f"{how} ({version}): {d}"
            for k, v in fields.items():
                if getattr(g2.header, k) != v:
                    return f"{how} ({version}): header field {k}: read {getattr(g2.header, k)!r}, wrote {v!r}"
            if len(f2.lines) != len(g2.lines):
                return f"{how} ({version}): {len(f2.lines)} lines in the file object, {len(g2.lines)} after re-reading"
    # ... and in a multi-record SD file with metadata, whatever the free-text lines look like
    sdf = mol.SDFile()
    for nm in ("r1", "r2"):
        rr = mol.SDRecord(header=mol.Header(**dict(fields, mol_name=fields.get("mol_name", nm) if nm == "r1" else nm)), metadata=mol.Metadata({"Key": "value of " + nm}))
        rr.set_structure(a2)
        sdf[rr.header.mol_name] = rr
    s3 = io.StringIO()
    sdf.write(s3)
    try:
        back = mol.SDFile.read(io.StringIO(s3.getvalue()))
        names = list(back.keys())
        if len(names) != 2:
            return f"SD file with this header: records {names}"
        for nm in names:
            d = same(a2, back[nm].get_structure())
            if d:
                return f"SD file with this header, record {nm!r}: {d}"
            md = {k.name: v for k, v in back[nm].metadata.items()}
            if list(md) != ["Key"] or not md["Key"].startswith("value of "):
                return f"SD file with this header, record {nm!r}: metadata {md}"
        for k, v in fields.items():
            if k != "mol_name" and getattr(back[names[0]].header, k) != v:
                return f"SD file: header field {k}: read {getattr(back[names[0]].header, k)!r}, wrote {v!r}"
    except Exception as e:
        return f"SD file with this header cannot be read back: {type(e).__name__}: {e}"
    rec = mol.SDRecord(header=h)
    rec.set_structure(a)
    r2 = mol.SDRecord.deserialize(rec.serialize())
    for k, v in fields.items():
        if getattr(r2.header, k) != v:
            return f"SD record header field {k}: read {getattr(r2.header, k)!r}, wrote {v!r}"
    return None


import datetime
HEADERS = [
    {"mol_name": "X"}, {"mol_name": "A" * 80}, {"initials": "AB", "program": "PROGRAM1"}, {"initials": "Z", "program": "P"},
    {"dimensions": "3D"}, {"dimensions": "2D", "scaling_factors": "12"}, {"energy": "123456789012"}, {"energy": "-1.5"},
    {"registry_number": "1"}, {"registry_number": "123"}, {"registry_number": "654321"}, {"comments": "c" * 80}, {"comments": "with spaces  inside"},
    {"time": datetime.datetime(2024, 2, 29, 23, 59)},
    {"mol_name": "M", "initials": "QQ", "program": "ABCDEFGH", "dimensions": "3D", "registry_number": "999999", "comments": "all fields"},
    # free-text header lines that look like other parts of the file
    # (a header line starting with the record delimiter '$$$$', or a name starting with blanks, cannot be expressed by the format: not included)
    {"comments": "M  END terminates the connection table below"}, {"mol_name": "M  END"}, {"comments": "the delimiter is $$$$"},
    {"comments": "> <Name> looks like a metadata key"}, {"mol_name": "0  0  0     0  0            999 V2000"}, {"comments": "M  V30 BEGIN CTAB"},
]
for fields in HEADERS:
    R.check("MOL/SDF header fields survive unchanged (incl. values filling their columns)", "header", {k: str(v) for k, v in fields.items()},
            lambda fields=fields: header_contract(fields))

for models in (None,):
    for version in ("V2000", "V3000"):
        R.check("SDF records: models become conformers and return; header/metadata/record order survive", f"sdf {version}",
                {"models": models, "version": version}, lambda models=models, version=version: sdf_cycle(models, version))


def many_atoms():
    n = 1000
    a = molecule(["C"] * n, [0] * n, [(i, i + 1, BT.SINGLE) for i in range(n - 1)])
    return mol_cycle(a, None)


R.check("counts beyond 999 select V3000", "mol 1000 atoms", {"atoms": 1000}, many_atoms)


def many_bonds(n_atoms, n_bonds, version):
    """fewer than 1000 atoms but a bond count at the V2000 column limit"""
    pairs = [(i, j) for i in range(n_atoms) for j in range(i + 1, n_atoms)][:n_bonds]
    a = molecule(["C"] * n_atoms, [0] * n_atoms, [(i, j, BT.SINGLE) for i, j in pairs])
    if version == "V2000" and n_bonds > 999:
        f = mol.MOLFile()
        try:
            f.set_structure(a, version=version)
        except (struc.BadStructureError, ValueError):
            return None
        return "V2000 requested for more than 999 bonds and written instead of refused"
    return mol_cycle(a, version)


for n_atoms, n_bonds in ((46, 999), (46, 1000), (50, 1200)):
    for version in (None, "V2000", "V3000"):
        R.check("counts beyond 999 select V3000", f"mol {n_bonds} bonds {version}", {"atoms": n_atoms, "bonds": n_bonds, "version": version},
                lambda n_atoms=n_atoms, n_bonds=n_bonds, version=version: many_bonds(n_atoms, n_bonds, version))

RDK_MAP = {int(BT.AROMATIC_SINGLE): None}


def rdkit_cycle(el, ch, bonds, models):
    a = molecule(el, ch, bonds, models=models)
    with warnings.catch_warnings():
        warnings.simplefilter("ignore")
        m = rd.to_mol(a, explicit_hydrogen=True)
        b = rd.from_mol(m, add_hydrogen=False)
    if models is not None and not isinstance(b, struc.AtomArrayStack):
        return "stack did not come back as a stack"
    if models is None and isinstance(b, struc.AtomArrayStack):
        b = b[0]
    if isinstance(a, struc.AtomArrayStack) and a.stack_depth() != b.stack_depth():
        return f"{b.stack_depth()} models != {a.stack_depth()}"
    return same(a, b, tol=1e-3)


def rdkit_dative(flag):
    """coordination bonds: a DATIVE bond in RDKit when asked for (and back as COORDINATION), a single bond otherwise"""
    a = molecule(["N", "FE", "O"], [0, 0, 0], [(0, 1, BT.COORDINATION), (1, 2, BT.SINGLE)])
    with warnings.catch_warnings():
        warnings.simplefilter("ignore")
        m = rd.to_mol(a, use_dative_bonds=flag)
        b = rd.from_mol(m, add_hydrogen=False)
    kinds = sorted(str(x.GetBondType()) for x in m.GetBonds())
    want = ["DATIVE", "SINGLE"] if flag else ["SINGLE", "SINGLE"]
    if kinds != want:
        return f"to_mol(use_dative_bonds={flag}) has bonds {kinds}, expected {want}"
    exp = {(0, 1): int(BT.COORDINATION if flag else BT.SINGLE), (1, 2): int(BT.SINGLE)}
    got = {(int(i), int(j)): int(t) for i, j, t in b.bonds.as_array()}
    if got != exp:
        return f"from_mol(to_mol(use_dative_bonds={flag})) has bonds {got}, expected {exp}"
    return None


for flag in (False, True):
    R.check("RDKit bridge round trip (models <-> conformers)", "rdkit coordination bonds", {"use_dative_bonds": flag}, lambda flag=flag: rdkit_dative(flag))
for el in ELEMS:
    n = len(el)
    for ch in CHARGES[n][:2]:
        for bonds in [[]] + [[(0, 1, t)] for t in (BT.SINGLE, BT.DOUBLE, BT.TRIPLE) if n >= 2]:
            for models in (None, 1, 2, 3):
                R.check("RDKit bridge round trip (models <-> conformers)", "rdkit", {"elements": el, "charges": ch,
                        "bonds": [(i, j, int(t)) for i, j, t in bonds], "models": models},
                        lambda el=el, ch=ch, bonds=bonds, models=models: rdkit_cycle(el, ch, bonds, models))
R.finish()
