#!/venv/bin/python
"""BOUNDED stand-in for C02: the compiled BondList against a reference mapping
{unordered atom pair -> bond type}.  Bound: seeded random histories (length <= 8) of
construction / add / remove / merge / concatenate / offset / aromaticity and order
stripping / indexing (int, slice with step, mask, unsorted and negative index arrays)
on lists of <= 6 atoms and <= 7 bonds; every view compared after every step;
out-of-range and malformed indices probed in child processes (the exit status is
part of the oracle)."""
import json
import subprocess
import sys
import numpy as np
sys.path.insert(0, "/verif")
from bounded.common import Run
import biotite.structure as struc
from biotite.structure import BondList, BondType

R = Run("C02", "seeded random histories (<= 8 steps) over BondList operations on <= 6 atoms / <= 7 bonds x every view vs a reference mapping; "
               "out-of-range indices and wrong-length masks probed in child processes")
rng = np.random.default_rng(R.args.seed + 2)
NT = len(BondType)
AROM = {5: 1, 6: 2, 7: 3, 9: 0}


class Model:
    def __init__(self, n, d=None):
        self.n, self.d = n, dict(d or {})

    def copy(self):
        return Model(self.n, self.d)


def views_agree(b, m):
    if b.get_atom_count() != m.n:
        return f"atom count {b.get_atom_count()} != {m.n}"
    exp = {(i, j, t) for (i, j), t in m.d.items()}
    got = {(int(i), int(j), int(t)) for i, j, t in b.as_set()}
    if got != exp:
        return f"as_set {sorted(got)} != {sorted(exp)}"
    arr = b.as_array()
    rows = [tuple(int(x) for x in r) for r in arr]
    if len(rows) != len(exp) or set(rows) != exp:
        return f"as_array {rows} != {sorted(exp)}"
    if b.get_bond_count() != len(exp):
        return "bond count"
    allb, allt = b.get_all_bonds()
    if allb.shape[0] != m.n:
        return f"get_all_bonds has {allb.shape[0]} rows for {m.n} atoms"
    adj = b.adjacency_matrix()
    btm = b.bond_type_matrix()
    for a in range(m.n):
        expn = sorted((j if i == a else i, t) for (i, j), t in m.d.items() if a in (i, j))
        pb, pt = b.get_bonds(a)
        if sorted(zip(pb.tolist(), pt.tolist())) != expn:
            return f"get_bonds({a}) = {sorted(zip(pb.tolist(), pt.tolist()))} != {expn}"
        nb, nt = b.get_bonds(a - m.n)
        if sorted(zip(nb.tolist(), nt.tolist())) != expn:
            return f"get_bonds({a - m.n}) differs from get_bonds({a})"
        row = [(int(x), int(t)) for x, t in zip(allb[a], allt[a]) if x != -1]
        if sorted(row) != expn:
            return f"get_all_bonds row {a} = {sorted(row)} != {expn}"
        for c in range(m.n):
            key = (min(a, c), max(a, c))
            if bool(adj[a, c]) != (key in m.d):
                return f"adjacency_matrix[{a},{c}] = {adj[a, c]}"
            if int(btm[a, c]) != m.d.get(key, -1):
                return f"bond_type_matrix[{a},{c}] = {btm[a, c]} != {m.d.get(key, -1)}"
            if ((a, c) in b) != (key in m.d):
                return f"({a},{c}) in list = {(a, c) in b}"
    g = b.as_graph()
    ge = {(min(u, v), max(u, v), int(dd["bond_type"])) for u, v, dd in g.edges(data=True)}
    if ge != exp:
        return f"as_graph edges {sorted(ge)}"
    again = BondList(m.n, np.array(sorted(exp), dtype=np.int64).reshape(-1, 3))
    if not (b == again) or (b != again):
        return "not equal to a list built from the same mapping"
    if m.d:
        (i, j), t = next(iter(m.d.items()))
        other = dict(m.d)
        other[(i, j)] = (t + 1) % NT
        diff = BondList(m.n, np.array([(x, y, tt) for (x, y), tt in other.items()], dtype=np.int64).reshape(-1, 3))
        if b == diff:
            return "equal to a list with a different bond type"
    return None


def random_rows(n, k):
    rows = []
    for _ in range(k):
        i, j = int(rng.integers(-n, n)), int(rng.integers(-n, n))
        rows.append((i, j, int(rng.integers(0, NT))))
    return rows


def build(n, rows):
    m = Model(n)
    for i, j, t in rows:
        i, j = i % n if i < 0 else i, j % n if j < 0 else j
        key = (min(i, j), max(i, j))
        m.d.setdefault(key, t)              # first type wins at construction
    b = BondList(n, np.array(rows, dtype=np.int64).reshape(-1, 3)) if rows else BondList(n)
    return b, m


def step(b, m):
    """one random operation on (list, model); returns (description, list, model)"""
    n = m.n
    op = rng.choice(["add", "add", "remove", "remove_to", "remove_bonds", "merge", "concatenate", "offset", "arom", "order",
                     "getitem_mask", "getitem_index", "getitem_slice", "copy"])
    if op == "add":
        i, j, t = int(rng.integers(-n, n)), int(rng.integers(-n, n)), int(rng.integers(0, NT))
        b.add_bond(i, j, BondType(t) if rng.random() < 0.5 else t)
        pi, pj = i % n, j % n
        m.d[(min(pi, pj), max(pi, pj))] = t
        return f"add_bond({i},{j},{t})", b, m
    if op == "remove":
        if m.d and rng.random() < 0.7:
            (i, j) = list(m.d)[int(rng.integers(len(m.d)))]
            if rng.random() < 0.5:
                i, j = j - n, i
        else:
            i, j = int(rng.integers(-n, n)), int(rng.integers(-n, n))
        b.remove_bond(i, j)
        pi, pj = i % n, j % n
        m.d.pop((min(pi, pj), max(pi, pj)), None)
        return f"remove_bond({i},{j})", b, m
    if op == "remove_to":
        i = int(rng.integers(-n, n))
        b.remove_bonds_to(i)
        pi = i % n
        m.d = {k: t for k, t in m.d.items() if pi not in k}
        return f"remove_bonds_to({i})", b, m
    if op == "remove_bonds":
        o, om = build(n, random_rows(n, int(rng.integers(0, 4))) + [(i, j, 0) for (i, j) in list(m.d)[:1]])
        b.remove_bonds(o)
        m.d = {k: t for k, t in m.d.items() if k not in om.d}
        return f"remove_bonds({sorted(om.d)})", b, m
    if op == "merge":
        n2 = int(rng.integers(1, 7))
        o, om = build(n2, random_rows(n2, int(rng.integers(0, 4))))
        r = b.merge(o)
        nm = Model(max(n, n2), m.d)
        nm.d.update(om.d)                   # the argument takes precedence
        return f"merge(list of {n2} atoms {sorted(om.d.items())})", r, nm
    if op == "concatenate":
        n2 = int(rng.integers(0, 4))
        o, om = build(n2, random_rows(n2, int(rng.integers(0, 3)))) if n2 else (BondList(0), Model(0))
        if n + n2 > 9:
            return "skip", b, m
        r = b + o if rng.random() < 0.5 else BondList.concatenate([b, o])
        nm = Model(n + n2, m.d)
        nm.d.update({(i + n, j + n): t for (i, j), t in om.d.items()})
        return f"concatenate(list of {n2} atoms)", r, nm
    if op == "offset":
        k = int(rng.integers(0, 3))
        if n + k > 9:
            return "skip", b, m
        b.offset_indices(k)
        return f"offset_indices({k})", b, Model(n + k, {(i + k, j + k): t for (i, j), t in m.d.items()})
    if op == "arom":
        b.remove_aromaticity()
        m.d = {k: AROM.get(t, t) for k, t in m.d.items()}
        return "remove_aromaticity()", b, m
    if op == "order":
        b.remove_bond_order()
        m.d = {k: 0 for k in m.d}
        return "remove_bond_order()", b, m
    if op == "copy":
        c = b.copy()
        c.add_bond(0, n - 1, 3)
        c.remove_bonds_to(0)
        return "copy() then mutate the copy", b, m
    if op == "getitem_mask":
        mask = rng.random(n) < 0.7
        idx = np.where(mask)[0].tolist()
        index = mask
        desc = f"[mask {mask.astype(int).tolist()}]"
    elif op == "getitem_index":
        k = int(rng.integers(0, n + 1))
        idx = rng.permutation(n)[:k].tolist()
        index = np.array([i - n if rng.random() < 0.3 else i for i in idx], dtype=np.int64)
        desc = f"[index array {index.tolist()}]"
    else:
        sl = slice(*[None if rng.random() < 0.4 else int(x) for x in (rng.integers(-n, n), rng.integers(-n, n + 1))],
                   [None, 1, 2, -1, -2][int(rng.integers(5))])
        idx = list(range(n))[sl]
        index = sl
        desc = f"[{sl}]"
    r = b[index]
    new = {old: k for k, old in enumerate(idx)}
    nm = Model(len(idx), {(min(new[i], new[j]), max(new[i], new[j])): t for (i, j), t in m.d.items() if i in new and j in new})
    return desc, r, nm


def history_contract(draw):
    n = int(rng.integers(1, 7))
    rows = random_rows(n, int(rng.integers(0, 8)))
    b, m = build(n, rows)
    hist = [f"BondList({n}, {rows})"]
    f = views_agree(b, m)
    if f:
        return f"after {hist}: {f}"
    for _ in range(int(rng.integers(1, 9))):
        if m.n == 0:
            break
        desc, b, m = step(b, m)
        if desc == "skip":
            continue
        hist.append(desc)
        f = views_agree(b, m)
        if f:
            return f"after {hist}: {f}"
    return None


N = 1500 if R.thorough else 300
for draw in range(N):
    R.check("bond list observationally equals the reference mapping after every operation", "history", {"draw": draw, "seed": R.args.seed},
            lambda draw=draw: history_contract(draw))


# ---- invalid indices: IndexError, never a crash or a corrupted list (child processes) ----

PROBE = r'''
import json, sys, numpy as np
from biotite.structure import BondList
n, rows, call = json.loads(sys.argv[1])
b = BondList(n, np.array(rows, dtype=np.int64).reshape(-1, 3)) if rows else BondList(n)
before = sorted(tuple(int(x) for x in r) for r in b.as_array())
try:
    r = eval(call, {"b": b, "np": np, "BondList": BondList})
    out = "returned"
except IndexError:
    out = "IndexError"
except Exception as e:
    out = type(e).__name__
after = sorted(tuple(int(x) for x in r) for r in b.as_array())
print(json.dumps({"out": out, "unchanged": before == after}))
'''


def probe(n, rows, call, expect):
    p = subprocess.run([sys.executable, "-c", PROBE, json.dumps([n, rows, call])], capture_output=True, text=True, timeout=120)
    if p.returncode != 0:
        return f"BondList({n}, {rows}); {call} ended the process with status {p.returncode}"
    r = json.loads(p.stdout.strip().split("\n")[-1])
    if r["out"] not in expect:
        return f"BondList({n}, {rows}); {call} -> {r['out']}, expected {' or '.join(expect)}"
    if not r["unchanged"]:
        return f"BondList({n}, {rows}); {call} changed the list although it was refused"
    return None


ROWS = [(0, 1, 1), (1, 2, 2), (3, 4, 1)]
PROBES = []
for idx in (5, 6, 100, -6, -7, -100):
    key = "index above n-1" if idx >= 5 else ("index -n (valid)" if idx == -5 else "index below -n")
    for call in (f"b.get_bonds({idx})", f"b.add_bond({idx}, 0)", f"b.add_bond(0, {idx})", f"b.remove_bond({idx}, 1)", f"b.remove_bonds_to({idx})",
                 f"b[{idx}]"):
        PROBES.append((key, 5, ROWS, call, ("IndexError",)))
for idx in (1, -1):
    PROBES.append(("index above n-1" if idx >= 0 else "index below -n", 0, [], f"b.get_bonds({idx})", ("IndexError",)))
PROBES.append(("index above n-1", 5, ROWS, "BondList(3, np.array([[0, 3, 1]]))", ("IndexError",)))
PROBES.append(("index below -n", 5, ROWS, "BondList(3, np.array([[0, -4, 1]]))", ("IndexError",)))
PROBES.append(("index array out of range", 5, ROWS, "b[np.array([0, 7])]", ("IndexError",)))
PROBES.append(("index array out of range", 5, ROWS, "b[np.array([0, -6])]", ("IndexError",)))
for ln in (2, 4, 6, 9):
    # a mask of the wrong length is not an index outside [-n, n): only survival and an unchanged list are demanded
    PROBES.append(("boolean mask of the wrong length", 5, ROWS, f"b[np.ones({ln}, dtype=bool)]", ("IndexError", "returned", "ValueError", "TypeError")))
for key, n, rows, call, expect in PROBES:
    R.check("an index outside [-n, n) is rejected with IndexError; the list is not corrupted and the process survives", key,
            {"atoms": n, "rows": rows, "call": call}, lambda n=n, rows=rows, call=call, expect=expect: probe(n, rows, call, expect))
R.finish()
