#!/venv/bin/python
"""BOUNDED stand-in for C10: k-mer decomposition, k-mer tables (direct and bucketed) and
the selectors on the compiled code against naive definitions.  Bound: all DNA sequences
of length 0..5 (k = 2, 3, spaced models) for decomposition and selectors; seeded random
reference sets (1..3 sequences of length 0..9), queries, masks, bucket counts 1..7,
similarity thresholds for the tables."""
import itertools
import pickle
import sys
import numpy as np
sys.path.insert(0, "/verif")
from bounded.common import Run
import biotite.sequence as seq
import biotite.sequence.align as align

R = Run("C10", "all DNA sequences of length 0..5 x k in {2,3} x 4 spacing models (k-mer codes, selectors); seeded random reference sets "
               "(1..3 sequences, length 0..9) x queries x masks x bucket counts 1..7 x similarity thresholds (tables)")
rng = np.random.default_rng(R.args.seed + 10)
ALPH = seq.NucleotideSequence.alphabet_unamb
N = len(ALPH)


def ref_kmers(code, k, spacing=None):
    sp = list(range(k)) if spacing is None else list(spacing)
    span = sp[-1] + 1
    out = []
    for i in range(len(code) - span + 1):
        v = 0
        for j in range(k):
            v = v * N + int(code[i + sp[j]])
        out.append(v)
    return out, span


def model_positions(model):
    return [i for i, c in enumerate(model) if c == "1"]


MODELS = {2: [None, "101", "1001"], 3: [None, "1101", "1011", "10101"]}


def decomposition(text, k, model):
    s = seq.NucleotideSequence(text)
    ka = align.KmerAlphabet(ALPH, k, spacing=model)
    sp = None if model is None else model_positions(model)
    exp, span = ref_kmers(s.code, k, sp)
    if len(s) < span:
        try:
            got = ka.create_kmers(s.code)
        except ValueError:
            return None
        return f"create_kmers on a sequence shorter than the k-mer span returned {got.tolist()}"
    got = ka.create_kmers(s.code).tolist()
    if got != exp:
        return f"create_kmers = {got}, definition gives {exp}"
    if ka.kmer_array_length(len(s)) != len(exp):
        return f"kmer_array_length({len(s)}) = {ka.kmer_array_length(len(s))} != {len(exp)}"
    if exp:
        arr = np.array(exp, dtype=np.int64)
        parts = ka.split(arr)
        if ka.fuse(parts).tolist() != exp:
            return "fuse(split(kmers)) != kmers"
        for i, v in enumerate(exp):
            want = [int(s.code[i + p]) for p in (sp or range(k))]
            if parts[i].tolist() != want:
                return f"split({v}) = {parts[i].tolist()} != {want}"
            if ka.encode(ka.decode(v)) != v:
                return f"encode(decode({v})) != {v}"
    return None


texts = ["".join(t) for n in range(0, 6 if R.thorough else 5) for t in itertools.product("ACGT", repeat=n)]
for k in (2, 3):
    for model in MODELS[k]:
        for text in texts:
            R.check("k-mer codes of every window equal their definition; fuse/split inverse", f"decomposition k={k} model={model}",
                    {"seq": text, "k": k, "spacing": model}, lambda text=text, k=k, model=model: decomposition(text, k, model))


# ---- selectors ---------------------------------------------------------------------------

class Reverse(align.Permutation):
    @property
    def min(self):
        return -(N ** 3)

    @property
    def max(self):
        return 0

    def permute(self, kmers):
        return -np.asarray(kmers, dtype=np.int64)


def minimizer(text, k, window, perm):
    s = seq.NucleotideSequence(text)
    ka = align.KmerAlphabet(ALPH, k)
    sel = align.MinimizerSelector(ka, window, perm)
    kmers, _ = ref_kmers(s.code, k)
    if len(kmers) < window:
        try:
            pos, km = sel.select(s)
        except ValueError:
            return None
        return None if len(pos) == 0 else f"selected {pos.tolist()} although the sequence holds fewer than `window` k-mers"
    key = (lambda v: v) if perm is None else (lambda v: int(perm.permute(np.array([v]))[0]))
    chosen = []
    for w0 in range(len(kmers) - window + 1):
        win = kmers[w0:w0 + window]
        keys = [key(v) for v in win]
        chosen.append(w0 + keys.index(min(keys)))          # leftmost minimum
    exp = sorted(set(chosen))
    pos, km = sel.select(s)
    if pos.tolist() != exp:
        return f"minimizer positions {pos.tolist()}, leftmost minimum per window gives {exp}"
    if km.tolist() != [kmers[p] for p in exp]:
        return "minimizer k-mers do not match their positions"
    p2, k2 = sel.select_from_kmers(np.array(kmers, dtype=np.int64))
    if p2.tolist() != exp or k2.tolist() != km.tolist():
        return "select_from_kmers differs from select"
    return None


def syncmer(text, k, s_len, offsets, perm, cls):
    sq = seq.NucleotideSequence(text)
    sel = cls(ALPH, k, s_len, perm, offset=offsets)
    kmers, _ = ref_kmers(sq.code, k)
    smers, _ = ref_kmers(sq.code, s_len)
    if len(sq) < k:
        try:
            pos, km = sel.select(sq)
        except ValueError:
            return None
        return None if len(pos) == 0 else "syncmers selected in a sequence shorter than k"
    key = (lambda v: v) if perm is None else (lambda v: int(perm.permute(np.array([v]))[0]))
    n_s = k - s_len + 1
    offs = {o % n_s if o < 0 else o for o in offsets}
    exp = []
    for i in range(len(kmers)):
        keys = [key(v) for v in smers[i:i + n_s]]
        if keys.index(min(keys)) in offs:
            exp.append(i)
    pos, km = sel.select(sq)
    if pos.tolist() != exp:
        return f"syncmer positions {pos.tolist()}, minimum s-mer at an allowed offset gives {exp}"
    if km.tolist() != [kmers[p] for p in exp]:
        return "syncmer k-mers do not match their positions"
    return None


def mincode(text, k, compression, perm):
    s = seq.NucleotideSequence(text)
    ka = align.KmerAlphabet(ALPH, k)
    sel = align.MincodeSelector(ka, compression, perm)
    kmers, _ = ref_kmers(s.code, k)
    if len(s) < k:
        try:
            pos, km = sel.select(s)
        except ValueError:
            return None
        return None if len(pos) == 0 else "k-mers selected in a sequence shorter than k"
    key = (lambda v: v) if perm is None else (lambda v: int(perm.permute(np.array([v]))[0]))
    exp = [i for i, v in enumerate(kmers) if key(v) < sel.threshold]
    pos, km = sel.select(s)
    mask_returned = pos.dtype == bool
    if mask_returned:
        # known finding: a boolean mask is returned instead of the documented positions;
        # the selection itself is still compared with the definition
        pos = np.where(pos)[0]
    if pos.tolist() != exp:
        return f"mincode positions {pos.tolist()}, permuted code below the threshold {sel.threshold} gives {exp}"
    if km.tolist() != [kmers[p] for p in exp]:
        return "selected k-mers do not match their positions"
    lo, hi = (0, len(ka) - 1) if perm is None else (perm.min, perm.max)
    if not (lo <= sel.threshold <= hi + 1):
        return f"threshold {sel.threshold} outside the key range [{lo}, {hi}]"
    if mask_returned:
        return "mincode returns a boolean mask", f"select({text!r}) returned the boolean mask {sel.select(s)[0].tolist()} instead of the positions {exp}"
    return None


sel_texts = [t for t in texts if len(t) >= 1] + ["ACGTACGT", "AAAAAAAA", "TGCATGCATG", "ACACACACAC", "TTTTGTTTT"]
PERMS = {"none": None, "reverse": Reverse(), "random": align.RandomPermutation()}
for text in sel_texts:
    for pname, perm in PERMS.items():
        if pname == "random" and not R.thorough and len(text) % 2:
            continue
        for k, window in ((2, 2), (2, 3), (3, 2), (2, 5)):
            R.check("minimizers: leftmost minimum of every window", f"minimizer perm={pname}", {"seq": text, "k": k, "window": window, "perm": pname},
                    lambda text=text, k=k, window=window, perm=perm: minimizer(text, k, window, perm))
        for k, s_len, offsets in ((3, 2, (0,)), (4, 3, (0, -1)), (4, 2, (1,)), (4, 2, (0, -1)), (3, 2, (-1,))):
            for cls in (align.SyncmerSelector, align.CachedSyncmerSelector):
                if cls is align.CachedSyncmerSelector and pname == "random":
                    continue
                R.check("syncmers: minimum s-mer at an allowed offset", f"{cls.__name__} perm={pname}",
                        {"seq": text, "k": k, "s": s_len, "offset": offsets, "perm": pname},
                        lambda text=text, k=k, s_len=s_len, offsets=offsets, perm=perm, cls=cls: syncmer(text, k, s_len, offsets, perm, cls))
        for k, comp in ((2, 2), (2, 4), (3, 3), (2, 1)):
            R.check("mincode: permuted code below the threshold", f"mincode perm={pname}", {"seq": text, "k": k, "compression": comp, "perm": pname},
                    lambda text=text, k=k, comp=comp, perm=perm: mincode(text, k, comp, perm))


# ---- k-mer tables --------------------------------------------------------------------------

def rand_seq(lo, hi):
    n = int(rng.integers(lo, hi + 1))
    return "".join(rng.choice(list("ACGT"), size=n)) if n else ""


def entries(seqs, ref_ids, k, sp, masks=None):
    """{kmer code: [(ref_id, pos), ...]} by definition"""
    out = {}
    for si, (s, rid) in enumerate(zip(seqs, ref_ids)):
        code = seq.NucleotideSequence(s).code
        kmers, span = ref_kmers(code, k, sp)
        for i, v in enumerate(kmers):
            if masks is not None and masks[si] is not None and any(masks[si][i:i + span]):
                continue
            out.setdefault(v, []).append((rid, i))
    return out


def table_state(t):
    return {int(c): sorted((int(a), int(b)) for a, b in t[int(c)]) for c in t.get_kmers()}


def table_contract(draw):
    k = int(rng.choice([2, 3]))
    model = MODELS[k][int(rng.integers(len(MODELS[k])))]
    sp = None if model is None else model_positions(model)
    span = k if sp is None else sp[-1] + 1
    m = int(rng.integers(1, 4))
    seqs = [rand_seq(span, 9) for _ in range(m)]
    ref_ids = [int(x) for x in rng.choice(1000, size=m, replace=False)]
    use_masks = sp is None and rng.random() < 0.5
    masks = [(rng.random(len(s)) < 0.25) if rng.random() < 0.7 else None for s in seqs] if use_masks else None
    nseqs = [seq.NucleotideSequence(s) for s in seqs]
    exp = {c: sorted(v) for c, v in entries(seqs, ref_ids, k, sp, masks).items()}
    bucketed = rng.random() < 0.5
    nb = int(rng.integers(1, 8))
    kw = dict(ref_ids=ref_ids, ignore_masks=masks, spacing=model)
    desc = f"{'Bucket' if bucketed else ''}KmerTable.from_sequences(k={k}, {seqs}, ref_ids={ref_ids}, spacing={model}, masks={None if masks is None else [None if x is None else x.astype(int).tolist() for x in masks]}" + (f", n_buckets={nb})" if bucketed else ")")
    t = align.BucketKmerTable.from_sequences(k, nseqs, n_buckets=nb, **kw) if bucketed else align.KmerTable.from_sequences(k, nseqs, **kw)
    ka = t.kmer_alphabet
    if table_state(t) != exp:
        return f"{desc}: table holds {table_state(t)}, definition gives {exp}"
    counts = t.count() if not bucketed else t.count(np.arange(len(ka)))
    if [int(x) for x in counts] != [len(exp.get(c, [])) for c in range(len(ka))]:
        return f"{desc}: count() disagrees with the stored positions"
    some = np.array(sorted(exp)[:3] + [0], dtype=np.int64)
    if [int(x) for x in t.count(some)] != [len(exp.get(int(c), [])) for c in some]:
        return f"{desc}: count(kmers) disagrees"
    # other constructors / pickling give the same table
    variants = {"pickle": pickle.loads(pickle.dumps(t))}
    if masks is None:
        kms = [ka.create_kmers(s.code) for s in nseqs]
        variants["from_kmers"] = (align.BucketKmerTable.from_kmers(ka, kms, ref_ids=ref_ids, n_buckets=nb) if bucketed
                                  else align.KmerTable.from_kmers(ka, kms, ref_ids=ref_ids))
        pos = [np.arange(len(x), dtype=np.uint32) for x in kms]
        variants["from_kmer_selection"] = (align.BucketKmerTable.from_kmer_selection(ka, pos, kms, ref_ids=ref_ids, n_buckets=nb) if bucketed
                                           else align.KmerTable.from_kmer_selection(ka, pos, kms, ref_ids=ref_ids))
        if m >= 2:
            cls = align.BucketKmerTable if bucketed else align.KmerTable
            parts = [cls.from_sequences(k, [s], ref_ids=[r], spacing=model, **({"n_buckets": nb} if bucketed else {})) for s, r in zip(nseqs, ref_ids)]
            variants["from_tables"] = cls.from_tables(parts)
    if not bucketed:
        variants["from_positions"] = align.KmerTable.from_positions(ka, {c: np.array(v, dtype=np.uint32) for c, v in exp.items()})
    for name, v in variants.items():
        if table_state(v) != exp:
            return f"{desc}: {name} gives {table_state(v)}, expected {exp}"
    # matching a query
    q = rand_seq(0, 9)
    qs = seq.NucleotideSequence(q)
    qmask = (rng.random(len(q)) < 0.2) if (sp is None and rng.random() < 0.4) else None
    qk, _ = ref_kmers(qs.code, k, sp)
    exp_m = set()
    for qi, v in enumerate(qk):
        if qmask is not None and any(qmask[qi:qi + span]):
            continue
        for rid, pos_ in exp.get(v, []):
            exp_m.add((qi, rid, pos_))
    try:
        got = t.match(qs, ignore_mask=qmask)
        got_m = {(int(a), int(b), int(c)) for a, b, c in got}
        if len(got) != len(got_m):
            return f"{desc}: match({q!r}) returns duplicate rows"
    except ValueError:
        got_m = set() if len(q) < span else None
    if got_m != exp_m:
        return f"{desc}: match({q!r}, mask={None if qmask is None else qmask.astype(int).tolist()}) = {sorted(got_m) if got_m is not None else 'ValueError'}, expected {sorted(exp_m)}"
    # matching another table
    if len(q) >= span:
        cls = align.BucketKmerTable if bucketed else align.KmerTable
        other = cls.from_sequences(k, [qs], ref_ids=[77], spacing=model, **({"n_buckets": nb} if bucketed else {}))
        got = t.match_table(other)
        rows = {tuple(int(x) for x in r) for r in got}
        exp_t = {(77, qi, rid, pos_) for qi, v in enumerate(qk) for rid, pos_ in exp.get(v, [])}
        if rows != exp_t or len(got) != len(rows):
            return f"{desc}: match_table(table of {q!r}) = {sorted(rows)}, expected {sorted(exp_t)}"
    # similar k-mers under a score threshold
    if sp is None and len(q) >= k and rng.random() < 0.5:
        mat = align.SubstitutionMatrix.std_nucleotide_matrix()
        sm = mat.score_matrix()
        amb = mat.get_alphabet1()
        thr = int(rng.integers(0, 5 * k + 1))
        rule = align.ScoreThresholdRule(mat, thr)
        idx = [amb.encode(x) for x in "ACGT"]
        def score(a, b):
            da, db = ka.split(np.array([a]))[0], ka.split(np.array([b]))[0]
            return sum(int(sm[idx[int(x)], idx[int(y)]]) for x, y in zip(da, db))
        try:
            got = t.match(qs, similarity_rule=rule)
        except Exception as e:
            return None if "alphabet" in str(e).lower() else f"{desc}: match with a similarity rule raised {type(e).__name__}: {e}"
        got_m = {(int(a), int(b), int(c)) for a, b, c in got}
        exp_s = {(qi, rid, p) for qi, v in enumerate(qk) for c, lst in exp.items() if score(v, c) >= thr for rid, p in lst}
        if got_m != exp_s:
            return f"{desc}: match({q!r}, threshold {thr}) = {sorted(got_m)}, expected {sorted(exp_s)}"
    return None


for draw in range(1500 if R.thorough else 300):
    R.check("k-mer tables hold and match exactly the k-mers of their definition", "table", {"draw": draw, "seed": R.args.seed},
            lambda draw=draw: table_contract(draw))
R.finish()
