#!/venv/bin/python
"""BOUNDED stand-in for C17: residue / chain / molecule segmentation against a
direct per-atom recomputation.  Bound: all atom arrays of 1..5 atoms whose
(chain_id, res_id, ins_code, res_name) rows come from a pool of 6 rows, every
derived view; molecules of all bond sets on up to 4 atoms and chains of
10, 1000 atoms."""
import itertools
import sys
import numpy as np
sys.path.insert(0, "/verif")
from bounded.common import Run
import biotite.structure as struc

R = Run("C17", "all arrays of 1..5 atoms over a pool of 6 (chain, res_id, ins_code, res_name) rows: every residue/chain view vs per-atom "
                "recomputation; connected components for all bond sets on <= 4 atoms")
ROWS = [("A", 1, "", "GLY"), ("A", 1, "A", "GLY"), ("A", 1, "", "ALA"), ("A", 2, "", "GLY"), ("B", 2, "", "GLY"), ("A", 0, "", "GLY")]


def build(rows):
    n = len(rows)
    a = struc.AtomArray(n)
    a.chain_id[:] = [r[0] for r in rows]
    a.res_id[:] = [r[1] for r in rows]
    a.ins_code[:] = [r[2] for r in rows]
    a.res_name[:] = [r[3] for r in rows]
    a.atom_name[:] = [f"X{i}" for i in range(n)]
    a.element[:] = "C"
    a.coord = np.arange(n * 3, dtype=np.float32).reshape(n, 3)
    return a


def as_stack(a):
    """a stack whose number of models differs from its number of atoms"""
    models = []
    for m in range(a.array_length() + 2):
        b = a.copy()
        b.coord = a.coord + m
        models.append(b)
    return struc.stack(models)


def residue_contract(rows, stack=False):
    a = build(rows)
    if stack:
        a = as_stack(a)
    n = len(rows)
    exp_starts = [0] + [i for i in range(1, n) if rows[i] != rows[i - 1]]
    starts = struc.get_residue_starts(a).tolist()
    if starts != exp_starts:
        return f"get_residue_starts {starts} != {exp_starts}"
    if struc.get_residue_starts(a, add_exclusive_stop=True).tolist() != exp_starts + [n]:
        return "exclusive stop wrong"
    if struc.get_residue_count(a) != len(exp_starts):
        return "residue count"
    ids, names = struc.get_residues(a)
    if ids.tolist() != [rows[s][1] for s in exp_starts] or names.tolist() != [rows[s][3] for s in exp_starts]:
        return f"get_residues {ids.tolist()} {names.tolist()}"
    seg_of = [max(k for k, s in enumerate(exp_starts) if s <= i) for i in range(n)]
    pos = struc.get_residue_positions(a, np.arange(n)).tolist()
    if pos != seg_of:
        return f"get_residue_positions {pos} != {seg_of}"
    st_for = struc.get_residue_starts_for(a, np.arange(n)).tolist()
    if st_for != [exp_starts[k] for k in seg_of]:
        return f"get_residue_starts_for {st_for}"
    masks = struc.get_residue_masks(a, np.arange(n))
    for i in range(n):
        if masks[i].tolist() != [seg_of[j] == seg_of[i] for j in range(n)]:
            return f"get_residue_masks row {i}: {masks[i].tolist()}"
    vals = np.arange(n, dtype=float) + 1
    applied = struc.apply_residue_wise(a, vals, np.sum).tolist()
    exp_applied = [float(sum(vals[j] for j in range(n) if seg_of[j] == k)) for k in range(len(exp_starts))]
    if applied != exp_applied:
        return f"apply_residue_wise {applied} != {exp_applied}"
    for data, fn, name in ((vals > 2, np.sum, "bool data, np.sum"), (np.arange(n) + 1, np.mean, "int data, np.mean"),
                           (vals, np.max, "float data, np.max"), ((np.arange(n) % 2).astype(bool), np.any, "bool data, np.any")):
        got = np.asarray(struc.apply_residue_wise(a, data, fn)).tolist()
        expv = [fn(np.asarray(data)[[j for j in range(n) if seg_of[j] == k]]).item() for k in range(len(exp_starts))]
        if got != expv or any(type(x) is not type(y) for x, y in zip(got, expv)):
            return f"apply_residue_wise({name}) = {got}, per-segment recomputation gives {expv}"
    c2 = a.coord if not stack else a.coord[0]
    cgot = np.asarray(struc.apply_residue_wise(a, c2, np.mean, axis=0)).tolist()
    cexp = [np.mean(c2[[j for j in range(n) if seg_of[j] == k]], axis=0).tolist() for k in range(len(exp_starts))]
    if not np.allclose(cgot, cexp):
        return "apply_residue_wise(coord, np.mean, axis=0) differs from per-segment recomputation"
    # 'axis' is handed to the function as the keyword argument it is documented to be: functions whose second
    # positional parameter means something else (np.linalg.norm: ord; a partial; keyword-only axis) work as well
    import functools

    def kw_only(x, *, axis=None):
        return np.sum(x, axis=axis)
    for fn, data, ax, name in ((np.linalg.norm, vals + 0.5, 0, "np.linalg.norm on 1-d data, axis=0"), (np.linalg.norm, c2.astype(float) + 1, 0, "np.linalg.norm on coordinates, axis=0"),
                               (functools.partial(np.percentile, q=50), vals, 0, "partial(np.percentile, q=50), axis=0"), (kw_only, c2.astype(float), 0, "function with keyword-only axis")):
        try:
            got = np.asarray(struc.apply_residue_wise(a, data, fn, axis=ax))
        except Exception as e:
            return f"apply_residue_wise({name}) raised {type(e).__name__}: {e}"
        want = np.array([fn(np.asarray(data)[[j for j in range(n) if seg_of[j] == k]], axis=ax) for k in range(len(exp_starts))])
        if got.shape != want.shape or not np.allclose(got, want):
            return f"apply_residue_wise({name}) = {got.tolist()}, function(data[start:stop], axis={ax}) per residue gives {want.tolist()}"
    spread = struc.spread_residue_wise(a, np.arange(len(exp_starts))).tolist()
    if spread != seg_of:
        return f"spread_residue_wise {spread} != {seg_of}"
    # per-residue data with further dimensions is spread along the first axis
    for shape in ((3,), (1,), (2, 2)):
        per_res = np.arange(len(exp_starts) * int(np.prod(shape)), dtype=float).reshape((len(exp_starts),) + shape)
        try:
            sp = np.asarray(struc.spread_residue_wise(a, per_res))
        except Exception as e:
            return f"spread_residue_wise with per-residue data of shape {per_res.shape} raised {type(e).__name__}: {e}"
        want = per_res[seg_of]
        if sp.shape != want.shape or not np.array_equal(sp, want):
            return f"spread_residue_wise with per-residue data of shape {per_res.shape} gives shape {sp.shape}, per-atom recomputation gives {want.shape}"
    parts = list(struc.residue_iter(a))
    if sum(p.array_length() for p in parts) != n or [p.atom_name[0] for p in parts] != [f"X{s}" for s in exp_starts]:
        return "residue_iter does not partition the array"
    if struc.concatenate(parts).atom_name.tolist() != a.atom_name.tolist():
        return "concatenated residue_iter differs from the array"
    return None


def chain_contract(rows, stack=False):
    a = build(rows)
    if stack:
        a = as_stack(a)
    n = len(rows)
    exp = [0] + [i for i in range(1, n) if rows[i][0] != rows[i - 1][0] or rows[i][1] < rows[i - 1][1]]
    got = struc.get_chain_starts(a).tolist()
    if got != exp:
        return f"get_chain_starts {got} != {exp}"
    if struc.get_chain_count(a) != len(exp):
        return "chain count"
    if struc.get_chains(a).tolist() != [rows[s][0] for s in exp]:
        return "get_chains"
    seg_of = [max(k for k, s in enumerate(exp) if s <= i) for i in range(n)]
    if struc.get_chain_positions(a, np.arange(n)).tolist() != seg_of:
        return "get_chain_positions"
    cmean = np.asarray(struc.apply_chain_wise(a, a.res_id, np.mean)).tolist()
    cexpm = [float(np.mean([rows[j][1] for j in range(n) if seg_of[j] == k])) for k in range(len(exp))]
    if cmean != cexpm:
        return f"apply_chain_wise(res_id, np.mean) = {cmean}, per-chain recomputation gives {cexpm}"
    c2 = a.coord if not stack else a.coord[0]
    for fn, name in ((np.mean, "np.mean"), (np.max, "np.max")):
        got = np.asarray(struc.apply_chain_wise(a, c2, fn, axis=0))
        want = np.array([fn(c2[[j for j in range(n) if seg_of[j] == k]], axis=0) for k in range(len(exp))])
        if got.shape != want.shape or not np.allclose(got, want):
            return f"apply_chain_wise(coord, {name}, axis=0) has shape {got.shape}, per-chain recomputation gives shape {want.shape} / other values"
    spread = struc.spread_chain_wise(a, np.arange(len(exp))).tolist()
    if spread != seg_of:
        return f"spread_chain_wise {spread} != {seg_of}"
    per_chain = np.arange(len(exp) * 3, dtype=float).reshape(len(exp), 3)
    sp = np.asarray(struc.spread_chain_wise(a, per_chain))
    if sp.shape != (n, 3) or not np.array_equal(sp, per_chain[seg_of]):
        return f"spread_chain_wise with (n_chains, 3) data gives shape {sp.shape}"
    masks = struc.get_chain_masks(a, np.arange(n))
    for i in range(n):
        if masks[i].tolist() != [seg_of[j] == seg_of[i] for j in range(n)]:
            return f"get_chain_masks row {i}"
    if struc.get_chain_starts_for(a, np.arange(n)).tolist() != [exp[k] for k in seg_of]:
        return "get_chain_starts_for"
    parts = list(struc.chain_iter(a))
    if [p.array_length() for p in parts] != [seg_of.count(k) for k in range(len(exp))]:
        return "chain_iter"
    return None


def _none_as_empty(x):
    return [] if x is None else x


def empty_contract(kind):
    """an array without atoms has no residues and no chains, in every view"""
    if kind == "filtered":
        a = build([ROWS[0], ROWS[3]])
        a = a[a.chain_id == "Z"]
    elif kind == "AtomArray(0)":
        a = struc.AtomArray(0)
    else:
        a = struc.AtomArrayStack(2, 0)
    checks = [("get_residue_starts", lambda: struc.get_residue_starts(a).tolist(), []),
              ("get_residue_starts(add_exclusive_stop)", lambda: struc.get_residue_starts(a, add_exclusive_stop=True).tolist(), [0]),
              ("get_residue_count", lambda: struc.get_residue_count(a), 0),
              ("get_residues", lambda: [x.tolist() for x in struc.get_residues(a)], [[], []]),
              ("residue_iter", lambda: len(list(struc.residue_iter(a))), 0),
              ("get_chain_starts", lambda: struc.get_chain_starts(a).tolist(), []),
              ("get_chain_count", lambda: struc.get_chain_count(a), 0),
              ("get_chains", lambda: struc.get_chains(a).tolist(), []),
              ("chain_iter", lambda: len(list(struc.chain_iter(a))), 0),
              # (without a segment the function is never called, so no result array can be typed: None stands for 'no values')
              ("apply_chain_wise", lambda: len(_none_as_empty(struc.apply_chain_wise(a, np.zeros(0), np.sum))), 0),
              ("apply_residue_wise", lambda: len(_none_as_empty(struc.apply_residue_wise(a, np.zeros(0), np.sum))), 0)]
    for name, fn, exp in checks:
        try:
            got = fn()
        except Exception as e:
            return f"{name} on an empty {kind} raised {type(e).__name__}: {e}"
        if name.startswith("get_residue_starts(add") and got in ([], [0]):
            continue            # both conventions describe 'no segment'
        if got != exp:
            return f"{name} on an empty {kind} = {got}, expected {exp}"
    return None


for kind in ("filtered", "AtomArray(0)", "AtomArrayStack(2, 0)"):
    R.check("residue / chain views of an array without atoms", f"empty {kind}", {"array": kind}, lambda kind=kind: empty_contract(kind))

def no_such_atom_contract(rows, extra, stack=False):
    """an index that names no atom of the array (n, n + 1, ... or a negative one, which the functions document as
    unsupported) has no residue and no chain: the per-atom recomputation has no answer for it, so each view
    refuses the request instead of attributing the index to some segment"""
    a = build(rows)
    if stack:
        a = as_stack(a)
    n = len(rows)
    # no index at all is a legitimate request: every view answers it with an empty result
    for fn, shape in ((struc.get_residue_starts_for, (0,)), (struc.get_residue_positions, (0,)), (struc.get_residue_masks, (0, n)),
                      (struc.get_chain_starts_for, (0,)), (struc.get_chain_positions, (0,)), (struc.get_chain_masks, (0, n))):
        for empty in (np.array([], dtype=int), []):
            try:
                got = np.asarray(fn(a, empty))
            except Exception as e:
                return f"{fn.__name__}(array of {n} atoms, no indices) raised {type(e).__name__}: {e}"
            if got.shape != shape:
                return f"{fn.__name__}(array of {n} atoms, no indices) has shape {got.shape}, expected {shape}"
    for bad in (n, n + extra, -1):
        for idx in ([bad], list(range(n)) + [bad], [bad] + list(range(n))):
            for fn in (struc.get_residue_starts_for, struc.get_residue_positions, struc.get_residue_masks,
                       struc.get_chain_starts_for, struc.get_chain_positions, struc.get_chain_masks):
                try:
                    got = fn(a, np.array(idx))
                except (ValueError, IndexError):
                    continue
                except Exception as e:
                    return f"{fn.__name__}(array of {n} atoms, {idx}) raised {type(e).__name__}: {e}"
                return f"{fn.__name__}(array of {n} atoms, {idx}) = {np.asarray(got).tolist()}: index {bad} names no atom"
    return None


for n in range(1, 4):
    for rows in itertools.product(ROWS[:3], repeat=n):
        for stack in (False, True):
            R.check("residue views == per-atom recomputation", "index without atom", {"rows": list(rows), "extra": 1 + n, "stack": stack},
                    lambda rows=rows, n=n, stack=stack: no_such_atom_contract(list(rows), 1 + n, stack))

maxn = 5 if R.thorough else 4
for n in range(1, maxn + 1):
    for rows in itertools.product(ROWS, repeat=n):
        R.check("residue views == per-atom recomputation", "residues", {"rows": list(rows)}, lambda rows=rows: residue_contract(list(rows)))
        R.check("chain views == per-atom recomputation", "chains", {"rows": list(rows)}, lambda rows=rows: chain_contract(list(rows)))
        if n <= 3 or R.thorough:
            R.check("residue views == per-atom recomputation", "residues of a stack", {"rows": list(rows), "stack": True},
                    lambda rows=rows: residue_contract(list(rows), stack=True))
            R.check("chain views == per-atom recomputation", "chains of a stack", {"rows": list(rows), "stack": True},
                    lambda rows=rows: chain_contract(list(rows), stack=True))


def components(n, bonds):
    parent = list(range(n))

    def find(x):
        while parent[x] != x:
            parent[x] = parent[parent[x]]
            x = parent[x]
        return x
    for i, j in bonds:
        parent[find(i)] = find(j)
    comp = {}
    for i in range(n):
        comp.setdefault(find(i), []).append(i)
    return sorted(comp.values())


def molecule_contract(n, bonds):
    bl = struc.BondList(n, np.array([(i, j, 1) for i, j in bonds], dtype=int).reshape(-1, 3) if bonds else None)
    got = sorted(sorted(m.tolist()) for m in struc.get_molecule_indices(bl))
    exp = components(n, bonds)
    if got != exp:
        return f"get_molecule_indices {got} != components {exp}"
    masks = struc.get_molecule_masks(bl)
    if sorted(sorted(np.where(m)[0].tolist()) for m in masks) != exp:
        return "get_molecule_masks"
    return None


for n in range(1, 5):
    pairs = list(itertools.combinations(range(n), 2))
    for r in range(len(pairs) + 1):
        for sub in itertools.combinations(pairs, r):
            R.check("molecules == connected components", "molecules", {"atoms": n, "bonds": list(sub)}, lambda n=n, sub=sub: molecule_contract(n, list(sub)))
for n in (10, 1000):
    R.check("molecules == connected components", f"chain of {n}", {"atoms": n, "bonds": "path"},
            lambda n=n: molecule_contract(n, [(i, i + 1) for i in range(n - 1)]))
R.finish()
