"""shared helpers of the BOUNDED stand-ins (run under /venv/bin/python).

A stand-in attaches the property's contracts as run-time checks to the real
public API and drives it over a stated finite input space.  It is labelled
bounded everywhere and never counted as proved."""
import argparse
import json
import random
import signal
import sys
import traceback

# one contract instance that has produced no result after this many seconds counts as a failure
# ("did not terminate"): generous, instances take milliseconds
EVAL_TIMEOUT = 120


class _NoResult(BaseException):
    pass


def _on_alarm(signum, frame):
    raise _NoResult()


class Run:
    def __init__(self, prop, rule):
        ap = argparse.ArgumentParser()
        ap.add_argument("--tier", default="quick")
        ap.add_argument("--seed", type=int, default=0)
        ap.add_argument("--replay")
        self.args = ap.parse_args()
        self.prop = prop
        self.rule = rule
        self.rng = random.Random(self.args.seed)
        self.evaluations = 0
        self.nontrivial = set()
        self.failures = []
        self.timed_out = 0
        self.samples = []
        self.contracts = set()
        self.thorough = self.args.tier == "thorough"

    def check(self, contract, key, inp, fn, nontrivial=True):
        """evaluate one contract instance: fn() returns None (holds) or a failure text;
        exceptions escaping fn are failures too.  `key` groups failures of one kind
        (the known-findings file refers to it)."""
        self.evaluations += 1
        self.contracts.add(contract)
        if nontrivial:
            self.nontrivial.add((contract, repr(inp)[:200]))
        try:
            signal.signal(signal.SIGALRM, _on_alarm)
            limit = EVAL_TIMEOUT if not self.timed_out else 10      # after a first timeout: do not wait long again
            signal.alarm(limit)
            try:
                f = fn()
            finally:
                signal.alarm(0)
        except _NoResult:
            self.timed_out += 1
            f = f"no result within {limit} s (does not terminate)"
        except Exception as e:
            f = f"raised {type(e).__name__}: {e}"
            tb = traceback.format_exc().strip().split("\n")
            f += " @ " + tb[-3].strip() if len(tb) >= 3 else ""
        if isinstance(f, tuple):
            # (more specific failure key, text): a classified failure
            key, f = f
        if f:
            if not any(x["key"] == key for x in self.failures) or len(self.failures) < 40:
                self.failures.append({"contract": contract, "key": key, "input": inp, "what": f})
        elif len(self.samples) < 4 and self.rng.random() < 0.02:
            self.samples.append({"contract": contract, "input": inp})
        return f

    def finish(self):
        if not self.samples and self.evaluations:
            self.samples.append({"note": "all evaluated instances passed or failed; see failures"})
        # one representative per failure key first
        seen, ordered = set(), []
        for f in self.failures:
            if f["key"] not in seen:
                seen.add(f["key"])
                ordered.append(f)
        counts = {}
        for f in self.failures:
            counts[f["key"]] = counts.get(f["key"], 0) + 1
        if self.args.replay == "all-failures":
            for f in self.failures:
                print("FAILURE", f["key"], "|", str(f["what"])[:300], file=sys.stderr)
        print(json.dumps({"failure_counts": counts, "evaluations": self.evaluations, "distinct_nontrivial": len(self.nontrivial),
                          "failures": ordered, "n_failures": len(self.failures), "samples": self.samples,
                          "rule": self.rule, "contracts": sorted(self.contracts)}, default=str))
